"""Shared helpers of the container-level bounded drivers C08, C09, C15.

Everything here drives the *real* `MetadorContainer` through its public interface only; the raw tree below the
container (h5py.File / IH5Record / IH5MFRecord) is read only for observation (`raw_dump`, `reserved_paths`).

Container operation alphabet (JSON-able lists):
  ["set", path, val]              c[path] = val
  ["mkgrp", path]                 c.create_group(path)
  ["del", path]                   del c[path]
  ["setattr", path, key, val]     c[path].attrs[key] = val           (path "/" = the container itself)
  ["delattr", path, key]          del c[path].attrs[key]
  ["copy", src, dst, kw]          c.copy(src, dst, **kw)             kw: {"without_meta":b, "without_attrs":b}
                                  kw["into"]=True: dst is passed as the *group node* c[dst], optional kw["name"]
  ["move", src, dst]              c.move(src, dst)
  ["meta", path, objkey]          c[path].meta[<schema of objkey>] = OBJ[objkey]
  ["delmeta", path, schema]       del c[path].meta[schema]
  ["reopen"]                      close the container and open it again writable (IH5: implies a patch boundary)
  ["commit"]                      IH5 only: commit_patch(); create_patch()  (no-op on plain HDF5)
Metadata operations / reopen / commit are no-ops on a plain reference tree (`apply_rop`).
"""
from __future__ import annotations

import json
import shutil
import time as _time
import uuid as _uuid
from pathlib import Path

from . import base  # noqa: F401  (numpy shim first)

import h5py  # noqa: E402
import numpy as np  # noqa: E402, F401

import contextlib  # noqa: E402
import signal  # noqa: E402

from .base import OpTimeout  # noqa: E402
from .ih5lib import canon_val, dump_tree, is_grouplike, new_ref, norm, to_h5_value, under  # noqa: E402, F401

from metador_core.container import MetadorContainer  # noqa: E402
from metador_core.ih5.container import IH5MFRecord, IH5Record  # noqa: E402
from metador_core.plugins import schemas  # noqa: E402

OP_TIMEOUT_S = 10.0
RESERVED = "metador_"
KINDS = ("h5", "ih5", "ih5mf")
_CLS = {"h5": h5py.File, "ih5": IH5Record, "ih5mf": IH5MFRecord}

# ---------------------------------------------------------------- watchdog


@contextlib.contextmanager
def watchdog(seconds: float = 10.0):
    """Like rac.base.watchdog, but the alarm keeps re-firing every 0.5 s after expiry.

    An OpTimeout raised while the interpreter is inside a weakref/GC callback or a `__del__` is swallowed
    ("Exception ignored in ..."); with the one-shot timer of rac.base.watchdog a non-terminating loop would then never
    be interrupted. Nesting is supported (the outer timer is re-armed with its remaining time on exit).
    """

    def _h(signum, frame):
        raise OpTimeout(f"operation exceeded {seconds}s")

    old = signal.signal(signal.SIGALRM, _h)
    prev_delay, prev_interval = signal.setitimer(signal.ITIMER_REAL, seconds, 0.5)
    t0 = _time.time()
    try:
        yield
    finally:
        signal.setitimer(signal.ITIMER_REAL, 0)
        signal.signal(signal.SIGALRM, old)
        if prev_delay > 0:
            signal.setitimer(signal.ITIMER_REAL, max(0.01, prev_delay - (_time.time() - t0)), prev_interval)


# ---------------------------------------------------------------- metadata objects (installed schemas only)

_SHA = "sha256:" + "ab" * 32
OBJ = {
    # key: (schema name, version, fields)
    "file1": ("core.file", (0, 1, 0), dict(contentSize=3, sha256=_SHA, encodingFormat="text/plain", filename="x.txt")),
    "file2": ("core.file", (0, 1, 0), dict(contentSize=77, sha256=_SHA, encodingFormat="application/json", filename="y.json", name="second")),
    "img1": ("core.imagefile", (0, 1, 0), dict(contentSize=9, sha256=_SHA, encodingFormat="image/png", filename="p.png", width={"value": 10}, height={"value": 20})),
    "dir1": ("core.dir", (0, 1, 0), dict(name="dd")),
    "dir2": ("core.dir", (0, 1, 0), dict(name="ee", description="another directory")),
    "bib1": ("core.bib", (0, 1, 0), dict(name="nn", abstract="abs", author=[{"name": "A B"}], dateCreated="2020-01-01")),
    "person1": ("core.person", (0, 1, 0), dict(name="P Q")),
}
# schemas to query for (parents included: core.file finds core.imagefile objects, core.dir finds core.bib objects)
QUERY_SCHEMAS = ("core.file", "core.imagefile", "core.dir", "core.bib", "core.person")
_OBJ_CACHE = {}


def schema_of(objkey: str) -> str:
    return OBJ[objkey][0]


def build_obj(objkey: str):
    """Valid instance of an installed schema plugin (cached; instances are immutable for our purposes)."""
    if objkey not in _OBJ_CACHE:
        name, ver, fields = OBJ[objkey]
        _OBJ_CACHE[objkey] = schemas.get(name, ver)(**fields)
    return _OBJ_CACHE[objkey]


def obj_json(objkey: str):
    return json.loads(build_obj(objkey).json())


# ---------------------------------------------------------------- opening containers on the three drivers


class Box:
    """A MetadorContainer on one of the drivers, re-openable. `box.c` is the container, `box.raw` the raw tree."""

    def __init__(self, kind: str, dirpath: Path, name: str = None, open_now: bool = True):
        assert kind in KINDS
        self.kind = kind
        self.is_ih5 = kind != "h5"
        name = name or ("c" + _uuid.uuid4().hex[:8])
        self.path = Path(dirpath) / (name + (".h5" if kind == "h5" else ""))
        self.c = None
        if open_now:
            self.open("w")

    def open(self, mode: str = "r+"):
        raw = _CLS[self.kind](self.path, mode)
        try:
            self.c = MetadorContainer(raw)
        except Exception:
            raw.close()
            raise
        return self.c

    @property
    def raw(self):
        return self.c.__wrapped__

    def close(self):
        if self.c is not None:
            try:
                self.c.close()
            finally:
                self.c = None

    def reopen(self):
        self.close()
        return self.open("r+")

    def commit(self):
        if self.is_ih5:
            self.raw.commit_patch()
            self.raw.create_patch()

    def files(self):
        """All files on disk that belong to this container."""
        if not self.path.parent.is_dir():
            return []
        if self.kind == "h5":
            return [self.path] if self.path.exists() else []
        n = self.path.name
        return sorted(p for p in self.path.parent.iterdir() if p.name.startswith(n + "."))

    def destroy(self):
        """Close and remove the files."""
        try:
            self.close()
        except Exception:  # noqa
            pass
        for p in self.files():
            try:
                p.unlink()
            except OSError:
                pass

    def clone_closed(self, name: str = None) -> "Box":
        """Copy the files of this *closed* container to a new name; returns a new, not yet opened Box."""
        assert self.c is None
        new = Box(self.kind, self.path.parent, name, open_now=False)
        if self.kind == "h5":
            shutil.copyfile(self.path, new.path)
        else:
            n = self.path.name
            for p in self.files():
                shutil.copyfile(p, p.parent / (new.path.name + p.name[len(n) :]))
        return new


def open_container(kind: str, dirpath: Path, name: str = None) -> Box:
    return Box(kind, dirpath, name)


# ---------------------------------------------------------------- applying operations


def _node(target, path):
    return target if path == "/" else target[path]


def _kept_node(box: Box, path):
    """Metadata operations go through a node wrapper the caller KEEPS (obtained at the first metadata operation on that path, its .meta looked at
    once): `node.meta` builds the interface from the node as it is at each access. h5py keeps a held handle valid over a move (its name
    follows), so on the plain-HDF5 driver the kept wrappers follow a moved node; every other operation drops them (IH5 nodes are path values)."""
    kept = box.__dict__.setdefault("kept", {})
    if kept.get("__c__") is not box.c:  # reopened
        kept.clear()
        kept["__c__"] = box.c
    w = kept.get(path)
    if w is None:
        w = kept[path] = _node(box.c, path)
        len(w.meta)
    return w


def _after_cop(box: Box, op):
    kept = box.__dict__.get("kept")
    if not kept or op[0] in ("meta", "delmeta"):
        return
    if op[0] == "move" and box.kind == "h5":
        src, dst = op[1].strip("/"), op[2].strip("/")
        moved = {"__c__": kept.get("__c__")}
        for p, w in kept.items():
            q = p.strip("/") if p != "__c__" else None
            if q is not None and q == src:  # only the moved node itself: h5py does not update the name of held handles of its descendants
                moved[dst] = w
        kept.clear()
        kept.update(moved)
    else:
        kept.clear()


def _do_cop(box: Box, op):
    try:
        _do_cop_(box, op)
    except BaseException:
        box.__dict__.get("kept", {}).clear()
        raise
    _after_cop(box, op)


def _do_cop_(box: Box, op):
    c = box.c
    k = op[0]
    if k == "set":
        c[op[1]] = to_h5_value(op[2])
    elif k == "mkgrp":
        c.create_group(op[1])
    elif k == "del":
        del c[op[1]]
    elif k == "setattr":
        _node(c, op[1]).attrs[op[2]] = to_h5_value(op[3])
    elif k == "delattr":
        del _node(c, op[1]).attrs[op[2]]
    elif k == "copy":
        kw = dict(op[3]) if len(op) > 3 and op[3] else {}
        dst = op[2]
        if kw.pop("into", False):
            dst = _node(c, dst) if dst != "/" else c["/"]
        c.copy(op[1], dst, **kw)
    elif k == "move":
        c.move(op[1], op[2])
    elif k == "meta":
        _kept_node(box, op[1]).meta[schema_of(op[2])] = build_obj(op[2])
    elif k == "delmeta":
        del _kept_node(box, op[1]).meta[op[2]]
    elif k == "reopen":
        box.reopen()
    elif k == "commit":
        box.commit()
    else:
        raise RuntimeError(f"unknown container op {op}")


def apply_cop(box: Box, op, timeout: float = OP_TIMEOUT_S):
    """Apply one container operation. Returns ("ok", None) | ("err", ExcName) | ("hang", None)."""
    try:
        with watchdog(timeout):
            _do_cop(box, op)
        return ("ok", None)
    except OpTimeout:
        return ("hang", None)
    except Exception as e:  # noqa
        return ("err", type(e).__name__)


USER_DATA_OPS = ("set", "mkgrp", "del", "setattr", "delattr", "copy", "move")


def apply_rop(ref, op, timeout: float = OP_TIMEOUT_S):
    """The same *user data* operation on a plain tree `ref` (h5py group protocol); metadata ops etc. are no-ops."""
    k = op[0]
    try:
        with watchdog(timeout):
            if k == "set":
                ref[op[1]] = to_h5_value(op[2])
            elif k == "mkgrp":
                ref.create_group(op[1])
            elif k == "del":
                del ref[op[1]]
            elif k == "setattr":
                _node(ref, op[1]).attrs[op[2]] = to_h5_value(op[3])
            elif k == "delattr":
                del _node(ref, op[1]).attrs[op[2]]
            elif k == "copy":
                kw = dict(op[3]) if len(op) > 3 and op[3] else {}
                kw.pop("without_meta", None)
                dst = op[2]
                if kw.pop("into", False):
                    dst = ref[dst]
                ref.copy(op[1], dst, **kw)
            elif k == "move":
                ref.move(op[1], op[2])
            elif k in ("meta", "delmeta", "reopen", "commit"):
                pass
            else:
                raise RuntimeError(f"unknown op {op}")
        return ("ok", None)
    except OpTimeout:
        return ("hang", None)
    except Exception as e:  # noqa
        return ("err", type(e).__name__)


def is_move_into_own_subtree(op) -> bool:
    return op[0] == "move" and under(norm(op[2]), norm(op[1]))


def is_copy_into_own_subtree(op) -> bool:
    if op[0] != "copy":
        return False
    kw = op[3] if len(op) > 3 and op[3] else {}
    dst = norm(op[2])
    if kw.get("into"):
        dst = norm(dst + "/" + kw.get("name", norm(op[1]).split("/")[-1]))
    return under(dst, norm(op[1]))


# ---------------------------------------------------------------- observation


def has_reserved_segment(path: str) -> bool:
    """Independent statement of 'is or contains a segment starting with metador_'."""
    return any(seg.startswith(RESERVED) for seg in path.split("/"))


def meta_view(node):
    """{schema name: JSON object} of the metadata attached to a node, through node.meta only."""
    m = node.meta
    return {name: json.loads(m.get(name).json()) for name in sorted(m.keys())}


def user_dump(node, with_meta: bool = True):
    """Canonical dump through the container interface only: keys / [] / attrs / [()] / meta."""
    out = {"attrs": {k: canon_val(v) for k, v in node.attrs.items()}}
    if with_meta:
        out["meta"] = meta_view(node)
    if is_grouplike(node):
        out["ch"] = {k: user_dump(node[k], with_meta) for k in node.keys()}
    else:
        out["v"] = canon_val(node[()])
    return out


def plain_dump(node):
    """Dump of a plain (non-container) tree in the shape of user_dump(.., with_meta=False)."""
    return dump_tree(node, True)


def strip_meta(d):
    out = {k: v for k, v in d.items() if k not in ("meta", "ch")}
    if "ch" in d:
        out["ch"] = {k: strip_meta(v) for k, v in d["ch"].items()}
    return out


def raw_dump(raw):
    """Dump of the underlying raw tree through the raw protocol (includes every metador_* entity)."""
    return dump_tree(raw, True)


def raw_flat(raw):
    """Flat variant of raw_dump via one visititems traversal: {abs path: [kind, attrs, value]} (cheaper change detection)."""
    out = {"/": ["g", {k: canon_val(v) for k, v in raw.attrs.items()}, None]}

    def cb(name, obj):
        at = {k: canon_val(v) for k, v in obj.attrs.items()}
        if is_grouplike(obj):
            out["/" + name] = ["g", at, None]
        else:
            out["/" + name] = ["d", at, canon_val(obj[()])]

    raw.visititems(cb)
    return out


def flat_diff(before, after) -> str:
    a, b = set(before), set(after)
    if a != b:
        return f"added {sorted(b - a)[:4]} removed {sorted(a - b)[:4]}"
    ch = [p for p in before if before[p] != after[p]]
    return f"values/attributes changed at {ch[:4]}"


def dump_paths(d, prefix=""):
    """[(abs path, 'g'|'d')] of a dump, pre-order, sorted keys."""
    res = []
    for k in sorted((d.get("ch") or {})):
        ch = d["ch"][k]
        p = f"{prefix}/{k}"
        res.append((p, "g" if "ch" in ch else "d"))
        res += dump_paths(ch, p)
    return res


def sub_dump(d, path: str):
    for seg in [s for s in path.split("/") if s]:
        d = d["ch"][seg]
    return d


def raw_names(raw):
    """[(abs path, 'g'|'d')] of every raw entity (cheap: names and kinds only)."""
    acc = []
    raw.visititems(lambda n, o: acc.append(("/" + n, "g" if is_grouplike(o) else "d")))
    return sorted(acc)


def reserved_names(raw):
    return [(p, k) for p, k in raw_names(raw) if has_reserved_segment(p)]


def reserved_paths(raw):
    """All existing raw entities with a reserved segment: [(abs path, 'g'|'d')] (observation of the raw tree)."""
    return [(p, k) for p, k in dump_paths(raw_dump(raw)) if has_reserved_segment(p)]


def query_view(c, schema_names=QUERY_SCHEMAS):
    """{schema: sorted node paths} from container.metador.query."""
    res = {}
    for s in schema_names:
        res[s] = sorted(n.name for n in c.metador.query(s))
    return res


def full_view(c):
    """Everything C09 compares: data, attributes, metadata JSON, query sets."""
    return {"tree": user_dump(c, True), "query": query_view(c)}


def listing_view(group, expect_reserved_free=True):
    """All listing primitives of one group node through the container interface.

    Returns dict(keys, iter, items, values, len, visit, visititems) with names / (name, kind, abs name).
    """
    ks = list(group.keys())
    it = list(iter(group))
    items = [(k, v.name, "g" if is_grouplike(v) else "d") for k, v in group.items()]
    vals = [v.name for v in group.values()]
    ln = len(group)
    visit = []
    group.visit(lambda n: visit.append(n))
    vitems = []
    group.visititems(lambda n, o: vitems.append((n, "g" if is_grouplike(o) else "d", o.name)))
    try:
        rev = list(reversed(group))  # iteration too; a raw group that cannot be reversed (TypeError) exposes nothing
    except TypeError:
        rev = None
    return dict(keys=ks, iter=it, items=items, values=vals, len=ln, visit=visit, visititems=vitems, reversed=rev)


def expected_listing(ref_dump, gpath: str):
    """The listing a plain tree with dump `ref_dump` has at group `gpath` (computed from the dump only)."""
    sub = sub_dump(ref_dump, gpath)
    pref = "" if gpath == "/" else gpath
    ks = sorted(sub["ch"].keys())
    below = dump_paths(sub, "")
    return dict(
        keys=ks,
        items=sorted((k, f"{pref}/{k}", "g" if "ch" in sub["ch"][k] else "d") for k in ks),
        values=sorted(f"{pref}/{k}" for k in ks),
        len=len(ks),
        visit=sorted(p[1:] for p, _ in below),
        visititems=sorted((p[1:], kind, f"{pref}{p}") for p, kind in below),
    )


def check_listing(got, exp):
    """List of discrepancies between a listing_view and an expected_listing (order-insensitive, no duplicates)."""
    bad = []
    for name in ("keys", "iter"):
        if sorted(got[name]) != exp["keys"]:
            bad.append(f"{name}={sorted(got[name])} expected {exp['keys']}")
    if got.get("reversed") is not None and sorted(got["reversed"]) != exp["keys"]:
        bad.append(f"reversed={sorted(got['reversed'])} expected {exp['keys']}")
    if sorted(got["items"]) != exp["items"]:
        bad.append(f"items={sorted(got['items'])} expected {exp['items']}")
    if sorted(got["values"]) != exp["values"]:
        bad.append(f"values={sorted(got['values'])} expected {exp['values']}")
    if got["len"] != exp["len"]:
        bad.append(f"len={got['len']} expected {exp['len']}")
    if sorted(got["visit"]) != exp["visit"]:
        bad.append(f"visit={sorted(got['visit'])} expected {exp['visit']}")
    if sorted(got["visititems"]) != exp["visititems"]:
        bad.append(f"visititems={sorted(got['visititems'])} expected {exp['visititems']}")
    return bad


def reserved_in_dump(d) -> list:
    return [p for p, _ in dump_paths(d) if has_reserved_segment(p)]
