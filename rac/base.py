"""Base of the bounded tier (B-tier): runtime-checked contracts on the real code.

Runs under /venv/bin/python. Import `rac.base` *before* metador_core: it installs the numpy
compatibility shim (trusted item T10) that pint 0.21 / bokeh need on numpy 2.x. Nothing in /repo is edited.
"""
from __future__ import annotations

import contextlib
import hashlib
import json
import os
import random
import shutil
import signal
import sys
import tempfile
import time
import traceback
from pathlib import Path


def install_numpy_shim():
    import numpy as np

    al = {
        "cumproduct": "cumprod", "product": "prod", "sometrue": "any", "alltrue": "all", "round_": "round",
        "in1d": "isin", "trapz": "trapezoid", "row_stack": "vstack", "bool8": "bool_", "float_": "float64",
        "complex_": "complex128", "unicode_": "str_", "string_": "bytes_", "object0": "object_", "int0": "intp",
        "uint0": "uintp", "str0": "str_", "bytes0": "bytes_", "void0": "void", "NaN": "nan", "Inf": "inf",
        "PINF": "inf", "infty": "inf", "mat": "asmatrix",
    }  # fmt: skip
    for old, new in al.items():
        if not hasattr(np, old) and hasattr(np, new):
            setattr(np, old, getattr(np, new))
    if not hasattr(np, "NINF"):
        np.NINF = -np.inf
    if not hasattr(np, "PZERO"):
        np.PZERO = 0.0
        np.NZERO = -0.0


install_numpy_shim()
import warnings  # noqa: E402

warnings.filterwarnings("ignore")

TRUSTED_SHIM = "T10 numpy alias shim in /verif/rac/base.py (pint/bokeh import on numpy 2.x); /repo untouched"


class OpTimeout(Exception):
    """An operation exceeded its watchdog budget (treated as 'does not terminate')."""


@contextlib.contextmanager
def watchdog(seconds: float = 10.0):
    """Raise OpTimeout in the main thread if the block runs longer than `seconds` (pure-Python loops)."""

    def _h(signum, frame):
        raise OpTimeout(f"operation exceeded {seconds}s")

    old = signal.signal(signal.SIGALRM, _h)
    # re-firing: an exception raised inside a weakref/GC callback is swallowed ("Exception ignored"), so fire again
    signal.setitimer(signal.ITIMER_REAL, seconds, 0.2)
    try:
        yield
    finally:
        signal.setitimer(signal.ITIMER_REAL, 0)
        signal.signal(signal.SIGALRM, old)


@contextlib.contextmanager
def tmpdir(prefix="verif_rac_"):
    d = Path(tempfile.mkdtemp(prefix=prefix))
    try:
        yield d
    finally:
        shutil.rmtree(d, ignore_errors=True)


def canon(obj) -> str:
    return json.dumps(obj, sort_keys=True, default=_jd)


def _jd(o):
    if isinstance(o, (set, frozenset)):
        return sorted(map(str, o))
    if isinstance(o, bytes):
        return {"__bytes__": o.hex()}
    if isinstance(o, Path):
        return str(o)
    return repr(o)


def digest(obj) -> str:
    return hashlib.sha256(canon(obj).encode()).hexdigest()[:16]


class Recorder:
    """Collects contract evaluations, distinct non-trivial cases, samples and violations of one driver run."""

    def __init__(self, pid: str, driver: str, max_violations: int = 12, max_samples: int = 6):
        self.pid, self.driver = pid, driver
        self.evaluations = 0
        self._distinct = set()
        self.samples = []
        self.violations = []
        self._sigs = set()
        self.max_violations, self.max_samples = max_violations, max_samples
        self.t0 = time.time()
        self.notes = []

    def case(self, key, nontrivial: bool = True, sample=None):
        """Register one explored case; `key` identifies it for the distinct count."""
        if nontrivial:
            self._distinct.add(key if isinstance(key, (str, int, tuple)) else digest(key))
        if sample is not None and len(self.samples) < self.max_samples:
            self.samples.append(sample)

    def check(self, cond: bool, signature: str, what: str, case=None, fns=()):
        """One contract evaluation. On failure records a violation (dedup by signature)."""
        self.evaluations += 1
        if cond:
            return True
        if signature not in self._sigs and len(self.violations) < self.max_violations:
            self._sigs.add(signature)
            self.violations.append({"signature": signature, "what": what, "fns": list(fns), "replay": {"driver": self.driver, "case": case}})
        return False

    def violated(self, signature: str, what: str, case=None, fns=()):
        return self.check(False, signature, what, case, fns)

    @property
    def full(self):
        return len(self.violations) >= self.max_violations

    def result(self, rule: str, bound: str, exhaustive=False, assumptions=(), trusted=(), extra=None):
        r = {
            "present": True,
            "evaluations": self.evaluations,
            "distinct_nontrivial": len(self._distinct),
            "rule": rule,
            "bound": bound,
            "exhaustive": bool(exhaustive),
            "samples": self.samples,
            "violations": self.violations,
            "assumptions": list(assumptions),
            "trusted_base": [TRUSTED_SHIM] + list(trusted),
            "wall_s": round(time.time() - self.t0, 2),
            "notes": self.notes,
        }
        if extra:
            r.update(extra)
        return r


def rng(seed: int, salt: str = "") -> random.Random:
    return random.Random(f"{seed}:{salt}")


def budget_left(t0: float, limit_s: float) -> bool:
    return (time.time() - t0) < limit_s
