"""Shared helpers for the container bounded drivers C06, C07, C20.

Provides
  * schema families: all installed schema plugins + harness-registered synthetic families
    (`install_families()`, `FAMILY`), with 2-3 small valid instances per schema;
  * an independent raw-tree scanner (`scan_toc`) and the representation invariant `TocInv`
    of DESIGN C06 (`toc_inv_raw`, `toc_inv_mem`, `toc_inv_violations`), evaluated on the RAW
    (unwrapped) h5py.File / IH5Record, never through the MetadorContainer wrappers;
  * an independent model of "what was attached where" (`Model`);
  * the container operation alphabet and `apply_cop(handle, op)`;
  * a bounded exploration engine (`Explorer`) shared by the three drivers.

Operation alphabet (JSON-able lists; all paths absolute, "/" = root):
  ["mkds", path, val]                      container[path] = val
  ["mkgrp", path]                          container.create_group(path)
  ["del", path]                            del container[path]
  ["copy", src, dst, opts]                 container.copy(src, dst, ...); opts: {"without_meta": bool,
                                           "into": bool (dst is an existing group, passed as MetadorGroup object),
                                           "name": str (only with into: name=... kwarg),
                                           "srcobj": bool (source passed as MetadorNode object instead of a path)}
  ["move", src, dst]                       container.move(src, dst)
  ["attach", path, schema, ver|None, idx, opts]
                                           node.meta[key] = instance #idx of FAMILY[(schema, ver or default)];
                                           opts: {"as": "obj"|"dict"|"unserialisable" (instance that parses but whose
                                           bytes() raises; exists only on trees with the C12 encoder defect),
                                           "key": "name"|"tuple"|"cls"|"ref",
                                           "env": [ver] (attach performed in an environment where only these
                                           versions of `schema` are installed -- simulates an older release)}
  ["detach", path, schema]                 del node.meta[schema]
  ["reopen"]                               close + open again on the same file(s) (fresh MetadorContainer)
  ["commit"]                               IH5 only: raw.commit_patch(); raw.create_patch()
"""
from __future__ import annotations

import copy as _copy
import json
import re
import time
import uuid as _uuid
from pathlib import Path
from typing import Any, Dict, List, Optional, Tuple

from . import base  # noqa: F401  (numpy shim first)

import h5py  # noqa: E402
import numpy as np  # noqa: E402

import contextlib  # noqa: E402
import signal  # noqa: E402

from .base import OpTimeout, canon, digest  # noqa: E402
from .ih5lib import canon_val  # noqa: E402

from metador_core.container import MetadorContainer  # noqa: E402
from metador_core.ih5.container import IH5Record  # noqa: E402
from metador_core.plugins import schemas  # noqa: E402
from metador_core.schema import MetadataSchema  # noqa: E402
from metador_core.schema.plugins import PluginPkgMeta, PluginRef  # noqa: E402

OP_TIMEOUT_S = 10.0


@contextlib.contextmanager
def watchdog(seconds: float = 10.0):
    """Like rac.base.watchdog, but the alarm REPEATS every 50 ms after the first expiry: an OpTimeout raised inside a
    weakref/GC callback is swallowed by the interpreter ("Exception ignored in ..."), a one-shot alarm would then be lost
    and a non-terminating operation would never be interrupted."""

    def _h(signum, frame):
        raise OpTimeout(f"operation exceeded {seconds}s")

    old = signal.signal(signal.SIGALRM, _h)
    signal.setitimer(signal.ITIMER_REAL, seconds, 0.05)
    try:
        yield
    finally:
        signal.setitimer(signal.ITIMER_REAL, 0)
        signal.signal(signal.SIGALRM, old)


VT_PKG = "vt-pkg"
VT_PKG_VERSION = (0, 1, 0)

META_PREF = "metador_meta_"
RES_PREF = "metador_"
TOC = "metador_container"

UUID_RE = re.compile(r"[0-9a-f]{8}-[0-9a-f]{4}-[0-9a-f]{4}-[0-9a-f]{4}-[0-9a-f]{12}")
EP_RE = re.compile(r"^(?P<name>[a-z][a-z0-9]([_-]?[a-z0-9])*(\.[a-z][a-z0-9]([_-]?[a-z0-9])*)*)__(?P<ver>[0-9]+\.[0-9]+\.[0-9]+)$")


# =====================================================================================
# small codecs (harness side, independent of metador_core.plugin.types)
# =====================================================================================


def ver_str(v) -> str:
    return ".".join(str(int(x)) for x in v)


def ep_of(name: str, ver) -> str:
    return f"{name}__{ver_str(ver)}"


def parse_ep(ep: str) -> Optional[Tuple[str, Tuple[int, int, int]]]:
    m = EP_RE.match(ep)
    if not m:
        return None
    return m.group("name"), tuple(int(x) for x in m.group("ver").split("."))  # type: ignore


def ref_ep(ref) -> str:
    # tolerant of representation changes of in-memory bookkeeping (anything that is not a reference is shown as text,
    # which then simply differs from the expected entry-point names instead of crashing the driver)
    if not (hasattr(ref, "name") and hasattr(ref, "version")):
        return f"<not-a-ref:{ref!r}>"
    return ep_of(ref.name, ref.version)


def spec_supports(req_ver, stored_ver) -> bool:
    """Version compatibility of the property statement (same name assumed): same major, requested minor >= stored minor."""
    return int(req_ver[0]) == int(stored_ver[0]) and int(req_ver[1]) >= int(stored_ver[1])


# =====================================================================================
# schema families
# =====================================================================================


class SchemaInfo:
    """Harness-side knowledge about one schema (name, version)."""

    def __init__(self, name, version, cls, parents, auxiliary, origin, pkg):
        self.name: str = name
        self.version: Tuple[int, int, int] = tuple(version)  # type: ignore
        self.cls = cls
        self.parents: List[Tuple[str, Tuple[int, int, int]]] = parents  # root first, including self (last)
        self.auxiliary: bool = auxiliary
        self.origin: str = origin  # "installed" | "synthetic"
        self.pkg: str = pkg
        self.instances: List[dict] = []
        self.objs: List[Any] = []
        self.unserialisable: List[dict] = []  # parse fine, but bytes(obj) raises (C12 defect on the pinned tree)

    @property
    def key(self):
        return (self.name, self.version)

    @property
    def ep(self):
        return ep_of(self.name, self.version)


FAMILY: Dict[Tuple[str, Tuple[int, int, int]], SchemaInfo] = {}
FAMILY_NOTES: List[str] = []
MULTIVER_OK = False
_INSTALLED = False


class _Dist:
    def __init__(self, name, version):
        self.name, self.version = name, version


class _EP:
    """Synthetic entry point: `.load()` returns the class, `.dist` names the providing package."""

    def __init__(self, name, cls, dist):
        self.name, self._cls, self.dist = name, cls, dist
        self.group = "metador_schema"
        self.value = f"rac.contlib:{cls.__name__}"

    def load(self):
        return self._cls


def _mro_parent_chain(cls) -> List[Tuple[str, Tuple[int, int, int]]]:
    """Chain of registered plugin schemas along the class hierarchy (root first, including cls): from the MRO only."""
    res = []
    for c in cls.__mro__:
        pgi = c.__dict__.get("Plugin")
        if pgi is not None and hasattr(pgi, "name") and hasattr(pgi, "version"):
            res.append((str(pgi.name), tuple(pgi.version)))
    res.reverse()
    return res


_INSTALLED_INSTANCES: Dict[str, List[dict]] = {
    "core.file": [
        {"filename": "a.txt", "encodingFormat": "text/plain", "contentSize": 3, "sha256": "sha256:" + "a" * 64},
        {"filename": "b.bin", "encodingFormat": "application/octet-stream", "contentSize": 0, "sha256": "sha256:" + "0" * 64, "name": "a title", "duration": "PT12.5S"},
    ],
    "core.imagefile": [
        {"filename": "a.png", "encodingFormat": "image/png", "contentSize": 30, "sha256": "sha256:" + "b" * 64, "width": 3, "height": 4},
        {"filename": "c.jpg", "encodingFormat": "image/jpeg", "contentSize": 1, "sha256": "sha256:" + "c" * 64, "width": 640, "height": 480, "duration": "-PT4S"},
    ],
    "core.dir": [
        {},
        {"name": "some dir", "description": "a directory"},
        {"name": "some dir", "hasPart": [{"@id": "a.txt"}, {"@id": "sub/"}]},
    ],
    "core.bib": [
        {"name": "Title", "abstract": "An abstract.", "dateCreated": "2020-01-02", "author": [{"name": "Jane Doe"}]},
        {"name": "T2", "abstract": "B", "dateCreated": "2021-03-04T05:06:07", "author": [{"givenName": "J", "familyName": "D"}, {"name": "X Y"}], "keywords": ["k1"]},
    ],
    "core.org": [
        {"name": "Some Org"},
        {"@id": "https://ror.org/02nv7yv05", "name": "FZJ", "address": "Juelich"},
    ],
    "core.person": [
        {"name": "Jane Doe"},
        {"givenName": "Jane", "familyName": "Doe"},
        {"@id": "https://orcid.org/0000-0002-1825-0097", "familyName": "Carberry", "email": "jc@example.org"},
    ],
    "core.table": [
        {"name": "tab", "columns": [{"name": "c1", "unit": "meter"}]},
        {"name": "tab2", "columns": [{"name": "c1", "unit": "second"}, {"name": "c2", "unit": "kg"}]},
    ],
    "core.packerinfo": [
        {"packer": {"name": "core.generic", "version": [0, 1, 0]}, "pkg": {"name": "metador-core", "version": [0, 1, 0], "plugins": {}}},
        {"packer": {"name": "core.generic", "version": [0, 1, 0]}, "pkg": {"name": "metador-core", "version": [0, 1, 0], "plugins": {"packer": [{"group": "packer", "name": "core.generic", "version": [0, 1, 0]}]}}, "source_dir": {"a.txt": "sha256:" + "d" * 64, "sub": {"b": "sha256:" + "e" * 64}}},
    ],
    "core.dashboard": [
        {},
        {"widgets": [{"group": 1, "priority": 5}, {"schema_name": "core.file", "schema_version": [0, 1, 0]}]},
    ],
    "example.matsci.material": [
        {"materialName": "Fe"},
        {"materialName": "Cu", "chemicalComposition": "Cu", "density": 8.96, "crystalGrainType": "single_crystal"},
    ],
    "example.matsci.instrument": [
        {"instrumentName": "Inst", "instrumentModel": "M1"},
        {"instrumentName": "Inst2", "instrumentModel": "M2", "instrumentManufacturer": {"name": "Maker"}},
    ],
    "example.matsci.specimen": [
        {"diameter": 1.5, "gaugeLength": 10},
        {"diameter": 0.25, "gaugeLength": 3.5},
    ],
    "example.matsci.method": [
        {"instrument": {"instrumentName": "Inst", "instrumentModel": "M1"}, "specimen": {"diameter": 1.5, "gaugeLength": 10}},
        {"methodType": "tensile_test", "instrument": {"instrumentName": "I", "instrumentModel": "M"}, "specimen": {"diameter": 2, "gaugeLength": 20}},
    ],
    "example.matsci.info": [
        {"abstract": "A", "dateCreated": "2021-02-03", "author": [{"name": "Jane Doe"}], "material": [{"materialName": "Fe"}]},
        {"abstract": "B", "dateCreated": "2022-02-03", "author": [{"name": "Jane Doe"}], "material": [{"materialName": "Fe"}, {"materialName": "Cu"}],
         "method": [{"instrument": {"instrumentName": "Inst", "instrumentModel": "M1"}, "specimen": {"diameter": 1.5, "gaugeLength": 10}}]},
    ],
}


def _add_info(name, version, cls, parents, auxiliary, origin, pkg, instances):
    info = SchemaInfo(name, version, cls, parents, auxiliary, origin, pkg)
    for d in instances:
        try:
            obj = cls.parse_obj(_copy.deepcopy(d))
            try:
                raw = bytes(obj)
            except Exception:  # noqa
                info.unserialisable.append(d)
                raise
            back = cls.parse_raw(raw)
            if back != obj:
                raise ValueError("instance does not survive its own serialisation")
            info.instances.append(d)
            info.objs.append(obj)
        except Exception as e:  # noqa
            FAMILY_NOTES.append(f"instance of {name} {ver_str(version)} dropped ({type(e).__name__}: {str(e)[:120]}): {json.dumps(d)[:100]}")
    FAMILY[(name, tuple(version))] = info
    return info


def install_families():
    """Register the synthetic families (once) and collect harness-side knowledge about all schemas."""
    global _INSTALLED, MULTIVER_OK
    if _INSTALLED:
        return FAMILY
    _INSTALLED = True

    # ---- installed plugins --------------------------------------------------------------
    for ref in list(schemas.keys()):
        cls = schemas.get(ref.name, ref.version)
        if cls is None:
            FAMILY_NOTES.append(f"installed schema {ref.name} {ref.version} could not be loaded")
            continue
        try:
            pkg = schemas.provider(schemas.PluginRef(name=ref.name, version=ref.version)).name
        except Exception:  # noqa
            pkg = "?"
        _add_info(ref.name, tuple(ref.version), cls, _mro_parent_chain(cls), bool(cls.Plugin.auxiliary), "installed", str(pkg),
                  _INSTALLED_INSTANCES.get(ref.name, []))

    # ---- synthetic families ----------------------------------------------------------------
    dist = _Dist(VT_PKG, ver_str(VT_PKG_VERSION))
    refs: List[PluginRef] = []
    pending = []  # (cls, parents, instances)

    def reg(cls, parents, instances):
        n, v = cls.Plugin.name, tuple(cls.Plugin.version)
        aux = bool(getattr(cls.Plugin, "auxiliary", False))
        schemas._add_ep(ep_of(n, v), _EP(ep_of(n, v), cls, dist))
        refs.append(PluginRef(group="schema", name=n, version=v))
        pending.append((n, v, cls, parents + [(n, v)], aux, instances))
        return cls

    def flush_pkg_meta():
        schemas._PKG_META[VT_PKG] = PluginPkgMeta(name=VT_PKG, version=VT_PKG_VERSION, plugins={"schema": list(refs)})

    V = (0, 1, 0)

    # two siblings under a (possibly unused) non-auxiliary parent
    class VtAa(MetadataSchema):
        """Synthetic parent schema."""

        class Plugin:
            name = "vt.aa"
            version = (0, 1, 0)

        x: int
        note: Optional[str]

    reg(VtAa, [], [{"x": 1}, {"x": -5, "note": "n"}])
    AaV = schemas.get("vt.aa", V)

    class VtBb(AaV):  # type: ignore
        """Synthetic child schema (first sibling)."""

        class Plugin:
            name = "vt.bb"
            version = (0, 1, 0)

        y: str

    reg(VtBb, [("vt.aa", V)], [{"x": 2, "y": "why"}, {"x": 0, "y": "ü", "note": "n2"}])

    class VtCc(AaV):  # type: ignore
        """Synthetic child schema (second sibling)."""

        class Plugin:
            name = "vt.cc"
            version = (0, 1, 0)

        z: Optional[int]
        tags: List[str] = []

    reg(VtCc, [("vt.aa", V)], [{"x": 3}, {"x": 4, "z": 7, "tags": ["a", "b"]}])

    # three-level chain
    class VtL1(MetadataSchema):
        class Plugin:
            name = "vt.l1"
            version = (0, 1, 0)

        p: int

    reg(VtL1, [], [{"p": 1}, {"p": 2}])
    L1V = schemas.get("vt.l1", V)

    class VtL2(L1V):  # type: ignore
        class Plugin:
            name = "vt.l2"
            version = (0, 1, 0)

        q: str

    reg(VtL2, [("vt.l1", V)], [{"p": 1, "q": "s"}, {"p": 3, "q": "t"}])
    L2V = schemas.get("vt.l2", V)

    class VtL3(L2V):  # type: ignore
        class Plugin:
            name = "vt.l3"
            version = (0, 1, 0)

        r: bool

    reg(VtL3, [("vt.l1", V), ("vt.l2", V)], [{"p": 1, "q": "s", "r": True}, {"p": 9, "q": "u", "r": False}])

    # an auxiliary schema and a non-auxiliary child of it
    class VtAux(MetadataSchema):
        class Plugin:
            name = "vt.aux"
            version = (0, 1, 0)
            auxiliary = True

        q: int

    reg(VtAux, [], [{"q": 1}, {"q": 2}])
    AuxV = schemas.get("vt.aux", V)

    class VtAuxkid(AuxV):  # type: ignore
        class Plugin:
            name = "vt.auxkid"
            version = (0, 1, 0)

        w: str

    reg(VtAuxkid, [("vt.aux", V)], [{"q": 1, "w": "ww"}, {"q": 5, "w": "vv"}])

    # several versions of one name (optional: needs a working PluginGroup._add_ep)
    class VtVer100(MetadataSchema):
        class Plugin:
            name = "vt.ver"
            version = (1, 0, 0)

        a: str

    class VtVer010(MetadataSchema):
        class Plugin:
            name = "vt.ver"
            version = (0, 1, 0)

        a: int

    class VtVer020(MetadataSchema):
        class Plugin:
            name = "vt.ver"
            version = (0, 2, 0)

        a: int
        b: Optional[int]

    # order chosen so that a version-list-resetting _add_ep (pinned defect) leaves 0.2.0 usable
    ver_classes = [
        (VtVer100, [{"a": "s"}, {"a": "tt"}]),
        (VtVer010, [{"a": 1}, {"a": 2}]),
        (VtVer020, [{"a": 1}, {"a": 1, "b": 2}]),
    ]
    n_before = len(refs)
    for c, inst in ver_classes:
        reg(c, [], inst)
    listed = {tuple(r.version) for r in schemas.versions("vt.ver")}
    MULTIVER_OK = listed == {(0, 1, 0), (0, 2, 0), (1, 0, 0)}
    if not MULTIVER_OK:
        # only what the plugin group really lists is part of the family
        FAMILY_NOTES.append(
            f"multi-version family vt.ver degraded: plugin group lists only {sorted(listed)} after registering 1.0.0, 0.1.0, 0.2.0 "
            "(PluginGroup._add_ep resets the version list: known pinned defect, C16)"
        )
        keep_refs = [r for r in refs[n_before:] if tuple(r.version) in listed]
        del refs[n_before:]
        refs.extend(keep_refs)
        pending[:] = [p for p in pending if p[0] != "vt.ver" or p[1] in listed]
    else:
        # a child of the 0.2.0 release of vt.ver: inheritance x versions
        Ver020V = schemas.get("vt.ver", (0, 2, 0))

        class VtVerkid(Ver020V):  # type: ignore
            class Plugin:
                name = "vt.verkid"
                version = (0, 1, 0)

            k: str

        reg(VtVerkid, [("vt.ver", (0, 2, 0))], [{"a": 1, "k": "kid"}, {"a": 3, "b": 4, "k": "kid2"}])

    flush_pkg_meta()
    # load everything now (parent/children tables of the plugin group are filled lazily on load)
    for r in refs:
        schemas._ensure_is_loaded(schemas.PluginRef(name=r.name, version=r.version))
    for n, v, cls, parents, aux, instances in pending:
        loaded = schemas._LOADED_PLUGINS[schemas.PluginRef(name=n, version=v)]
        _add_info(n, v, loaded, parents, aux, "synthetic", VT_PKG, instances)
    return FAMILY


def default_version(name: str) -> Optional[Tuple[int, int, int]]:
    """Newest family version of `name` (what a request without version resolves to)."""
    vs = sorted(v for (n, v) in FAMILY if n == name)
    return vs[-1] if vs else None


def family_versions(name: str) -> List[Tuple[int, int, int]]:
    return sorted(v for (n, v) in FAMILY if n == name)


def resolve_attach_version(name: str, ver, env=None) -> Optional[Tuple[int, int, int]]:
    """Harness-side statement of which installed release stores an object requested as (name, ver):
    the newest installed version that supports the request (same major, minor >= requested); newest at all if ver is None."""
    vs = family_versions(name)
    if env is not None:
        vs = [v for v in vs if v in {tuple(e) for e in env}]
    if ver is not None:
        vs = [v for v in vs if spec_supports(v, ver)]
    return vs[-1] if vs else None


class restricted_env:
    """Context: only the given versions of schema `name` are installed (simulates an older release of the providing package)."""

    def __init__(self, name, versions):
        self.name, self.versions = name, {tuple(v) for v in versions}

    def __enter__(self):
        self.saved = schemas._VERSIONS.get(self.name)
        if self.saved is not None:
            schemas._VERSIONS[self.name] = [r for r in self.saved if tuple(r.version) in self.versions]
        return self

    def __exit__(self, *a):
        if self.saved is not None:
            schemas._VERSIONS[self.name] = self.saved
        return False


# =====================================================================================
# raw-tree scanner (independent of the MetadorContainer wrappers and of container/utils.py)
# =====================================================================================


def _is_group(n) -> bool:
    return hasattr(n, "keys") and hasattr(n, "create_group")


def _to_bytes(v) -> Optional[bytes]:
    if isinstance(v, (bytes, np.bytes_)):
        return bytes(v)
    if isinstance(v, (str, np.str_)):
        return str(v).encode("utf-8")
    if isinstance(v, np.void):
        return v.tobytes()
    if isinstance(v, np.ndarray) and v.dtype.kind in "SO" and v.shape == ():
        return _to_bytes(v.item())
    return None


def _text(v) -> str:
    b = _to_bytes(v)
    if b is not None:
        return b.decode("utf-8", errors="replace")
    return canon(canon_val(v))


def empty_scan() -> dict:
    return {
        "nodes": {"/": "g"}, "meta_dirs": [], "objects": [], "links": [], "link_groups": {}, "schema_groups": {},
        "packages": {}, "has": {k: False for k in ("toc", "links", "schemas", "packages", "version", "uuid")},
        "version": None, "uuid": None, "malformed": [], "stray": [], "stray_nodes": {},
    }  # fmt: skip


def scan_toc(raw) -> dict:
    """Scan the RAW tree of a container (h5py.File or IH5Record, not the wrappers).

    Returns a dict with
      nodes        {path: "g"|"d"}          user-visible nodes (root "/" included)
      meta_dirs    [{path, owner, owner_kind, n}]
      objects      [{path, meta_dir, owner, owner_kind, ep, name, version, uuid, bytes}]
      links        [{path, ep, uuid, target}]
      link_groups  {ep: n_entries}
      schema_groups {ep: {"members": [...], "jsonschema": bytes|None, "compat": list|None, "compat_raw": bytes|None}}
      packages     {pkg_ep: {"raw": bytes, "json": dict|None}}
      has          {"toc","links","schemas","packages","version","uuid"} -> bool
      version, uuid  text of the datasets (or None)
      malformed    [str]  things inside metador structures that do not fit the layout
      stray        [path] other metador_* names outside the known layout
    """
    S: Dict[str, Any] = empty_scan()

    def scan_meta_dir(grp, path, owner, owner_kind):
        if not _is_group(grp):
            S["malformed"].append(f"meta dir {path} is not a group")
            return
        members = list(grp.items())
        S["meta_dirs"].append({"path": path, "owner": owner, "owner_kind": owner_kind, "n": len(members)})
        for k, child in members:
            cpath = f"{path}/{k}"
            if _is_group(child):
                S["malformed"].append(f"group inside meta dir: {cpath}")
                continue
            if k.count("=") != 1:
                S["malformed"].append(f"metadata object name without '=': {cpath}")
                continue
            ep, us = k.split("=")
            pe = parse_ep(ep)
            if pe is None or not UUID_RE.fullmatch(us):
                S["malformed"].append(f"metadata object name malformed: {cpath}")
                continue
            S["objects"].append({
                "path": cpath, "meta_dir": path, "owner": owner, "owner_kind": owner_kind, "ep": ep,
                "name": pe[0], "version": pe[1], "uuid": us, "bytes": _to_bytes(child[()]),
            })  # fmt: skip

    def scan_container(grp, path):
        S["has"]["toc"] = True
        if not _is_group(grp):
            S["malformed"].append(f"{path} is not a group")
            return
        for k, child in list(grp.items()):
            cpath = f"{path}/{k}"
            if k in ("version", "uuid"):
                S["has"][k] = True
                if _is_group(child):
                    S["malformed"].append(f"{cpath} is a group")
                else:
                    S[k] = _text(child[()])
            elif k == "links":
                S["has"]["links"] = True
                if not _is_group(child):
                    S["malformed"].append(f"{cpath} is not a group")
                    continue
                for ep, eg in list(child.items()):
                    if not _is_group(eg) or parse_ep(ep) is None:
                        S["malformed"].append(f"bad link group {cpath}/{ep}")
                        continue
                    us = list(eg.items())
                    S["link_groups"][ep] = len(us)
                    for u, ln in us:
                        lpath = f"{cpath}/{ep}/{u}"
                        if _is_group(ln) or not UUID_RE.fullmatch(u):
                            S["malformed"].append(f"bad link node {lpath}")
                            continue
                        S["links"].append({"path": lpath, "ep": ep, "uuid": u, "target": _text(ln[()])})
            elif k == "schemas":
                S["has"]["schemas"] = True
                if not _is_group(child):
                    S["malformed"].append(f"{cpath} is not a group")
                    continue
                for ep, sg in list(child.items()):
                    if not _is_group(sg) or parse_ep(ep) is None:
                        S["malformed"].append(f"bad schema group {cpath}/{ep}")
                        continue
                    mem = dict(sg.items())
                    ent = {"members": sorted(mem), "jsonschema": None, "compat": None, "compat_raw": None}
                    if "jsonschema.json" in mem and not _is_group(mem["jsonschema.json"]):
                        ent["jsonschema"] = _to_bytes(mem["jsonschema.json"][()])
                    if "compat" in mem and not _is_group(mem["compat"]):
                        ent["compat_raw"] = _to_bytes(mem["compat"][()])
                        try:
                            ent["compat"] = json.loads(ent["compat_raw"].decode("utf-8"))
                        except Exception:  # noqa
                            ent["compat"] = None
                    S["schema_groups"][ep] = ent
            elif k == "packages":
                S["has"]["packages"] = True
                if not _is_group(child):
                    S["malformed"].append(f"{cpath} is not a group")
                    continue
                for pk, pn in list(child.items()):
                    if _is_group(pn) or parse_ep(pk) is None:
                        S["malformed"].append(f"bad package record {cpath}/{pk}")
                        continue
                    rawb = _to_bytes(pn[()])
                    try:
                        js = json.loads(rawb.decode("utf-8"))
                    except Exception:  # noqa
                        js = None
                    S["packages"][pk] = {"raw": rawb, "json": js}
            else:
                S["malformed"].append(f"unknown entry in TOC: {cpath}")

    def walk(grp, gpath):
        for k, child in list(grp.items()):
            cpath = f"{gpath}/{k}"
            if gpath == "" and k == TOC:
                scan_container(child, cpath)
            elif k.startswith(META_PREF):
                if k == META_PREF:
                    scan_meta_dir(child, cpath, gpath or "/", "g")
                else:
                    scan_meta_dir(child, cpath, f"{gpath}/{k[len(META_PREF):]}", "d")
            elif k.startswith(RES_PREF):
                # reserved name outside the known layout (C08's business) -- but metadata objects below it are still
                # metadata objects of the raw tree: descend
                S["stray"].append(cpath)
                if _is_group(child):
                    S["stray_nodes"][cpath] = "g"
                    walk(child, cpath)
                else:
                    S["stray_nodes"][cpath] = "d"
            else:
                if _is_group(child):
                    S["nodes"][cpath] = "g"
                    walk(child, cpath)
                else:
                    S["nodes"][cpath] = "d"

    walk(raw, "")
    if S["stray_nodes"]:
        # nodes below a stray reserved-name group are not user-visible nodes
        for pth in [q for q in S["nodes"] if any(q.startswith(sp + "/") for sp in S["stray_nodes"])]:
            S["stray_nodes"][pth] = S["nodes"].pop(pth)
    return S


def attached_of_scan(S) -> Dict[str, Dict[str, List[Tuple[Tuple[int, int, int], bytes]]]]:
    """owner path -> schema name -> [(version, raw bytes)] as found in the raw tree."""
    res: Dict[str, Dict[str, list]] = {}
    for o in S["objects"]:
        res.setdefault(o["owner"], {}).setdefault(o["name"], []).append((tuple(o["version"]), o["bytes"]))
    return res


def _pkg_provides(pkg_json, name, ver) -> bool:
    try:
        for r in (pkg_json.get("plugins") or {}).get("schema", []):
            if r.get("name") == name and tuple(r.get("version")) == tuple(ver) and r.get("group", "schema") == "schema":
                return True
    except Exception:  # noqa
        pass
    return False


def toc_inv_raw(S) -> List[Tuple[str, str]]:
    """TocInv items (1), (3), (4), (6) on a scan of the raw tree. Returns [(code, message)]."""
    V: List[Tuple[str, str]] = []
    for m in S["malformed"]:
        V.append(("layout:malformed", m))
    objs, links = S["objects"], S["links"]

    # (1) bijection link <-> object, unique UUIDs, link content, owner exists
    by_uuid_o: Dict[str, list] = {}
    for o in objs:
        by_uuid_o.setdefault(o["uuid"], []).append(o)
    by_uuid_l: Dict[str, list] = {}
    for ln in links:
        by_uuid_l.setdefault(ln["uuid"], []).append(ln)
    for u, os_ in by_uuid_o.items():
        if len(os_) > 1:
            V.append(("1:uuid-not-unique", f"UUID {u} names {len(os_)} metadata objects: {[o['path'] for o in os_]}"))
    for u, ls in by_uuid_l.items():
        if len(ls) > 1:
            V.append(("1:uuid-two-links", f"UUID {u} has {len(ls)} links: {[x['path'] for x in ls]}"))
    for o in objs:
        ls = by_uuid_l.get(o["uuid"], [])
        if not ls:
            V.append(("1:object-without-link", f"metadata object {o['path']} has no TOC link"))
            continue
        for ln in ls:
            if ln["ep"] != o["ep"]:
                V.append(("1:link-schema-mismatch", f"link {ln['path']} is filed under {ln['ep']} but object is {o['path']}"))
        if not any(ln["target"] == o["path"] for ln in ls) and len(by_uuid_o[o["uuid"]]) == 1:
            V.append(("1:link-target-wrong", f"link(s) {[x['path'] for x in ls]} point to {[x['target'] for x in ls]}, object is at {o['path']}"))
    opaths = {o["path"] for o in objs}
    for ln in links:
        if ln["uuid"] not in by_uuid_o:
            V.append(("1:link-without-object", f"TOC link {ln['path']} -> {ln['target']}: no such metadata object"))
        elif ln["target"] not in opaths:
            if len(by_uuid_o[ln["uuid"]]) > 1:
                V.append(("1:link-target-wrong", f"link {ln['path']} points to {ln['target']} which is no metadata object"))
    for md in S["meta_dirs"]:
        k = S["nodes"].get(md["owner"]) or S.get("stray_nodes", {}).get(md["owner"])
        if k is None:
            V.append(("1:owner-missing", f"meta dir {md['path']} belongs to {md['owner']} which does not exist"))
        elif k != md["owner_kind"]:
            V.append(("1:owner-kind", f"meta dir {md['path']} is the {md['owner_kind']}-style dir but {md['owner']} is '{k}'"))
    # at most one object per schema name per node (C06 'exactly one link', C07 'at most one per schema')
    for owner, d in attached_of_scan(S).items():
        for name, lst in d.items():
            if len(lst) > 1:
                V.append(("1:two-objects-one-schema", f"node {owner} holds {len(lst)} objects of schema {name}"))

    # (3) schema groups == eps in use, each with jsonschema.json and compat
    used = {o["ep"] for o in objs}
    for ep in sorted(used - set(S["schema_groups"])):
        V.append(("3:schema-record-missing", f"schema {ep} in use but no /metador_container/schemas/{ep}"))
    for ep in sorted(set(S["schema_groups"]) - used):
        V.append(("3:schema-record-unused", f"/metador_container/schemas/{ep} present but no object of that schema"))
    for ep, ent in S["schema_groups"].items():
        if ent["members"] != ["compat", "jsonschema.json"]:
            V.append(("3:schema-record-members", f"schemas/{ep} has members {ent['members']}"))
        elif ent["jsonschema"] is None or ent["compat"] is None:
            V.append(("3:schema-record-unreadable", f"schemas/{ep}: jsonschema.json/compat not readable"))
    # link groups == eps in use
    for ep in sorted(set(S["link_groups"]) - used):
        V.append(("3:link-group-unused", f"links/{ep} present but no object of that schema"))

    # (4) a package record exists iff some used schema has it as stored provider
    pk_used: Dict[str, set] = {pk: set() for pk in S["packages"]}
    for ep in used:
        n, v = parse_ep(ep)  # type: ignore
        prov = [pk for pk, ent in S["packages"].items() if ent["json"] is not None and _pkg_provides(ent["json"], n, v)]
        if not prov:
            V.append(("4:no-provider-record", f"schema {ep} in use but no stored package record provides it"))
        for pk in prov:
            pk_used[pk].add(ep)
    for pk, ent in S["packages"].items():
        if ent["json"] is None:
            V.append(("4:package-record-unreadable", f"packages/{pk} is not JSON"))
        elif not pk_used[pk]:
            V.append(("4:package-record-unused", f"packages/{pk} present but provides no schema in use"))
        else:
            pe = parse_ep(pk)
            js = ent["json"]
            if pe is None or js.get("name") != pe[0] or tuple(js.get("version", ())) != pe[1]:
                V.append(("4:package-record-name", f"packages/{pk} holds record of {js.get('name')} {js.get('version')}"))

    # (6) no empty bookkeeping groups
    for ep, n in S["link_groups"].items():
        if n == 0:
            V.append(("6:empty-link-group", f"links/{ep} is empty"))
    if S["has"]["links"] and not S["link_groups"]:
        V.append(("6:empty-links", "/metador_container/links is empty"))
    if S["has"]["schemas"] and not S["schema_groups"]:
        V.append(("6:empty-schemas", "/metador_container/schemas is empty"))
    if S["has"]["packages"] and not S["packages"]:
        V.append(("6:empty-packages", "/metador_container/packages is empty"))
    for md in S["meta_dirs"]:
        if md["n"] == 0:
            V.append(("6:empty-meta-dir", f"meta dir {md['path']} is empty"))
    if not (S["has"]["version"] and S["has"]["uuid"]):
        V.append(("layout:no-version-uuid", "container has no /metador_container/version or uuid"))
    return V


def expected_mem_from_scan(S) -> dict:
    """What the three in-memory managers have to hold according to the raw tree (TocInv items (2)-(5))."""
    links = {ln["uuid"]: ln["path"] for ln in S["links"]}
    used = sorted({o["ep"] for o in S["objects"]})
    parents: Dict[str, List[str]] = {}
    children: Dict[str, set] = {}
    for ep in sorted(S["schema_groups"]):
        ent = S["schema_groups"][ep]
        path = []
        for r in ent["compat"] or []:
            try:
                path.append(ep_of(r["name"], r["version"]))
            except Exception:  # noqa
                path.append("?")
        for i, p in enumerate(path):
            parents.setdefault(p, path[: i + 1])
            children.setdefault(p, set())
            if p != ep:
                children[p].add(ep)
    pkgs = {}
    providers: Dict[str, set] = {}
    for pk, ent in S["packages"].items():
        pkgs[pk] = ent["json"]
        for r in ((ent["json"] or {}).get("plugins") or {}).get("schema", []):
            providers.setdefault(ep_of(r["name"], r["version"]), set()).add(pk)
    used_by_pkg = {pk: sorted(ep for ep in S["schema_groups"] if pk in providers.get(ep, ())) for pk in S["packages"]}
    return {
        "links": links, "schemas": sorted(S["schema_groups"]), "used_eps": used,
        "parents": parents, "children": {k: sorted(v) for k, v in children.items()},
        "used": used_by_pkg, "pkgs": pkgs, "providers": {k: sorted(v) for k, v in providers.items()},
    }  # fmt: skip


def _pkg_ep(pkg) -> str:
    return ep_of(pkg[0], pkg[1])


def mem_state(mc) -> dict:
    """Canonical JSON-able copy of the three in-memory managers of a live container."""
    toc = mc.metador
    ts, tp, tl = toc._schemas, toc._packages, toc._links
    return {
        "links": {str(u): p for u, p in tl._toc_path.items()},
        "schemas": sorted(ref_ep(r) for r in ts._schemas),
        "parents": {ref_ep(k): [ref_ep(x) for x in v] for k, v in ts._parents.items()},
        "children": {ref_ep(k): sorted(ref_ep(x) for x in v) for k, v in ts._children.items()},
        # an entry with an empty set is the same abstract map as no entry (TOCSchemas._unregister leaves `_used[pkg] = set()`
        # behind for a package it just dropped; nothing reads it: benign, normalised here and reported as a note)
        "used": {_pkg_ep(k): sorted(ref_ep(x) for x in v) for k, v in ts._used.items() if v or k in tp._pkginfos},
        "pkgs": {_pkg_ep(k): json.loads(v.json()) for k, v in tp._pkginfos.items()},
        "providers": {ref_ep(k): sorted(_pkg_ep(x) for x in v) for k, v in tp._providers.items()},
    }


def api_state(mc) -> dict:
    """What the public TOC API of a container reports (toc.schemas / packages)."""
    ts = mc.metador.schemas
    res: Dict[str, Any] = {"schemas": {}, "packages": {}}
    for ref in sorted(ts.keys(), key=ref_ep):
        ent: Dict[str, Any] = {}
        for what, fn in (
            ("jsonschema", lambda: ts[ref]),
            ("parent_path", lambda: [ref_ep(r) for r in ts.parent_path(ref)]),
            ("children", lambda: sorted(ref_ep(r) for r in ts.children(ref))),
            ("provider", lambda: json.loads(ts.provider(ref).json())),
            ("versions", lambda: sorted(ref_ep(r) for r in ts.versions(ref.name))),
        ):
            try:
                ent[what] = fn()
            except Exception as e:  # noqa
                ent[what] = f"!{type(e).__name__}: {e}"
        res["schemas"][ref_ep(ref)] = ent
    for pkg, info in ts.packages.items():
        res["packages"][_pkg_ep(pkg)] = json.loads(info.json())
    res["len"] = len(ts)
    return res


def toc_inv_mem(S, mc) -> List[Tuple[str, str]]:
    """TocInv items (2)-(5): in-memory managers of the live container vs. what the raw tree says."""
    V: List[Tuple[str, str]] = []
    exp = expected_mem_from_scan(S)
    got = mem_state(mc)
    if got["links"] != exp["links"]:
        a, b = set(got["links"].items()), set(exp["links"].items())
        V.append(("2:links", f"_toc_path differs from link set of raw tree: only in memory {sorted(a - b)[:3]}, only on disk {sorted(b - a)[:3]}"))
    if got["schemas"] != exp["schemas"] or got["schemas"] != exp["used_eps"]:
        V.append(("3:schemas-mem", f"_schemas={got['schemas']} schema groups={exp['schemas']} in use={exp['used_eps']}"))
    if got["pkgs"] != exp["pkgs"]:
        V.append(("4:pkginfos-mem", f"_pkginfos keys={sorted(got['pkgs'])} stored records={sorted(exp['pkgs'])} (or contents differ)"))
    uninterpretable = any("<not-a-ref:" in x for v in got["used"].values() for x in v)
    if got["used"] != exp["used"] and not uninterpretable:  # an unknown internal representation is not judged (only behaviour is)
        V.append(("4:used-mem", f"_used={got['used']} expected from raw tree {exp['used']}"))
    if got["providers"] != exp["providers"]:
        V.append(("4:providers-mem", "_providers differs from stored package records"))
    if got["parents"] != exp["parents"]:
        V.append(("5:parents-mem", f"_parents={got['parents']} expected (closure of stored parent paths) {exp['parents']}"))
    if got["children"] != exp["children"]:
        V.append(("5:children-mem", f"_children={got['children']} expected (closure of stored parent paths) {exp['children']}"))
    return V


def toc_inv_violations(raw, container=None) -> List[str]:
    """Evaluate TocInv (DESIGN C06 items (1)-(6)) on the RAW tree and against the managers of a live container."""
    S = scan_toc(raw)
    V = toc_inv_raw(S)
    if container is not None:
        V += toc_inv_mem(S, container)
    return [f"{c}: {m}" for c, m in V]


# =====================================================================================
# canonical state (for de-duplication): raw dump with UUIDs abstracted
# =====================================================================================


def raw_dump(node, with_attrs=False, skip_uuid_ds=True, _path=""):
    """Flat canonical dump {path: ["g"] | ["d", text]} of a raw tree (text so that UUIDs can be abstracted)."""
    out = {}

    def rec(n, p):
        ent: List[Any]
        if _is_group(n):
            ent = ["g"]
            if with_attrs:
                ent.append({k: canon_val(v) for k, v in n.attrs.items()})
            out[p or "/"] = ent
            for k in n.keys():
                rec(n[k], f"{p}/{k}")
        else:
            if skip_uuid_ds and p == f"/{TOC}/uuid":
                out[p] = ["d", "<container-uuid>"]
                return
            ent = ["d", _text(n[()])]
            if with_attrs:
                ent.append({k: canon_val(v) for k, v in n.attrs.items()})
            out[p] = ent

    rec(node, _path)
    return out


def uuid_labels(S) -> Dict[str, str]:
    """Canonical labels for metadata object UUIDs: ordered by the location of the object (without the UUID)."""
    keyed = sorted((UUID_RE.sub("", o["path"]), o["uuid"]) for o in S["objects"])
    lab: Dict[str, str] = {}
    for i, (_, u) in enumerate(keyed):
        lab.setdefault(u, f"U{i}")
    for ln in sorted(S["links"], key=lambda x: x["path"]):
        lab.setdefault(ln["uuid"], f"L{len(lab)}")
    return lab


def abstract_uuids(text: str, labels: Dict[str, str]) -> str:
    return UUID_RE.sub(lambda m: labels.get(m.group(0), "U?"), text)


# =====================================================================================
# containers on both drivers
# =====================================================================================


class Handle:
    """A live container on one of the two drivers plus what is needed to reopen it."""

    def __init__(self, kind: str, dirpath: Path, name: str = "c"):
        assert kind in ("h5", "ih5")
        self.kind, self.dir, self.name = kind, Path(dirpath), name
        if kind == "h5":
            self.path = self.dir / f"{name}.h5"
            self.mc = MetadorContainer(h5py.File(self.path, "w"))
        else:
            self.path = self.dir / name
            self.mc = MetadorContainer(IH5Record(self.path, "w"))
        self.dirty = True  # something written since the last patch boundary (IH5)
        self.n_reopen = 0
        self.watchers = {}  # path -> long-lived node wrapper used only for reading (see drivers/c07.py)
        self.held = {}  # path -> node.meta handle kept across consecutive attach/detach operations (as user code holding `m = node.meta` does)
        self.nodes = {}  # path -> [kept NODE wrapper whose .meta was looked at once, number of attach/detach operations on that path since]

    @property
    def raw(self):
        return self.mc.__wrapped__

    def reopen(self):
        self.mc.close()
        if self.kind == "h5":
            self.mc = MetadorContainer(self.path, "r+")
        else:
            self.mc = MetadorContainer(self.path, "r+", driver=IH5Record)
        self.dirty = False
        self.n_reopen += 1

    def commit(self):
        if self.kind == "ih5":
            self.raw.commit_patch()
            self.raw.create_patch()
            self.dirty = False

    def phys(self):
        """Physical layout (IH5: dump of every container file incl. markers)."""
        if self.kind != "ih5":
            return None
        res = []
        for f in self.raw.__files__:
            acc = []

            def cb(name, obj, acc=acc):
                acc.append([name, "g" if isinstance(obj, h5py.Group) else "d", sorted((k, str(v)) for k, v in obj.attrs.items())])

            f.visititems(cb)
            res.append(acc)
        return res

    def close(self):
        try:
            self.mc.close()
        except Exception:  # noqa
            pass


def node_of(mc, path: str):
    return mc["/"] if path == "/" else mc[path]


def instance_of(name, ver, idx, as_="obj"):
    info = FAMILY[(name, tuple(ver))]
    i = idx % len(info.instances)
    if as_ == "dict":
        return _copy.deepcopy(info.instances[i])
    return info.objs[i].copy(deep=True)


def meta_handle(h: Handle, mc, path: str):
    """The interface object the next attach/detach on `path` goes through. User code either keeps `m = node.meta` (the library keeps that object
    up to date through its own writes) or keeps the NODE and says `node.meta[...]` each time (a new interface object per access, built from the
    node as it is now). Both styles alternate here; the kept node looked at its metadata once when it was obtained. The library does not keep
    two live interface objects of one node coherent, so the kept `m` is dropped whenever the other style was used."""
    ent = h.nodes.get(path)
    if ent is None:
        w = node_of(mc, path)
        len(w.meta)
        ent = h.nodes[path] = [w, 0]
    w, n = ent
    ent[1] += 1
    if n % 2 == 1:
        h.held.pop(path, None)
        return w.meta
    meta = h.held.get(path)
    if meta is None:
        meta = h.held[path] = node_of(mc, path).meta
    return meta


def _rekey_kept_nodes(h: Handle, src: str, dst: str):
    """h5py keeps a held group/dataset handle valid over a move (its .name follows): kept node wrappers follow the node to its new path."""
    src, dst = src.strip("/"), dst.strip("/")
    moved = {}
    for p, ent in h.nodes.items():
        q = p.strip("/")
        if q == src:  # only the moved node itself: h5py does not update the name of held handles of its descendants
            moved[dst] = ent
    h.nodes.clear()
    h.nodes.update(moved)


def apply_cop(h: Handle, op, timeout: float = OP_TIMEOUT_S):
    """Apply one container operation through the public MetadorContainer interface.

    Returns (status, exception name, message): status in {"ok", "err", "hang"}.
    """
    kind = op[0]
    mc = h.mc
    try:
        with watchdog(timeout):
            if kind == "mkds":
                mc[op[1]] = op[2]
            elif kind == "mkgrp":
                mc.create_group(op[1])
            elif kind == "del":
                del mc[op[1]]
            elif kind == "copy":
                opts = op[3] if len(op) > 3 and op[3] else {}
                kw = {}
                if opts.get("without_meta"):
                    kw["without_meta"] = True
                if opts.get("name") is not None:
                    kw["name"] = opts["name"]
                dst = node_of(mc, op[2]) if opts.get("into") else op[2]
                src = node_of(mc, op[1]) if opts.get("srcobj") else op[1]
                mc.copy(src, dst, **kw)
            elif kind == "move":
                mc.move(op[1], op[2])
            elif kind == "attach":
                _, path, sname, ver, idx = op[:5]
                opts = op[5] if len(op) > 5 and op[5] else {}
                env = opts.get("env")
                sver = resolve_attach_version(sname, ver, env)
                if opts.get("as") == "unserialisable" and sver is not None and FAMILY[(sname, sver)].unserialisable:
                    val = _copy.deepcopy(FAMILY[(sname, sver)].unserialisable[idx % len(FAMILY[(sname, sver)].unserialisable)])
                elif sver is not None and (sname, sver) in FAMILY and FAMILY[(sname, sver)].instances:
                    val = instance_of(sname, sver, idx, opts.get("as", "obj"))
                else:
                    val = {"x": 1}
                keyk = opts.get("key") or ("name" if ver is None else "tuple")
                if keyk == "cls" and sver is not None:
                    key: Any = FAMILY[(sname, sver)].cls
                elif keyk == "ref" and sver is not None:
                    key = schemas.PluginRef(name=sname, version=sver)
                elif ver is not None:
                    key = (sname, tuple(ver))
                else:
                    key = sname
                meta = meta_handle(h, mc, path)
                if env is not None:
                    with restricted_env(sname, env):
                        meta[key] = val
                else:
                    meta[key] = val
            elif kind == "detach":
                meta = meta_handle(h, mc, op[1])
                del meta[op[2]]
            elif kind == "reopen":
                h.reopen()
            elif kind == "commit":
                h.commit()
            else:
                raise RuntimeError(f"unknown container op {op}")
        if kind not in ("reopen", "commit"):
            h.dirty = True
        if kind not in ("attach", "detach"):
            h.held.clear()  # handles are only reused while nothing else happened to the container
            h.watchers.clear()
            if kind == "move" and h.kind == "h5":
                _rekey_kept_nodes(h, op[1], op[2])
            else:
                h.nodes.clear()
        return ("ok", None, "")
    except OpTimeout:
        return ("hang", None, "")
    except Exception as e:  # noqa
        h.dirty = True
        if kind not in ("attach", "detach"):
            h.held.clear()
            h.watchers.clear()
            h.nodes.clear()
        return ("err", type(e).__name__, str(e)[:200])


# =====================================================================================
# independent model of the user tree and of what was attached
# =====================================================================================


def _under(path: str, anc: str) -> bool:
    if anc == "/":
        return True
    return path == anc or path.startswith(anc + "/")


def _parent(path: str) -> str:
    p = path.rsplit("/", 1)[0]
    return p or "/"


def _is_reserved(path: str) -> bool:
    return any(seg.startswith(RES_PREF) for seg in path.split("/"))


class Model:
    """Reference user tree (kinds only) + attached metadata: path -> {schema name -> (version, instance idx)}."""

    def __init__(self):
        self.nodes: Dict[str, str] = {"/": "g"}
        self.meta: Dict[str, Dict[str, Tuple[Tuple[int, int, int], int]]] = {}

    def clone(self):
        m = Model()
        m.nodes = dict(self.nodes)
        m.meta = {p: dict(d) for p, d in self.meta.items()}
        return m

    def key(self):
        return canon([sorted(self.nodes.items()), sorted((p, sorted((n, list(v), i) for n, (v, i) in d.items())) for p, d in self.meta.items() if d)])

    # ---- predicted outcome ("ok" | exception class name | "?" unknown) --------------------
    def _creatable(self, path) -> bool:
        if path in self.nodes or path == "/":
            return False
        p = _parent(path)
        while p != "/":
            if self.nodes.get(p) == "d":
                return False
            p = _parent(p)
        return True

    def predict(self, op) -> str:
        k = op[0]
        if k in ("mkds", "mkgrp"):
            if _is_reserved(op[1]):
                return "ValueError"
            return "ok" if self._creatable(op[1]) else "err"
        if k == "del":
            if _is_reserved(op[1]):
                return "ValueError"
            return "ok" if op[1] in self.nodes and op[1] != "/" else "err"
        if k in ("copy", "move"):
            opts = op[3] if k == "copy" and len(op) > 3 and op[3] else {}
            src, dst = op[1], op[2]
            if opts.get("into"):
                if dst not in self.nodes or self.nodes[dst] != "g":
                    return "err"
                nm = opts.get("name") or src.rsplit("/", 1)[1]
                dst = (dst.rstrip("/") + "/" + nm) if dst != "/" else "/" + nm
            if _is_reserved(src) or _is_reserved(dst):
                return "ValueError"
            if src not in self.nodes or src == "/":
                return "err"
            return "ok" if self._creatable(dst) else "err"
        if k == "attach":
            _, path, sname, ver = op[:4]
            opts = op[5] if len(op) > 5 and op[5] else {}
            if path not in self.nodes:
                return "err"
            if sname in self.meta.get(path, {}):
                return "ValueError"
            if opts.get("as") == "unserialisable":
                return "?"  # a defect of serialisation (C12), not of the container: outcome not predicted
            sver = resolve_attach_version(sname, ver, opts.get("env"))
            if sver is None:
                return "KeyError"
            if FAMILY[(sname, sver)].auxiliary:
                return "TypeError"
            return "ok"
        if k == "detach":
            if op[1] not in self.nodes:
                return "err"
            return "ok" if op[2] in self.meta.get(op[1], {}) else "KeyError"
        if k in ("reopen", "commit"):
            return "ok"
        return "?"

    # ---- effect of a successful operation ------------------------------------------------
    def _mk(self, path, kind):
        p = _parent(path)
        todo = []
        while p != "/" and p not in self.nodes:
            todo.append(p)
            p = _parent(p)
        for q in todo:
            self.nodes[q] = "g"
        self.nodes[path] = kind

    def apply(self, op):
        """Apply the effect of an operation that was observed to succeed. Returns the set of paths created by a copy."""
        k = op[0]
        created = set()
        if k == "mkds":
            self._mk(op[1], "d")
        elif k == "mkgrp":
            self._mk(op[1], "g")
        elif k == "del":
            for p in [p for p in self.nodes if _under(p, op[1])]:
                del self.nodes[p]
                self.meta.pop(p, None)
        elif k in ("copy", "move"):
            opts = op[3] if k == "copy" and len(op) > 3 and op[3] else {}
            src, dst = op[1], op[2]
            if opts.get("into"):
                nm = opts.get("name") or src.rsplit("/", 1)[1]
                dst = (dst.rstrip("/") + "/" + nm) if dst != "/" else "/" + nm
            sub = [p for p in self.nodes if _under(p, src)] if src != "/" else []
            snap = [(p, self.nodes[p], dict(self.meta.get(p, {}))) for p in sub]
            if k == "move":
                for p in sub:
                    del self.nodes[p]
                    self.meta.pop(p, None)
            par = _parent(dst)
            if par != "/" and par not in self.nodes:
                self._mk(par, "g")
            for p, kind, md in snap:
                q = dst + p[len(src):]
                self.nodes[q] = kind
                created.add(q)
                if md and (k == "move" or not opts.get("without_meta")):
                    self.meta[q] = md
        elif k == "attach":
            _, path, sname, ver, idx = op[:5]
            opts = op[5] if len(op) > 5 and op[5] else {}
            sver = resolve_attach_version(sname, ver, opts.get("env"))
            self.meta.setdefault(path, {})[sname] = (sver, idx % max(1, len(FAMILY[(sname, sver)].instances)))
        elif k == "detach":
            d = self.meta.get(op[1], {})
            d.pop(op[2], None)
            if not d:
                self.meta.pop(op[1], None)
        return created

    def attached(self) -> Dict[str, Dict[str, Tuple[int, int, int]]]:
        return {p: {n: tuple(v) for n, (v, _) in d.items()} for p, d in self.meta.items() if d}


def is_move_into_own_subtree(op) -> bool:
    return op[0] == "move" and _under(op[2], op[1])


def is_copy_into_own_subtree(op) -> bool:
    if op[0] != "copy":
        return False
    opts = op[3] if len(op) > 3 and op[3] else {}
    dst = op[2]
    if opts.get("into"):
        dst = (dst.rstrip("/") + "/x") if dst != "/" else "/x"
    return _under(dst, op[1])


# =====================================================================================
# operation alphabets
# =====================================================================================

QUICK_SCHEMAS = ["vt.bb", "vt.cc", "vt.l3"]
THOROUGH_SCHEMAS = ["vt.aa", "vt.bb", "vt.cc", "vt.l2", "vt.l3", "core.file"]


def probe_ops(model: Model, kind: str, tier: str) -> List[list]:
    """Operations expected to FAIL (or to leave the state as it is) in the given model state."""
    nodes = model.nodes
    ops: List[list] = []
    some = sorted(nodes)
    first_ds = next((p for p in some if nodes[p] == "d"), None)
    first_grp = next((p for p in some if nodes[p] == "g" and p != "/"), None)
    tgt = first_ds or first_grp or "/"
    # attach twice
    for p, d in sorted(model.meta.items()):
        for s in sorted(d):
            ops.append(["attach", p, s, None, 1])
    # delete / detach missing
    ops.append(["del", "/nope"])
    ops.append(["detach", tgt, "vt.bb"] if "vt.bb" not in model.meta.get(tgt, {}) else ["detach", tgt, "vt.nope"])
    # unknown / auxiliary schema
    ops.append(["attach", tgt, "vt.nope", None, 0])
    ops.append(["attach", tgt, "vt.aux", None, 0])
    ops.append(["attach", tgt, "vt.bb", [9, 0, 0], 0])
    # attach to missing node
    ops.append(["attach", "/nope", "vt.bb", None, 0])
    # instance that parses but cannot be serialised (exists only while the C12 defect is present): exception safety of _set_raw
    for (n, v), info in sorted(FAMILY.items()):
        if info.unserialisable and n not in model.meta.get(tgt, {}):
            ops.append(["attach", tgt, n, None, 0, {"as": "unserialisable"}])
            break
    # reserved names
    ops.append(["mkds", "/metador_x", 1])
    ops.append(["mkgrp", "/metador_meta_"])
    ops.append(["del", f"/{TOC}"])
    if first_ds:
        ops.append(["del", _parent(first_ds).rstrip("/") + "/" + META_PREF + first_ds.rsplit("/", 1)[1]])
        ops.append(["copy", first_ds, "/metador_y", {}])
        ops.append(["move", first_ds, "/" + META_PREF + "zz"])
        ops.append(["mkds", first_ds, 2])  # create onto existing
    for src in (first_ds, first_grp):
        if src:
            ops.append(["copy", src, "/", {"into": True, "name": "metador_z"}])
    if first_grp:
        ops.append(["copy", first_grp, "/metador_w", {}])
        ops.append(["mkgrp", first_grp])
    # copy / move onto existing
    if first_ds and first_grp:
        ops.append(["copy", first_ds, first_grp, {}])
        ops.append(["move", first_grp, first_ds])
        ops.append(["copy", first_grp, first_ds, {"without_meta": True}])
    if first_ds:
        ops.append(["copy", first_ds, first_ds, {}])
    # copy / move missing source
    ops.append(["copy", "/nope", "/nn", {}])
    ops.append(["move", "/nope", "/nn"])
    return ops


def change_ops(model: Model, kind: str, tier: str, schemas_=None, allow_self_copy=True) -> List[list]:
    """Operations expected to SUCCEED and change the state (pruned alphabet for the BFS)."""
    nodes = model.nodes
    S = schemas_ or (QUICK_SCHEMAS if tier == "quick" else THOROUGH_SCHEMAS)
    ops: List[list] = []
    # creation (fixed small universe of names)
    if "/d" not in nodes:
        ops.append(["mkds", "/d", 1])
    if "/g" not in nodes:
        ops.append(["mkgrp", "/g"])
    if "/g/e" not in nodes and nodes.get("/g", "g") == "g":
        ops.append(["mkds", "/g/e", 2])
    if tier != "quick" and "/g/h" not in nodes and nodes.get("/g") == "g":
        ops.append(["mkgrp", "/g/h"])
    # attach / detach
    for p in sorted(nodes):
        have = model.meta.get(p, {})
        for s in S:
            if s in have:
                ops.append(["detach", p, s])
            else:
                ops.append(["attach", p, s, None, 0])
    # delete
    for p in sorted(nodes):
        if p != "/":
            ops.append(["del", p])
    # copy / move (targets: one new top-level name, one name inside /g)
    for src in sorted(nodes):
        if src == "/":
            continue
        # only sources that carry metadata somewhere are interesting for bookkeeping, the others once
        for dst in ("/c", "/g/c"):
            if dst in nodes:
                continue
            if dst.startswith("/g/") and nodes.get("/g") != "g":
                continue
            cop = ["copy", src, dst, {}]
            if _under(dst, src):
                if not allow_self_copy:
                    continue
                ops.append(cop)  # copy into own subtree (allowed by the property), move excluded
                continue
            ops.append(cop)
            if any(_under(p, src) for p in model.meta):
                ops.append(["copy", src, dst, {"without_meta": True}])
            ops.append(["move", src, dst])
        if nodes.get("/g") == "g" and not _under("/g", src) and _parent(src) != "/g" and f"/g/{src.rsplit('/', 1)[1]}" not in nodes:
            ops.append(["copy", src, "/g", {"into": True}])
        if "/k" not in nodes and any(_under(p, src) for p in model.meta):
            ops.append(["copy", src, "/", {"into": True, "name": "k"}])  # destination given as the ROOT group object
    if kind == "ih5":
        ops.append(["commit"])
    return ops


def _rotate(ops, model: Model, every: int):
    """Deterministic state-dependent subset: keeps every `every`-th operation, offset by the state."""
    if every <= 1:
        return ops
    off = int(digest(model.key()), 16)
    return [op for i, op in enumerate(ops) if (i + off) % every == 0]


def alphabet_general(kind: str, tier: str, allow_self_copy=True):
    """General pruned alphabet from the empty container: all failure probes in shallow states, a rotating third deeper."""

    def ops_fn(model: Model):
        rich = len(model.nodes) + sum(len(d) for d in model.meta.values())
        pr = probe_ops(model, kind, tier)
        pr = pr if rich <= 3 else _rotate(pr, model, 3)
        return pr + change_ops(model, kind, tier, None, allow_self_copy)

    return ops_fn


def alphabet_toggle(kind: str, tier: str):
    """Schema bookkeeping: attach/detach toggles of a schema family on the nodes / and /d (+ patch boundary)."""
    S = ["vt.bb", "vt.cc", "vt.l3"] if tier == "quick" else ["vt.aa", "vt.bb", "vt.cc", "vt.l2", "vt.l3"]

    def ops_fn(model: Model):
        ops = []
        for p in ("/", "/d"):
            if p not in model.nodes:
                continue
            for sn in S:
                ops.append(["detach", p, sn] if sn in model.meta.get(p, {}) else ["attach", p, sn, None, 0])
        if kind == "ih5":
            ops.append(["commit"])
        return ops

    return ops_fn


TREE_START = [["mkgrp", "/g"], ["mkds", "/g/e", 2], ["attach", "/g/e", "vt.bb", None, 0], ["attach", "/g", "vt.cc", None, 0],
              ["mkds", "/d", 1], ["attach", "/d", "vt.bb", None, 1]]  # fmt: skip


def alphabet_tree(kind: str, tier: str, allow_self_copy=True):
    """Tree operations on nodes that carry metadata: delete, copy (with/without metadata), move, into-group copy, detach."""

    def ops_fn(model: Model):
        nodes = model.nodes
        ops = []
        for src in sorted(nodes):
            if src == "/":
                continue
            ops.append(["del", src])
            for dst in ("/c", "/g/c"):
                if dst in nodes or (dst.startswith("/g/") and nodes.get("/g") != "g"):
                    continue
                if _under(dst, src):
                    if allow_self_copy:
                        ops.append(["copy", src, dst, {}])
                    continue
                ops.append(["copy", src, dst, {}])
                ops.append(["copy", src, dst, {"without_meta": True}])
                ops.append(["move", src, dst])
        for p, d in sorted(model.meta.items()):
            for sn in sorted(d):
                ops.append(["detach", p, sn])
        if "/g" in nodes and "/d" in nodes and "/g/d" not in nodes:
            ops.append(["copy", "/d", "/g", {"into": True}])
        for src in ("/g", "/d"):
            if src in nodes and "/k" not in nodes:
                ops.append(["copy", src, "/", {"into": True, "name": "k"}])  # destination given as the ROOT group object
                break
        ops += _rotate(probe_ops(model, kind, tier), model, 4)
        if kind == "ih5":
            ops.append(["commit"])
        return ops

    return ops_fn


def random_op(r, model: Model, kind: str, allow_self_copy=True) -> list:
    """One random operation from the FULL alphabet (all families, all variants) for the deep walks."""
    nodes = sorted(model.nodes)
    non_root = [p for p in nodes if p != "/"]
    groups = [p for p in nodes if model.nodes[p] == "g"]
    names = ["a", "b", "c", "d", "e"]
    attachable = [k for k, i in FAMILY.items() if i.instances]

    def new_path():
        g = r.choice(groups)
        return (g.rstrip("/") + "/" + r.choice(names)) if g != "/" else "/" + r.choice(names)

    x = r.random()
    if x < 0.14 or not non_root:
        return ["mkds", new_path(), r.choice([1, "txt", 7])] if r.random() < 0.6 else ["mkgrp", new_path()]
    if x < 0.44:
        p = r.choice(nodes)
        n, v = r.choice(attachable)
        opts: Dict[str, Any] = {}
        if r.random() < 0.3:
            opts["as"] = "dict"
        vv: Any = None
        if len(family_versions(n)) > 1 or r.random() < 0.3:
            vv = list(v)
            if MULTIVER_OK and n == "vt.ver" and tuple(v) == (0, 1, 0):
                opts["env"] = [[0, 1, 0]]
            elif r.random() < 0.45:
                opts["key"] = r.choice(["cls", "ref"])
        return ["attach", p, n, vv, r.randrange(3), opts]
    if x < 0.56:
        cands = [(p, s) for p, d in model.meta.items() for s in d]
        if cands and r.random() < 0.85:
            p, s = r.choice(sorted(cands))
            return ["detach", p, s]
        return ["detach", r.choice(nodes), r.choice(["vt.bb", "vt.nope", "core.file"])]
    if x < 0.66:
        return ["del", r.choice(non_root)] if r.random() < 0.9 else ["del", "/nope"]
    if x < 0.86:
        src = r.choice(non_root)
        if r.random() < 0.5:
            opts = {"without_meta": r.random() < 0.4}
            if r.random() < 0.25:
                opts["srcobj"] = True
            if r.random() < 0.3:
                dstg = r.choice(groups)
                opts["into"] = True
                if r.random() < 0.5:
                    opts["name"] = r.choice(names + ["metador_q"])
                op = ["copy", src, dstg, opts]
            else:
                op = ["copy", src, new_path() if r.random() < 0.9 else r.choice(nodes), opts]
            if is_copy_into_own_subtree(op) and not allow_self_copy:
                return ["del", "/nope"]
            return op
        dst = new_path()
        op = ["move", src, dst]
        if is_move_into_own_subtree(op):
            return ["move", src, "/" + r.choice(names) + "m"]
        return op
    if x < 0.93:
        return ["reopen"]
    if kind == "ih5":
        return ["commit"]
    return ["attach", r.choice(nodes), r.choice(["vt.aux", "vt.nope"]), None, 0]


# =====================================================================================
# exploration engine shared by C06 / C07 / C20
# =====================================================================================


TREE_DIFF: Dict[str, Any] = {"n": 0, "kinds": {}, "examples": []}


class Step:
    """Everything a checker may look at after one operation."""

    __slots__ = ("h", "op", "status", "exc", "msg", "pred", "scan", "model_before", "model", "history", "kind", "created_by_copy", "phase")

    def __init__(self, **kw):
        for k, v in kw.items():
            setattr(self, k, v)

    def case(self):
        return {"kind": self.kind, "history": self.history}


def _h(b) -> str:
    import hashlib

    return hashlib.sha256(b if isinstance(b, bytes) else repr(b).encode()).hexdigest()[:12]


def scan_digest_view(S) -> dict:
    """The scan with large byte strings replaced by hashes (for the canonical state)."""
    return {
        "nodes": S["nodes"], "meta_dirs": S["meta_dirs"],
        "objects": [[o["path"], o["bytes"].decode("utf-8", "replace") if o["bytes"] is not None else None] for o in S["objects"]],
        "links": [[ln["path"], ln["target"]] for ln in S["links"]], "link_groups": S["link_groups"],
        "schema_groups": {ep: [e["members"], _h(e["jsonschema"]), _h(e["compat_raw"])] for ep, e in S["schema_groups"].items()},
        "packages": {pk: _h(e["raw"]) for pk, e in S["packages"].items()},
        "has": S["has"], "version": S["version"], "malformed": S["malformed"], "stray": S["stray"],
    }  # fmt: skip


def _abs_struct(x, lab):
    """Apply the UUID abstraction inside a JSON-like structure; lists of the scan are order-insensitive -> sorted."""
    if isinstance(x, str):
        return abstract_uuids(x, lab)
    if isinstance(x, dict):
        return {abstract_uuids(str(k), lab): _abs_struct(v, lab) for k, v in x.items()}
    if isinstance(x, (list, tuple)):
        return sorted((_abs_struct(v, lab) for v in x), key=canon)
    return x


def state_key(h: Handle, S=None) -> str:
    """Digest of the canonical state: raw tree as scanned (UUIDs abstracted) + in-memory managers + IH5 physical layout."""
    S = S or scan_toc(h.raw)
    lab = uuid_labels(S)
    mem = mem_state(h.mc)
    mem["parents"] = {k: "<".join(v) for k, v in mem["parents"].items()}  # ordered lists: keep the order
    return digest(canon(_abs_struct([scan_digest_view(S), mem, h.phys()], lab)))


def copy_self_hangs(dirpath: Path) -> bool:
    """Probe once whether IH5 terminates on copying a group into its own subtree (known C01 defect on the pinned tree)."""
    h = Handle("ih5", dirpath, "selfcopyprobe")
    try:
        apply_cop(h, ["mkgrp", "/g"])
        apply_cop(h, ["mkds", "/g/e", 1])
        st = apply_cop(h, ["copy", "/g", "/g/c", {}], timeout=3.0)
        return st[0] == "hang"
    finally:
        h.close()


class Explorer:
    """Bounded exploration of container histories on one driver.

    `checker(step)` is called after EVERY operation that is new work (not while replaying a known prefix).
    De-duplication is on `state_key`. Frontier states are re-materialised by replaying their shortest history
    in a fresh directory (in-memory managers are then the incrementally maintained ones).
    """

    def __init__(self, kind: str, tier: str, workdir: Path, checker, rec, deadline: float, allow_self_copy=True):
        self.kind, self.tier, self.workdir, self.checker, self.rec, self.deadline = kind, tier, Path(workdir), checker, rec, deadline
        self.allow_self_copy = allow_self_copy
        self.n_mat = 0
        self.n_steps = 0
        self.levels_done = 0
        self.level_partial = None
        self.states = 0
        self.nondet = 0

    def time_left(self) -> bool:
        return time.time() < self.deadline

    # ---- materialise -----------------------------------------------------------------------
    def fresh(self) -> Handle:
        self.n_mat += 1
        d = self.workdir / f"m{self.n_mat}"
        d.mkdir()
        return Handle(self.kind, d)

    def dispose(self, h: Handle):
        h.close()
        import shutil

        shutil.rmtree(h.dir, ignore_errors=True)

    def materialise(self, history, model=None, token=None) -> Handle:
        h = self.fresh()
        for op in history:
            apply_cop(h, op)
        self.prime(h, model, history, token)
        return h

    def prime(self, h, model, history, token=None):
        """Let the checker take its 'before' snapshot of a container that is about to receive new operations.

        `token` is what `checker.token(h)` returned when this state was first reached (cheap restore)."""
        self.checker.prime(h, model, list(history), token)

    # ---- one checked step --------------------------------------------------------------------
    def step(self, h: Handle, model: Model, history: list, op, phase="bfs") -> Tuple[Model, Step]:
        pred = model.predict(op)
        self.checker.before(h, op)
        status, exc, msg = apply_cop(h, op)
        new_model = model
        created = set()
        if status == "ok" and op[0] not in ("reopen", "commit"):
            new_model = model.clone()
            created = new_model.apply(op)
        hist = history + [op]
        try:
            S = scan_toc(h.raw)
        except Exception as e:  # noqa  (e.g. container left closed by a failed reopen)
            S = empty_scan()
            S["error"] = f"{type(e).__name__}: {str(e)[:200]}"
        if op[0] == "copy" and not S.get("error"):
            # whatever a copy (successful or failed with an effect) made appear is "created by the copy"
            created = set(created) | (set(S["nodes"]) - set(model.nodes))
        if not S.get("error") and S["nodes"] != new_model.nodes:
            # the shape of the user tree is judged by C08/C09, not here: adopt what is observed (e.g. an operation that
            # raised after having had an effect) so that the model of what is attached WHERE stays meaningful
            if new_model is model:
                new_model = model.clone()
            TREE_DIFF["n"] += 1
            k = f"{op[0]} -> {status} {exc}"
            TREE_DIFF["kinds"][k] = TREE_DIFF["kinds"].get(k, 0) + 1
            if len(TREE_DIFF["examples"]) < 2:
                TREE_DIFF["examples"].append(f"{self.kind}: {json.dumps(hist)} -> {status} {exc}: {msg[:100]}")
            new_model.nodes = dict(S["nodes"])
        st = Step(h=h, op=op, status=status, exc=exc, msg=msg, pred=pred, scan=S, model_before=model, model=new_model,
                  history=hist, kind=self.kind, created_by_copy=created, phase=phase)  # fmt: skip
        self.n_steps += 1
        self.checker(st)
        return new_model, st

    # ---- bounded search (shortest-first with live continuation) -----------------------------------
    def search(self, max_len: int, ops_fn, start_history=None, label="bfs", dive_extra: int = 99):
        """Exhaustive exploration of all histories of up to `max_len` operations beyond `start_history`.

        `ops_fn(model) -> [op]` is the alphabet enabled in a state (failure-provoking and state-changing operations).
        Every (distinct state, operation) pair is executed exactly once; states are de-duplicated on `state_key`.
        A state is re-materialised by replaying its shortest known history; after an operation the exploration continues
        on the LIVE container in the successor state as long as that one still has work ("dive"), which keeps the
        incrementally maintained in-memory managers under test and saves replays. Every state also gets a reopen check.
        Returns the length m such that ALL histories of length <= m (over the alphabet) have been executed.
        """
        import heapq

        start_history = list(start_history or [])
        h = self.fresh()
        model = Model()
        for op in start_history:
            model = self._replay_model(h, model, op)
        k0 = state_key(h)
        self.dispose(h)

        class St:
            __slots__ = ("key", "hist", "model", "tok", "depth", "pending", "reopened", "succ")

        def mk(key, hist, mdl, tok, depth):
            st = St()
            st.key, st.hist, st.model, st.tok, st.depth = key, hist, mdl, tok, depth
            st.pending, st.reopened, st.succ = None, False, {}
            return st

        states = {k0: mk(k0, start_history, model, None, 0)}
        self.states += 1
        heap = [(0, 0, k0)]
        cnt = [1]

        def has_work(st):
            if not st.reopened:
                return True
            return st.depth < max_len and (st.pending is None or len(st.pending) > 0)

        def push(st):
            heapq.heappush(heap, (st.depth, cnt[0], st.key))
            cnt[0] += 1

        def relax(st):
            for ck, op in st.succ.items():
                c = states[ck]
                if c.depth > st.depth + 1:
                    c.depth = st.depth + 1
                    c.hist = st.hist + [op]
                    if has_work(c):
                        push(c)
                    relax(c)

        while heap and self.time_left() and not self.rec.full:
            _, _, k = heapq.heappop(heap)
            cur = states[k]
            if not has_work(cur):
                continue
            h = self.materialise(cur.hist, cur.model, cur.tok)
            applied = list(cur.hist)
            dive_cap = cur.depth + dive_extra
            visited = [cur]
            while self.time_left() and not self.rec.full:
                if cur.depth < max_len and cur.pending is None:
                    cur.pending = [op for op in ops_fn(cur.model) if not is_move_into_own_subtree(op)
                                   and not (is_copy_into_own_subtree(op) and not self.allow_self_copy)
                                   and not (op[0] == "commit" and not h.dirty)]  # fmt: skip
                    cur.pending.reverse()
                if cur.depth < max_len and cur.pending:
                    op = cur.pending.pop()
                elif not cur.reopened:
                    op = ["reopen"]
                    cur.reopened = True
                else:
                    break
                m2, st = self.step(h, cur.model, applied, op, phase=label)
                applied = st.history
                if st.status == "hang" or op[0] == "reopen" or st.scan.get("error"):
                    break
                k2 = state_key(h, st.scan)
                if k2 == cur.key:
                    continue
                child = states.get(k2)
                if child is None:
                    child = mk(k2, cur.hist + [op], m2, self.checker.token(h), cur.depth + 1)
                    states[k2] = child
                    self.states += 1
                    cur.succ[k2] = op
                    push(child)
                else:
                    cur.succ.setdefault(k2, op)
                    if child.depth > cur.depth + 1:
                        child.depth = cur.depth + 1
                        child.hist = cur.hist + [op]
                        relax(child)
                        push(child)
                if has_work(child) and child.depth <= dive_cap:
                    cur = child  # dive: continue on the live container
                    visited.append(cur)
                    continue
                break
            self.dispose(h)
            for v in visited:
                if has_work(v):
                    push(v)
        open_depths = [st.depth for st in states.values() if st.depth < max_len and (st.pending is None or st.pending)]
        m = min(open_depths) if open_depths else max_len
        self.levels_done = m
        self.n_open = len(open_depths)
        self.n_states_search = len(states)
        return m

    def _replay_model(self, h, model, op):
        st = apply_cop(h, op)
        if st[0] == "ok" and op[0] not in ("reopen", "commit"):
            model = model.clone()
            model.apply(op)
        return model

    # ---- scripted history (sweeps, replay) --------------------------------------------------------
    def run_history(self, history, phase="script", reopen_at_end=True):
        h = self.fresh()
        model = Model()
        self.prime(h, model, [])
        applied: list = []
        try:
            for op in history:
                model, st = self.step(h, model, applied, op, phase=phase)
                applied = st.history
                if st.status == "hang" or st.scan.get("error"):
                    break
            else:
                if reopen_at_end and (not history or history[-1] != ["reopen"]):
                    model, st = self.step(h, model, applied, ["reopen"], phase=phase)
        finally:
            self.dispose(h)

    # ---- random walk --------------------------------------------------------------------------
    def random_walk(self, r, length: int, phase="walk"):
        h = self.fresh()
        model = Model()
        self.prime(h, model, [])
        applied: list = []
        try:
            for _ in range(length):
                if not self.time_left() or self.rec.full:
                    break
                op = random_op(r, model, self.kind, self.allow_self_copy)
                if is_move_into_own_subtree(op):
                    continue
                model, st = self.step(h, model, applied, op, phase=phase)
                applied = st.history
                if st.status == "hang" or st.scan.get("error"):
                    break
            else:
                model, st = self.step(h, model, applied, ["reopen"], phase=phase)
        finally:
            self.dispose(h)


def sweep_histories(tier: str, kind: str = "h5", seed: int = 0) -> List[list]:
    """Short scripted histories covering EVERY schema of the families with the generated instances.

    quick tier on IH5 (slow driver): short form, one instance per schema, a rotating third of the schemas (by seed)."""
    res: List[list] = []
    short = tier == "quick" and kind == "ih5"
    # inheritance x versions scenarios
    res.append([["mkds", "/d", 1], ["attach", "/d", "vt.bb", None, 0], ["attach", "/", "vt.cc", None, 0], ["attach", "/d", "vt.aa", None, 0],
                ["mkgrp", "/g"], ["attach", "/g", "vt.l3", None, 0], ["attach", "/g", "vt.l2", None, 0], ["attach", "/", "vt.l1", None, 1],
                ["reopen"], ["detach", "/d", "vt.bb"], ["detach", "/g", "vt.l2"], ["reopen"], ["detach", "/d", "vt.aa"], ["del", "/g"]])  # fmt: skip
    if not short:
        res.append([["mkgrp", "/g"], ["mkds", "/g/e", 1], ["attach", "/g/e", "core.imagefile", None, 0], ["attach", "/g", "core.bib", None, 0],
                    ["attach", "/", "core.dir", None, 1], ["attach", "/g/e", "vt.auxkid", None, 0], ["copy", "/g", "/h", {}], ["commit"],
                    ["del", "/g"], ["reopen"], ["move", "/h/e", "/e"], ["detach", "/e", "core.imagefile"]])  # fmt: skip
    # delete and re-create a group that carries metadata across IH5 patch boundaries
    res.append([["mkgrp", "/g"], ["mkds", "/g/e", 2], ["attach", "/g/e", "vt.bb", None, 0], ["attach", "/g", "vt.cc", None, 0], ["commit"],
                ["del", "/g"], ["mkgrp", "/g"], ["commit"], ["mkds", "/g/w", 4], ["attach", "/g", "vt.bb", None, 1], ["reopen"],
                ["copy", "/g", "/h", {}], ["detach", "/g", "vt.bb"], ["copy", "/h", "/", {"into": True, "name": "k"}],
                ["copy", "/g", "/s", {"srcobj": True}], ["del", "/h"]])  # fmt: skip
    # a group copied WITHOUT metadata while a node below it carries the only object of its schema (the copy must not touch the original's bookkeeping)
    res.append([["mkgrp", "/g"], ["mkgrp", "/g/s"], ["mkds", "/g/s/e", 1], ["attach", "/g/s/e", "vt.l3", None, 0], ["attach", "/g/s", "vt.bb", None, 0],
                ["copy", "/g", "/h", {"without_meta": True}], ["reopen"], ["copy", "/g/s", "/k", {"without_meta": True}], ["commit"], ["del", "/h"], ["reopen"]])  # fmt: skip
    if MULTIVER_OK:
        res.append([["mkds", "/d", 1], ["mkgrp", "/g"], ["mkds", "/g/e", 1],
                    ["attach", "/d", "vt.ver", [0, 1, 0], 0, {"env": [[0, 1, 0]]}],
                    ["attach", "/g", "vt.ver", [0, 2, 0], 1], ["attach", "/g/e", "vt.ver", [1, 0, 0], 0],
                    ["attach", "/", "vt.verkid", None, 0], ["reopen"], ["attach", "/d", "vt.verkid", None, 1],
                    ["copy", "/g", "/h", {}], ["detach", "/g", "vt.ver"], ["commit"], ["detach", "/d", "vt.ver"], ["reopen"]])  # fmt: skip
        # several releases of ONE schema name are the only schemas in use; the last object of one release goes away
        res.append([["mkds", "/d", 1], ["mkds", "/e", 1],
                    ["attach", "/d", "vt.ver", [0, 1, 0], 0, {"env": [[0, 1, 0]]}], ["attach", "/e", "vt.ver", [1, 0, 0], 0],
                    ["reopen"], ["detach", "/d", "vt.ver"], ["reopen"], ["attach", "/d", "vt.ver", [0, 2, 0], 1], ["detach", "/e", "vt.ver"], ["reopen"]])  # fmt: skip
    for si, ((n, v), info) in enumerate(sorted(FAMILY.items())):
        if not info.instances:
            continue
        if short and info.origin == "installed" and (si + seed) % 3 != 0:
            continue
        for i in range(len(info.instances)):
            opts: Dict[str, Any] = {"as": "dict"} if i % 2 else {}
            vv: Any = list(v)
            if MULTIVER_OK and n == "vt.ver" and resolve_attach_version(n, v) != v:
                opts["env"] = [list(v)]
            at_d = ["attach", "/d", n, vv, i, dict(opts)]
            at_g = ["attach", "/g", n, vv, i + 1, dict(opts, key="cls") if "env" not in opts else dict(opts)]
            at_r = ["attach", "/", n, None if len(family_versions(n)) == 1 else vv, i, dict(opts)]
            if short:
                hist = [["mkds", "/d", 1], at_d, at_r, ["copy", "/d", "/c", {}], ["commit"], ["detach", "/d", n], ["reopen"]]
                res.append(hist)
                break
            hist = [["mkds", "/d", 1], ["mkgrp", "/g"], at_d, at_g, at_r, ["reopen"]]
            if info.auxiliary:
                res.append(hist)
                continue
            hist += [["copy", "/d", "/g/c", {}], ["move", "/g", "/m"], ["commit"], ["detach", "/d", n], ["reopen"],
                     ["copy", "/m", "/k", {"without_meta": True}], ["del", "/m"], ["detach", "/", n]]  # fmt: skip
            res.append(hist)
            if tier == "quick" and info.origin == "installed":
                break
    return res


# =====================================================================================
# checker base + driver runner shared by C06 / C07 / C20
# =====================================================================================


class BaseChecker:
    """Base of the per-property checkers: `check(step)` evaluates the contract after one operation."""

    PID = "C00"
    DRV = "c00"

    def __init__(self, rec, minimise=True):
        self.rec = rec
        self.minimise = minimise
        self.hangs = 0

    # -- to be provided by subclasses --
    def prime(self, h, model, history, token=None):
        pass

    def token(self, h):
        return None

    def before(self, h, op):
        pass

    def check(self, st: Step):
        raise NotImplementedError

    # -- engine entry --
    def __call__(self, st: Step):
        if st.status == "hang":
            self.hangs += 1
            if len(self.rec.notes) < 20:
                self.rec.notes.append(f"operation did not terminate within {OP_TIMEOUT_S}s (not judged here): {st.kind} {json.dumps(st.history)[-200:]}")
            return
        if st.scan.get("error"):
            # the container cannot even be read any more (e.g. reopen raised and left it closed)
            self.report(st, f"{self.DRV}:container-unusable:after-{st.op[0]}:{st.exc}",
                        f"after {st.op} -> {st.status} {st.exc} ({st.msg}) the container cannot be read any more: {st.scan['error']}",
                        ["container/interface.py:MetadorContainerTOC.__init__"])  # fmt: skip
            return
        self.check(st)

    # -- reporting with minimisation --
    def ok(self):
        self.rec.check(True, "", "")

    def report(self, st: Step, sig: str, what: str, fns=()):
        """Record a violation; its history is minimised later (`minimise_all`), outside the exploration budgets."""
        if sig in self.rec._sigs or self.rec.full:
            self.rec.check(False, sig, what)
            return
        self.rec.check(False, sig, what, case={"kind": st.kind, "history": list(st.history), "sig": sig, "minimised": False}, fns=list(fns))

    def minimise_all(self, budget_s: float):
        """ddmin over the recorded histories (shortest first), as far as the budget allows."""
        if not self.minimise:
            return
        t_end = time.time() + budget_s
        todo = sorted((v for v in self.rec.violations if "history" in v["replay"]["case"]), key=lambda v: len(v["replay"]["case"]["history"]))
        for i, v in enumerate(todo):
            case = v["replay"]["case"]
            left = t_end - time.time()
            if left <= 0.2:
                break
            try:
                hist = minimise_history(type(self), case["kind"], case["history"], case["sig"], budget_s=left / max(1, len(todo) - i))
                if hist is not None:
                    case["history"], case["minimised"] = hist, True
            except Exception as e:  # noqa
                self.rec.notes.append(f"minimisation failed for {case['sig']}: {type(e).__name__}: {e}")


def replay_history(checker_cls, kind: str, history, workdir: Path):
    """Run one history with all checks of `checker_cls` on a private recorder; returns its violations."""
    from .base import Recorder

    install_families()
    rec = Recorder(checker_cls.PID, checker_cls.DRV, max_violations=50)
    chk = checker_cls(rec, minimise=False)
    ex = Explorer(kind, "quick", workdir, chk, rec, deadline=time.time() + 60)
    ex.run_history(history, phase="replay", reopen_at_end=True)
    return rec.violations


def minimise_history(checker_cls, kind, history, sig, budget_s=2.0):
    """ddmin: remove chunks of operations while the same signature is still reported. None if it does not reproduce."""
    from .base import tmpdir

    t_end = time.time() + budget_s
    cur = list(history)
    with tmpdir() as d:
        n = [0]

        def bad(hist):
            n[0] += 1
            wd = d / f"r{n[0]}"
            wd.mkdir()
            try:
                return any(v["signature"] == sig for v in replay_history(checker_cls, kind, hist, wd))
            finally:
                import shutil

                shutil.rmtree(wd, ignore_errors=True)

        if not bad(cur):
            return None  # does not reproduce in isolation: keep the observed history
        gran = 2
        while len(cur) >= 2 and time.time() < t_end:
            chunk = max(1, len(cur) // gran)
            removed = False
            for i in range(0, len(cur), chunk):
                if time.time() >= t_end:
                    break
                cand = cur[:i] + cur[i + chunk:]
                if cand and bad(cand):
                    cur = cand
                    gran = max(gran - 1, 2)
                    removed = True
                    break
            if not removed:
                if chunk == 1:
                    break
                gran = min(len(cur), gran * 2)
    return cur


def make_replay(checker_cls):
    def replay(case: dict):
        from .base import tmpdir

        install_families()
        with tmpdir() as d:
            viol = replay_history(checker_cls, case.get("kind", "h5"), case["history"], d)
        sig = case.get("sig")
        hit = [v for v in viol if sig is None or v["signature"] == sig]
        if hit:
            return True, f"{hit[0]['signature']}: {hit[0]['what']}"[:600]
        other = "; other signatures: " + ",".join(v["signature"] for v in viol) if viol else ""
        return False, f"history of {len(case['history'])} ops on {case.get('kind')}: signature {sig} not reported{other}"

    return replay


PLAN = {
    "quick": [("sweep", "h5", 7), ("sweep", "ih5", 8), ("toggle", "h5", 6), ("toggle", "ih5", 5), ("tree", "h5", 4), ("tree", "ih5", 4), ("treec", "ih5", 3),
              ("general", "h5", 7), ("general", "ih5", 4), ("walk", "both", 4)],
    "thorough": [("sweep", "h5", 25), ("sweep", "ih5", 70), ("toggle", "h5", 50), ("toggle", "ih5", 80), ("tree", "h5", 40), ("tree", "ih5", 60), ("treec", "ih5", 30),
                 ("general", "h5", 80), ("general", "ih5", 60), ("walk", "both", 70)],
}  # fmt: skip


def run_driver(checker_cls, tier: str, seed: int, rule: str, assumptions=(), trusted=(), extra_phase=None, plan=None):
    """Common run(): sweep over all schemas x instances, exhaustive bounded searches, seeded random walks."""
    from .base import Recorder, rng, tmpdir

    rec = Recorder(checker_cls.PID, checker_cls.DRV)
    t0 = time.time()
    install_families()
    for n in FAMILY_NOTES:
        rec.notes.append(n)
    TREE_DIFF.update(n=0, kinds={}, examples=[])
    chk = checker_cls(rec)
    plan = plan or PLAN["quick" if tier == "quick" else "thorough"]
    total = float(sum(w for _, _, w in plan))
    max_len = 4 if tier == "quick" else 6
    target = {"toggle": max_len, "tree": 3 if tier == "quick" else 4, "treec": 2 if tier == "quick" else 3, "general": max_len}
    bounds: Dict[str, str] = {}
    assumptions = list(assumptions)
    exhaustive = True
    with tmpdir() as d:
        hangs = copy_self_hangs(d)
        if hangs:
            assumptions.append("copy of a group into its own subtree is excluded on the IH5 driver: it does not terminate there (known C01 defect, probed at start); it is included on h5py.File")
        for i, (name, kind, w) in enumerate(plan):
            now = time.time()
            rest = sum(x[2] for x in plan[i:])
            dl = now + max(0.0, t0 + total - now) * w / rest
            wd = d / f"p{i}_{name}_{kind}"
            wd.mkdir()
            asc = not (hangs and kind == "ih5")
            kn = "h5py" if kind == "h5" else "IH5"
            if name == "sweep":
                sweeps = sweep_histories(tier, kind, seed)
                ex = Explorer(kind, tier, wd, chk, rec, dl, allow_self_copy=asc)
                done = 0
                for hist in sweeps:
                    if not ex.time_left() or rec.full:
                        break
                    ex.run_history([op for op in hist if not (op[0] == "commit" and kind == "h5")], phase="sweep")
                    done += 1
                bounds[f"sweep_{kind}"] = f"sweep/{kn}: {done}/{len(sweeps)} scripted histories (<= {max(len(x) for x in sweeps)} ops) over every schema with instances ({ex.n_steps} steps)"
            elif name == "walk":
                r = rng(seed, checker_cls.DRV + ":walk")
                wl = (6, 10) if tier == "quick" else (8, 16)
                exs = {}
                for k in ("h5", "ih5"):
                    (wd / k).mkdir()
                    exs[k] = Explorer(k, tier, wd / k, chk, rec, dl, allow_self_copy=not (hangs and k == "ih5"))
                nw = {"h5": 0, "ih5": 0}
                j = 0
                while time.time() < dl and not rec.full:
                    k = "h5" if j % 3 != 2 else "ih5"
                    exs[k].random_walk(r, r.randint(*wl))
                    nw[k] += 1
                    j += 1
                bounds["walk"] = f"walks: {nw['h5']} (h5py) + {nw['ih5']} (IH5) seeded random walks of {wl[0]}-{wl[1]} ops over the full alphabet ({exs['h5'].n_steps + exs['ih5'].n_steps} steps)"
            else:
                ex = Explorer(kind, tier, wd, chk, rec, dl, allow_self_copy=asc)
                if name == "toggle":
                    m = ex.search(target[name], alphabet_toggle(kind, tier), [["mkds", "/d", 1]], label="toggle")
                elif name == "tree":
                    m = ex.search(target[name], alphabet_tree(kind, tier, asc), TREE_START, label="tree")
                elif name == "treec":
                    # the same tree operations on metadata that lives in a COMMITTED container (patch boundary after the premise):
                    # links, objects and bookkeeping records then have to be replaced through the overlay, not edited in place
                    m = ex.search(target[name], alphabet_tree(kind, tier, asc), TREE_START + [["commit"]], label="tree-committed")
                else:
                    m = ex.search(target[name], alphabet_general(kind, tier, asc), [], label="general", dive_extra=2)
                if m < target[name]:
                    exhaustive = False
                bounds[f"{name}_{kind}"] = (
                    f"{name}/{kn}: all histories of length <= {m}"
                    + (f" complete, partially up to {target[name]} ({ex.n_open} states still open)" if m < target[name] else " complete")
                    + f" [{ex.n_states_search} distinct states, {ex.n_steps} steps]"
                )
        if extra_phase is not None:
            extra_phase(chk, rec, d, bounds)
        if rec.violations:
            chk.minimise_all(8.0 if tier == "quick" else 40.0)
    if chk.hangs:
        rec.notes.append(f"{chk.hangs} operations hit the {OP_TIMEOUT_S}s watchdog")
    if getattr(chk, "skipped_tocinv", 0):
        rec.notes.append(f"{chk.skipped_tocinv} steps ran on a state that violated TocInv (see C06); they were judged like all others")
    if getattr(chk, "followups", 0):
        rec.notes.append(f"{chk.followups} operations on states that violated TocInv already before the operation added further damage (consequences, not reported separately)")
    if TREE_DIFF["n"]:
        rec.notes.append(
            f"user tree differed from the reference-tree prediction after {TREE_DIFF['n']} operations ({TREE_DIFF['kinds']}); observed tree adopted, "
            f"not judged by this property (C08/C09). Typical: MetadorGroup.copy of a dataset that carries no metadata raises AFTER the destination was created. "
            f"Examples: {TREE_DIFF['examples']}"
        )
    bound = "; ".join(bounds[k] for k in bounds)
    return rec.result(
        rule=rule, bound=bound, exhaustive=exhaustive, assumptions=assumptions,
        trusted=["h5py/libhdf5 as the raw tree reader of the scanner", "pydantic parsing/serialisation of schema instances (T5/T9)"] + list(trusted),
        extra={"multiver_family": MULTIVER_OK},
    )
