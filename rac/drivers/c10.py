"""C10 -- patches built on a stub apply to the real record with the same result (bounded tier).

For every real record R (IH5MFRecord) built by a fixed family of data histories (1-4 containers):
 (a) the stub created from R's latest manifest has R's paths / node kinds / attribute names, none of R's
     data, and refuses merge_files;
 (b) every existence-based update history U (enumerated relative to R's skeleton) committed as a patch on top
     of the stub is accepted as next patch of R, and R + stub-made patch dumps equal to R + U applied directly;
 (c) after every commit (base, patches, stub, stub-made, direct) the manifest file on disk hashes to the value
     and carries the uuid recorded in the newest container's user block, and describes the record's skeleton;
 (d) manifest extensions persist until overridden (also across reopen and through the stub route).

Oracles use hashlib/json, dumps through the public group protocol, and a tiny existence model; never the
functions under test for the expected value (IH5Skeleton.for_record is additionally compared, as asked).

Findings on the pinned tree (be6a047):
 * c10:d:exts:real+stub-patch / real+2-stub-patches -- create_stub drops the manifest extensions, so the first patch made
   on a stub resets `manifest_exts` of the real record to {} although nobody overrode them (genuine C10 defect).
 * c10:b:status-differs:*, c10:b:stub-view-struct, c10:c:skeleton-struct:real+stub-patch, c10:chain:status-differs --
   all rooted in the C01 defect of IH5InnerNode._children (replaced groups/datasets shine through once a later patch
   touches them): the flat stub and the multi-container real record then behave differently under the same update.
   They vanish with the C01 fix (checked by monkeypatching the fix, and after repo commit f9ed1de).
"""
from __future__ import annotations

import itertools
import json
import shutil
import time
from pathlib import Path

from rac import base  # noqa: F401  (numpy shim first)
from rac.base import Recorder, budget_left, digest, rng, tmpdir
from rac import ih5lib
from rac import stublib as SL
from rac.stublib import guarded

from metador_core.ih5.manifest import IH5MFRecord  # noqa: E402
from metador_core.ih5.record import IH5Record  # noqa: E402
from metador_core.ih5.skeleton import IH5Skeleton  # noqa: E402

FN_STUB = ["ih5/manifest.py:IH5MFRecord.create_stub", "ih5/skeleton.py:init_stub_skeleton"]
FN_COMMIT = ["ih5/manifest.py:IH5MFRecord.commit_patch"]
FN_OPEN = ["ih5/manifest.py:IH5MFRecord._open", "ih5/record.py:IH5Record._check_ublock"]
NAME = "real"


# ---------------------------------------------------------------------------------------------------------
# contract (c)+(d): manifest on disk vs newest container
# ---------------------------------------------------------------------------------------------------------
def check_manifest(rec: Recorder, robj, where: str, case, expected_exts=None, full=True, dump=None):
    newest = Path(robj.ih5_files[-1])
    st = SL.manifest_link_state(newest)
    ok = rec.check(st["ext"] is not None and st["mf_exists"] and st["mf_json"] is not None, f"c10:c:no-manifest:{where}",
                   f"after commit the newest container {newest.name} must link an existing JSON manifest; ext={st['ext']} exists={st['mf_exists']}",
                   case, FN_COMMIT)
    if not ok:
        return st
    ext, mf = st["ext"], st["mf_json"]
    rec.check(st["mf_sha"] == ext.get("manifest_hashsum"), f"c10:c:hash-mismatch:{where}",
              f"manifest file hashes to {st['mf_sha']} but the user block of {newest.name} records {ext.get('manifest_hashsum')}", case, FN_COMMIT)
    rec.check(str(mf.get("manifest_uuid")) == str(ext.get("manifest_uuid")), f"c10:c:uuid-mismatch:{where}",
              f"manifest uuid {mf.get('manifest_uuid')} vs user block {ext.get('manifest_uuid')}", case, FN_COMMIT)
    if dump is None:
        dump = ih5lib.dump_tree(robj)
    want = SL.struct_of_dump(dump) if dump is not False else None
    got = SL.struct_of_skeleton(mf.get("skeleton") or {})
    dump is not False and rec.check(got == want, f"c10:c:skeleton-struct:{where}",
              f"manifest skeleton (paths/kinds/attr names) differs from the record: only-manifest={sorted(set(got) - set(want or ()))} only-record={sorted(set(want or ()) - set(got))} "
              f"diff={[p for p in got if p in (want or ()) and got[p] != want[p]][:4]}", case, FN_COMMIT + ["ih5/skeleton.py:IH5Skeleton.for_record"])
    if full:
        cur = json.loads(IH5Skeleton.for_record(robj).json())
        rec.check(mf.get("skeleton") == cur, f"c10:c:skeleton-idx:{where}",
                  "manifest skeleton != IH5Skeleton.for_record(record) right after the commit (patch indices included)", case, FN_COMMIT)
    if expected_exts is not None:
        rec.check(mf.get("manifest_exts") == expected_exts, f"c10:d:exts:{where}",
                  f"manifest_exts on disk {mf.get('manifest_exts')} but extensions last passed (never overridden since) are {expected_exts}", case,
                  FN_COMMIT + (FN_STUB[:1] if "stub" in where else []))
    return st


# ---------------------------------------------------------------------------------------------------------
# building the real record (with contract (c),(d) after every commit)
# ---------------------------------------------------------------------------------------------------------
class Ctx:
    pass


def build_real(rec: Recorder, d: Path, hname: str, history, checks=True) -> Ctx:
    case = {"check": "record", "hname": hname, "history": history}
    null = Recorder("C10", "c10")
    R = rec if checks else null
    rd = d / "real"
    rd.mkdir(parents=True, exist_ok=True)
    ops = list(history)
    plain = bool(ops) and ops[0][0] == "plain-base"
    if plain:
        ops = ops[1:]
    robj = (IH5Record if plain else IH5MFRecord)(rd / NAME, "x")
    exts = {}
    if not ops or ops[-1][0] != "commit":
        ops.append(["commit"])
    ncommit = 0
    for i, op in enumerate(ops):
        if op[0] == "commit" and plain and ncommit == 0:
            # base written without manifest support; reopening as IH5MFRecord in r+ starts the first patch
            robj.commit_patch()
            robj.close()
            robj = IH5MFRecord(rd / NAME, "r+")
            ncommit += 1
        elif op[0] == "commit":
            passed = op[1] if len(op) > 1 else None
            st, val = guarded(lambda: robj.commit_patch(**({"manifest_exts": passed} if passed is not None else {})))
            if st != "ok":
                raise RuntimeError(f"{hname}: commit failed: {st} {val}")
            if passed is not None:
                exts = passed
            check_manifest(R, robj, "real-base" if ncommit == 0 else "real-patch", dict(case, sig_at=f"commit{ncommit}"), expected_exts=exts)
            ncommit += 1
            if i < len(ops) - 1:
                robj.create_patch()
        else:
            st, exc = ih5lib.apply_op(robj, op, is_ih5=True)
            if st != "ok":
                raise RuntimeError(f"{hname}: data history op failed: {op} -> {st} {exc}")
    ctx = Ctx()
    ctx.hname, ctx.history, ctx.d, ctx.rd = hname, history, d, rd
    ctx.exts = exts
    ctx.dump = ih5lib.dump_tree(robj)
    ctx.struct = SL.struct_of_dump(ctx.dump)
    ctx.skel = json.loads(IH5Skeleton.for_record(robj).json())
    ctx.files = [Path(p) for p in robj.ih5_files]
    ctx.mf = SL.manifest_path_for(ctx.files[-1])
    ctx.ncont = len(ctx.files)
    robj.close()
    return ctx


def real_file_set(ctx):
    return sorted(p.name for p in ctx.rd.iterdir())


# ---------------------------------------------------------------------------------------------------------
# contract (a): the stub
# ---------------------------------------------------------------------------------------------------------
def make_stub(rec: Recorder, ctx: Ctx, sub="stub", checks=True, manifest=None):
    case = {"check": "record", "hname": ctx.hname, "history": ctx.history}
    R = rec if checks else Recorder("C10", "c10")
    sd = ctx.d / sub
    sd.mkdir(parents=True, exist_ok=True)
    st, stub = guarded(lambda: IH5MFRecord.create_stub(sd / NAME, manifest or ctx.mf))
    rec.check(st == "ok", "c10:a:create-stub-failed", f"create_stub from the latest manifest failed: {st} {stub}", case, FN_STUB)
    if st != "ok":
        raise RuntimeError(f"create_stub failed: {stub}")
    try:
        sdump = ih5lib.dump_tree(stub)
        # same paths / kinds / attribute names
        s_skel = json.loads(IH5Skeleton.for_record(stub).json())
        R.check(SL.struct_of_skeleton(s_skel) == SL.struct_of_skeleton(ctx.skel), "c10:a:skeleton-mismatch",
                "IH5Skeleton.for_record(stub) != for_record(real) modulo patch indices", case, FN_STUB)
        R.check(sorted(ih5lib.flat_paths(sdump)) == sorted(ih5lib.flat_paths(ctx.dump)), "c10:a:paths-mismatch",
                f"stub paths/kinds {sorted(ih5lib.flat_paths(sdump))} != real {sorted(ih5lib.flat_paths(ctx.dump))}", case, FN_STUB)
        R.check(SL.struct_of_dump(sdump) == ctx.struct, "c10:a:attrnames-mismatch",
                "stub attribute name sets differ from the real record", case, FN_STUB)
        # none of the data
        nonempty = [(p, v) for p, v in SL.dump_values(sdump) if v[0] != "empty"]
        R.check(not nonempty, "c10:a:stub-has-values", f"stub carries non-empty values: {nonempty[:3]}", case, FN_STUB)
        raw = b"".join(Path(f).read_bytes() for f in stub.ih5_files)
        leaked = [p.decode() for p in SL.history_payloads(ctx.history) if p in raw]
        R.check(not leaked, "c10:a:stub-leaks-data", f"payload bytes of the real record found in the stub container: {leaked[:3]}", case, FN_STUB)
        # cannot be merged
        tgt = ctx.d / f"{sub}-merged" / "merged"
        tgt.parent.mkdir(exist_ok=True)
        st, val = guarded(lambda: stub.merge_files(tgt))
        left = sorted(p.name for p in tgt.parent.iterdir())
        R.check(st == "err", "c10:a:merge-not-refused", f"stub.merge_files must raise; got {st} {val}; files left: {left}", case,
                ["ih5/manifest.py:IH5MFRecord.merge_files"])
        shutil.rmtree(tgt.parent, ignore_errors=True)
        # manifest of the stub commit (c); its extensions are not part of the real chain -> not judged here
        check_manifest(R, stub, "stub-base", case, expected_exts=None, dump=sdump)
    finally:
        stub.close()
    ctx.sd = sd
    ctx.stub_files = sorted(sd.iterdir())
    return ctx


# ---------------------------------------------------------------------------------------------------------
# contract (b): update via stub == update directly
# ---------------------------------------------------------------------------------------------------------
def _apply_update(robj, update):
    return [list(ih5lib.apply_op(robj, op, is_ih5=True)) for op in update]


def _new_files(dirpath: Path, before):
    return [p for p in sorted(dirpath.iterdir()) if p.name not in before]


def run_update(rec: Recorder, ctx: Ctx, update, full=False, by_name=False, exts_override=None):
    """One (R, U) case. Returns (changed?, ok?)."""
    case = {"check": "update", "hname": ctx.hname, "history": ctx.history, "update": update, "exts_override": exts_override}
    shape = SL.shape_of(update) if len(update) <= 2 else "long"
    n0 = len(rec.violations)
    before_s = {p.name for p in ctx.sd.iterdir()}
    before_r = {p.name for p in ctx.rd.iterdir()}
    kw = {"manifest_exts": exts_override} if exts_override is not None else {}
    want_exts = exts_override if exts_override is not None else ctx.exts
    s = r = c = None
    changed = False
    try:
        # --- via stub --------------------------------------------------------------------------------
        st, s = guarded(lambda: IH5MFRecord(ctx.sd / NAME, "r+"))
        if not rec.check(st == "ok", "c10:b:stub-open-rplus", f"cannot open the stub for patching: {s}", case, FN_OPEN):
            s = None
            return changed, False
        st_stub = _apply_update(s, update)
        st, val = guarded(lambda: s.commit_patch(**kw))
        if not rec.check(st == "ok", "c10:b:stub-commit-failed", f"commit of the patch on the stub failed: {val}", case, FN_COMMIT):
            return changed, False
        sdump = _gdump(s) if full else ("skipped", None)
        if sdump[0] == "ok":
            check_manifest(rec, s, "stub-patch", case, expected_exts=None, full=full, dump=sdump[1])
        if full:
            st, val = guarded(lambda: s.merge_files(ctx.d / "nomerge" / "m"))
            rec.check(st == "err", "c10:a:merge-not-refused:stub+patch", f"merge of stub+patch must raise; got {st} {val}", case,
                      ["ih5/manifest.py:IH5MFRecord.merge_files"])
        pf = Path(s.ih5_files[-1])
        s.close()
        s = None
        # --- stub-made patch as next patch of the real record ----------------------------------------------
        st, c = guarded(lambda: IH5MFRecord(ctx.files + [pf], "r"))
        if not rec.check(st == "ok", "c10:b:rejected", f"real files + stub-made patch are not accepted: {c}", case, FN_OPEN + FN_STUB):
            c = None
            return changed, False
        cdump = _gdump(c)
        check_manifest(rec, c, "real+stub-patch", case, expected_exts=want_exts, full=False, dump=cdump[1] if cdump[0] == "ok" else False)
        c.close()
        c = None
        if by_name:  # "upload": stub-made patch + its manifest next to the real files, opened by record name
            up = ctx.d / "upload"
            shutil.rmtree(up, ignore_errors=True)
            up.mkdir()
            for p in ctx.rd.iterdir():
                if p.name in before_r:
                    shutil.copy(p, up / p.name)
            shutil.copy(pf, up / pf.name)
            shutil.copy(SL.manifest_path_for(pf), up / SL.manifest_path_for(pf).name)
            st, c = guarded(lambda: IH5MFRecord(up / NAME, "r"))
            if rec.check(st == "ok", "c10:b:rejected-by-name", f"real files + stub-made patch in one directory do not open: {c}", case, FN_OPEN):
                ndump = _gdump(c)
                rec.check(ndump == cdump, "c10:b:by-name-differs", "opening by record name gives another view than opening the file list", case, FN_OPEN)
                c.close()
            c = None
            shutil.rmtree(up, ignore_errors=True)
        # --- directly on the real record -----------------------------------------------------------------
        st, r = guarded(lambda: IH5MFRecord(ctx.rd / NAME, "r+"))
        if st != "ok":
            raise RuntimeError(f"cannot reopen the real record: {r}")
        st_real = _apply_update(r, update)
        st, val = guarded(lambda: r.commit_patch(**kw))
        if st != "ok":  # the reference execution itself is impossible (e.g. overlay assertion): antecedent of (b) is false
            if len(rec.notes) < 6:
                rec.notes.append(f"direct update could not be committed on the real record ({val!r}); case skipped: {ctx.hname} {update}")
            return changed, True
        ddump = _gdump(r)
        if ddump[0] == "ok":
            check_manifest(rec, r, "real-direct-patch", case, expected_exts=want_exts, full=full, dump=ddump[1])
        r.close()
        r = None
        changed = ddump != ("ok", ctx.dump)
        # --- compare -----------------------------------------------------------------------------------------
        rec.check(st_stub == st_real, f"c10:b:status-differs:{_status_sig(update, st_stub, st_real)}",
                  f"operation outcomes differ: via stub {st_stub} vs directly {st_real}", case, FN_STUB)
        if st_stub == st_real:
            diff = _first_diff(cdump[1], ddump[1]) if cdump[0] == ddump[0] == "ok" else f"{str(cdump)[:120]} vs {str(ddump)[:120]}"
            rec.check(cdump == ddump, f"c10:b:dump-mismatch:{shape}",
                      f"real+stub-made patch differs from real patched directly at {diff}", case, FN_STUB + ["ih5/overlay.py"])
            if sdump[0] == ddump[0] == "ok":
                a, b = SL.struct_of_dump(sdump[1]), SL.struct_of_dump(ddump[1])
                rec.check(a == b, "c10:b:stub-view-struct",
                          f"paths/kinds/attr names seen on the patched stub differ from the directly patched real record: "
                          f"only-stub={sorted(set(a) - set(b))[:4]} only-real={sorted(set(b) - set(a))[:4]} kind/attrs differ at {[p for p in a if p in b and a[p] != b[p]][:4]}",
                          case, FN_STUB + ["ih5/overlay.py:IH5InnerNode._children"])
            elif ddump[0] != "ok":
                rec.notes.append(f"dump of the directly patched real record raised {ddump[1]} ({ctx.hname}, {update})") if len(rec.notes) < 5 else None
    finally:
        for o in (s, r, c):
            if o is not None:
                try:
                    o.close(commit=False)
                except Exception:  # noqa
                    pass
        for dp, before in ((ctx.sd, before_s), (ctx.rd, before_r)):
            for p in _new_files(dp, before):
                p.unlink()
        shutil.rmtree(ctx.d / "nomerge", ignore_errors=True)
    return changed, len(rec.violations) == n0


def _status_sig(update, a, b):
    for op, x, y in zip(update, a, b):
        if x != y:
            return f"{op[0]}:{x[1] or x[0]}/{y[1] or y[0]}"
    return "len"


def _gdump(robj):
    st, val = guarded(lambda: ih5lib.dump_tree(robj))
    return (st, val)


def _first_diff(a, b, path=""):
    if a == b:
        return None
    if not isinstance(a, dict) or not isinstance(b, dict):
        return f"{path or '/'}: {a!r} vs {b!r}"
    for k in sorted(set(a) | set(b)):
        if a.get(k) != b.get(k):
            if k in a and k in b and isinstance(a[k], dict) and isinstance(b[k], dict):
                return _first_diff(a[k], b[k], f"{path}/{k}" if k not in ("ch", "attrs") else f"{path}{'@' if k == 'attrs' else ''}")
            return f"{path or '/'}[{k}]: {str(a.get(k))[:80]} vs {str(b.get(k))[:80]}"
    return "?"


def run_chain(rec: Recorder, ctx: Ctx, u1, u2):
    """stub -> patch U1 -> stub' (from the stub-made manifest) -> patch U2; both patches onto the real record."""
    case = {"check": "chain", "hname": ctx.hname, "history": ctx.history, "u1": u1, "u2": u2}
    before_s = {p.name for p in ctx.sd.iterdir()}
    before_r = {p.name for p in ctx.rd.iterdir()}
    objs = []
    sd2 = ctx.d / "stub2"
    try:
        st, s = guarded(lambda: IH5MFRecord(ctx.sd / NAME, "r+"))
        if not rec.check(st == "ok", "c10:chain:stub-open-rplus", f"cannot open the stub for patching: {s}", case, FN_OPEN + FN_STUB):
            return
        objs.append(s)
        st1 = _apply_update(s, u1)
        s.commit_patch()
        pf1 = Path(s.ih5_files[-1])
        s.close()
        sd2.mkdir()
        st, s2 = guarded(lambda: IH5MFRecord.create_stub(sd2 / NAME, SL.manifest_path_for(pf1)))
        if not rec.check(st == "ok", "c10:chain:create-stub2-failed", f"create_stub from a stub-made manifest failed: {s2}", case, FN_STUB):
            return
        s2.close()
        st, s2 = guarded(lambda: IH5MFRecord(sd2 / NAME, "r+"))
        if not rec.check(st == "ok", "c10:chain:stub2-open-rplus", f"a stub created from a stub-made manifest cannot be re-opened for patching: {s2}", case, FN_OPEN + FN_STUB):
            return
        objs.append(s2)
        st2 = _apply_update(s2, u2)
        s2.commit_patch()
        pf2 = Path(s2.ih5_files[-1])
        s2.close()
        st, c = guarded(lambda: IH5MFRecord(ctx.files + [pf1, pf2], "r"))
        if not rec.check(st == "ok", "c10:chain:rejected", f"real + two stub-made patches not accepted: {c}", case, FN_OPEN + FN_STUB):
            return
        objs.append(c)
        cdump = _gdump(c)
        check_manifest(rec, c, "real+2-stub-patches", case, expected_exts=ctx.exts, full=False, dump=cdump[1] if cdump[0] == "ok" else False)
        c.close()
        st, r = guarded(lambda: IH5MFRecord(ctx.rd / NAME, "r+"))
        if not rec.check(st == "ok", "c10:chain:real-open-rplus", f"cannot open the real record for patching: {r}", case, FN_OPEN):
            return
        objs.append(r)
        sr1 = _apply_update(r, u1)
        r.commit_patch()
        r.create_patch()
        sr2 = _apply_update(r, u2)
        r.commit_patch()
        ddump = _gdump(r)
        r.close()
        if rec.check((st1, st2) == (sr1, sr2), "c10:chain:status-differs", f"outcomes differ via stubs {st1, st2} vs directly {sr1, sr2}", case, FN_STUB):
            rec.check(cdump == ddump, "c10:chain:dump-mismatch", f"two stub-made patches vs direct: {_first_diff(cdump[1], ddump[1]) if cdump[0] == ddump[0] == 'ok' else (str(cdump)[:100], str(ddump)[:100])}", case, FN_STUB)
    finally:
        for o in objs:
            try:
                o.close(commit=False)
            except Exception:  # noqa
                pass
        for dp, before in ((ctx.sd, before_s), (ctx.rd, before_r)):
            for p in _new_files(dp, before):
                p.unlink()
        shutil.rmtree(sd2, ignore_errors=True)


# ---------------------------------------------------------------------------------------------------------
# contract (d): extension schedules
# ---------------------------------------------------------------------------------------------------------
EXT_CHOICES = {"-": None, "1": SL.E1, "2": SL.E2, "0": {}}


def run_exts_schedule(rec: Recorder, d: Path, schedule: str, reopen: bool):
    """schedule: one char per commit (base first): '-' nothing passed, '1'/'2' extension dicts, '0' explicit {}."""
    case = {"check": "exts", "schedule": schedule, "reopen": reopen}
    rd = d / f"exts-{schedule.replace('-', 'n')}-{int(reopen)}"
    rd.mkdir()
    robj = IH5MFRecord(rd / NAME, "x")
    cur = {}
    try:
        for i, ch in enumerate(schedule):
            robj[f"d{i}"] = i
            passed = EXT_CHOICES[ch]
            robj.commit_patch(**({"manifest_exts": passed} if passed is not None else {}))
            if passed is not None:
                cur = passed
            check_manifest(rec, robj, "sched-reopen" if reopen else "sched", dict(case, at=i), expected_exts=cur, full=False)
            if i < len(schedule) - 1:
                if reopen:
                    robj.close()
                    robj = IH5MFRecord(rd / NAME, "r+")
                else:
                    robj.create_patch()
        robj.close()
        robj = IH5MFRecord(rd / NAME, "r")
        rec.check(robj.manifest.manifest_exts == cur, "c10:d:exts:loaded", f"loaded manifest has exts {robj.manifest.manifest_exts}, expected {cur}", case, FN_COMMIT)
    finally:
        robj.close(commit=False) if robj else None
        shutil.rmtree(rd, ignore_errors=True)
    return cur


# ---------------------------------------------------------------------------------------------------------
# contract (c) at a location that was used before
# ---------------------------------------------------------------------------------------------------------
def run_recreate(rec: Recorder, d: Path, how: str):
    """A record created where an older record with a BIGGER manifest lived ('w' and delete_files remove the containers, the sidecars stay
    behind): after every commit the sidecar on disk still matches hash and uuid in its container and the record opens."""
    case = {"check": "recreate", "how": how}
    rd = d / f"recreate-{how}"
    rd.mkdir()
    robj = None
    try:
        robj = IH5MFRecord(rd / NAME, "x")
        for i in range(10):
            robj[f"group-{i}/dataset-{i}"] = i
            robj[f"group-{i}"].attrs[f"attribute-{i}"] = i
        robj.commit_patch(manifest_exts=SL.E2)
        robj.create_patch()
        for i in range(10):
            robj[f"more-{i}"] = i
        robj.commit_patch()
        robj.close()
        if how == "w":
            robj = IH5MFRecord(rd / NAME, "w")
        else:
            IH5MFRecord.delete_files(rd / NAME)
            robj = IH5MFRecord(rd / NAME, "x")
        robj["x"] = 1
        robj.commit_patch()
        check_manifest(rec, robj, f"recreated-{how}", dict(case, at=0), expected_exts={}, full=False)
        robj.create_patch()
        robj["y"] = 2
        robj.commit_patch()
        check_manifest(rec, robj, f"recreated-{how}", dict(case, at=1), expected_exts={}, full=False)
        robj.close()
        st, robj = guarded(lambda: IH5MFRecord(rd / NAME, "r"))
        if rec.check(st == "ok", f"c10:c:recreated-{how}:rejected", f"a record created where a bigger one lived before is rejected on open: {robj}", case, FN_COMMIT + FN_OPEN):
            rec.check(sorted(robj.keys()) == ["x", "y"], f"c10:c:recreated-{how}:view", f"the re-created record shows {sorted(robj.keys())}", case, FN_OPEN)
        else:
            robj = None
    finally:
        try:
            robj.close(commit=False) if robj else None
        except Exception:  # noqa
            pass
        shutil.rmtree(rd, ignore_errors=True)


# ---------------------------------------------------------------------------------------------------------
# driver
# ---------------------------------------------------------------------------------------------------------
LEN3_RECORDS = ("h03-patch", "h04-replace")
LEN2_QUICK_RECORDS = ("h03-patch", "h04-replace", "h05-regroup", "h06-attrs", "h07-deep4", "h09-exts3")  # the multi-patch ones


def run(tier: str, seed: int) -> dict:
    rec = Recorder("C10", "c10")
    t0 = time.time()
    thorough = tier == "thorough"
    limit_total = 560 if thorough else 55
    rnd = rng(seed, "c10")
    reached = {"records": 0, "merged": 0, "sched": 0, "len1": 0, "len2": 0, "len2_merged": 0, "len3": 0, "random": 0, "chains": 0}
    cut = []
    lim2 = None if thorough else 1  # max operations per operation class and state for |U| = 2 (None = full alphabet)
    lim3 = 1
    n_sched = 4 if thorough else 3

    def left(frac=1.0):
        return budget_left(t0, limit_total * frac)

    with tmpdir() as d:
        # ---- real records: (c),(d) per commit, (a) stub ---------------------------------------------------
        ctxs, merged = [], []
        for hname, hist in SL.DATA_HISTORIES.items():
            ctx = build_real(rec, d / hname, hname, hist)
            make_stub(rec, ctx)
            ctxs.append(ctx)
            reached["records"] += 1
            rec.case(("rec", hname), nontrivial=True,
                     sample={"record": hname, "containers": ctx.ncont, "nodes": len(ctx.struct), "exts": bool(ctx.exts)})
        if thorough:  # merged records as additional real records
            for ctx in ctxs:
                if ctx.ncont < 2:
                    continue
                m = merged_ctx(rec, ctx)
                if m is not None:
                    make_stub(rec, m)
                    merged.append(m)
                    reached["merged"] += 1
                    rec.case(("rec", m.hname), nontrivial=True)
        # ---- (c) at a location used before ---------------------------------------------------------------
        for how in ("w", "delete"):
            run_recreate(rec, d, how)
            rec.case(("recreate", how), nontrivial=True)
        # ---- (d) extension schedules --------------------------------------------------------------------
        for i, sched in enumerate("".join(t) for t in itertools.product(EXT_CHOICES, repeat=n_sched)):
            for reopen in ((False, True) if thorough else (bool(i % 2),)):
                cur = run_exts_schedule(rec, d, sched, reopen)
                rec.case(("sched", sched, reopen), nontrivial=any(ch in "12" for ch in sched[:-1]),
                         sample={"exts_schedule": sched, "reopen": reopen, "final_exts": cur} if i % 23 == 7 else None)
                reached["sched"] += 1

        def do(ctx, upd, **kw):
            changed, _ = run_update(rec, ctx, upd, **kw)
            rec.case(("upd", ctx.hname, digest(upd), digest(kw.get("exts_override"))), nontrivial=changed,
                     sample={"record": ctx.hname, "update": upd} if len(upd) > 1 and rnd.random() < 0.01 else None)

        def sweep(cs, length, lim, key, frac, **kw):
            for ctx in cs:
                for upd in SL.enumerate_updates(ctx.struct, length, lim):
                    if len(upd) != length:
                        continue
                    if not left(frac):
                        cut.append(f"|U|={length} ({key}) cut by the time budget at record {ctx.hname} after {reached[key]} cases")
                        return False
                    do(ctx, upd, **kw)
                    reached[key] += 1
            return True

        # ---- (d) through the stub route: override at the stub-made patch (inheritance is judged in every case) ------
        for ctx in ctxs + merged:
            do(ctx, [["setattr", "/", "zz", 1]], full=True, exts_override=SL.E2)
        # ---- (b) |U| = 1, full alphabet, all checks, also opened by record name ---------------------------------
        done1 = sweep(ctxs + merged, 1, None, "len1", 0.5, full=True, by_name=True)
        # ---- chains (stub made from a stub-made manifest) -----------------------------------------------------
        for ctx in ctxs + merged:
            if not left(0.6):
                break
            u1 = SL.random_update(ctx.struct, 2, rnd)
            m = SL.ExistModel(ctx.struct)
            for op in u1:
                m.apply(op)
            alpha = m.alphabet(limit=None)
            u2 = [rnd.choice(alpha)] if alpha else []
            run_chain(rec, ctx, u1, u2)
            rec.case(("chain", ctx.hname, digest([u1, u2])), nontrivial=True)
            reached["chains"] += 1
        # ---- (b) |U| = 2 ------------------------------------------------------------------------------------
        done2 = sweep(ctxs if thorough else [c for c in ctxs if c.hname in LEN2_QUICK_RECORDS], 2, lim2, "len2", 0.72 if thorough else 0.97)
        done3 = donem = None
        if thorough:
            donem = sweep(merged, 2, 1, "len2_merged", 0.79)
            # ---- |U| = 3 over the limited alphabet on three multi-container records ---------------------------
            done3 = sweep([c for c in ctxs if c.hname in LEN3_RECORDS], 3, lim3, "len3", 0.96)
            # ---- random longer updates --------------------------------------------------------------------
            while left(0.995) and reached["random"] < 250:
                ctx = rnd.choice(ctxs + merged)
                upd = SL.random_update(ctx.struct, rnd.randint(4, 8), rnd)
                do(ctx, upd, full=(reached["random"] % 10 == 0))
                reached["random"] += 1
    rec.notes += cut
    alpha2 = "full alphabet, all records" if lim2 is None else f"<= {lim2} op per operation class and state, records {','.join(LEN2_QUICK_RECORDS)}"
    bound = (f"{reached['records']} data histories (1-4 containers)" + (f" + {reached['merged']} merged variants" if thorough else "") + "; existence-based update histories: "
             f"|U|=1 full alphabet: {reached['len1']}{'' if done1 else ' (CUT)'}; |U|=2 ({alpha2}): {reached['len2']}{'' if done2 else ' (CUT)'}; "
             + (f"|U|=2 on merged variants (<= 1 per class): {reached['len2_merged']}{'' if donem else ' (CUT)'}; "
                f"|U|=3 (<= {lim3} per class, records {','.join(LEN3_RECORDS)}): {reached['len3']}{'' if done3 else ' (CUT)'}; random |U| in 4..8: {reached['random']}; " if thorough else "")
             + f"stub-of-stub chains: {reached['chains']}; extension schedules of {n_sched} commits over {{none,E1,E2,{{}}}}{' x reopen' if thorough else ''}: {reached['sched']}")
    return rec.result(
        rule="case = (data history, existence-based update history) [or (extension schedule, reopen?)]; distinct by history name + digest of the update; "
             "non-trivial iff the update changed the dump of the real record (schedules: an extension had to be inherited)",
        bound=bound,
        exhaustive=bool(done1 and done2 and done3 is not False and donem is not False),
        assumptions=["update operations are valid w.r.t. the existence model (create at fresh path, delete/setattr/delattr on existing), values are constants",
                     "the stub's own manifest extensions are not judged; only manifests that become part of the real record's chain",
                     "a case whose direct execution cannot be committed on the real record is skipped (antecedent false), see notes"],
        trusted=["h5py/HDF5 I/O", "hashlib.sha256, json", "rac.ih5lib dump through the public group protocol"],
        extra={"reached": reached},
    )


def merged_ctx(rec: Recorder, ctx: Ctx):
    """Merge the real record into a single container and use the result as another real record."""
    case = {"check": "merged", "hname": ctx.hname, "history": ctx.history}
    md = ctx.d.parent / (ctx.hname + "+merged")
    (md / "real").mkdir(parents=True)
    r = IH5MFRecord(ctx.rd / NAME, "r")
    try:
        st, val = guarded(lambda: r.merge_files(md / "real" / NAME))
    finally:
        r.close()
    if st != "ok":
        rec.notes.append(f"merge of {ctx.hname} failed: {val}")
        return None
    st, m = guarded(lambda: IH5MFRecord(md / "real" / NAME, "r"))
    if not rec.check(st == "ok", "c10:c:merged-does-not-open", f"merged IH5MFRecord does not open (manifest link?): {m}", case,
                     ["ih5/manifest.py:IH5MFRecord._fixes_after_merge"]):
        return None
    c = Ctx()
    c.hname, c.history, c.d, c.rd = ctx.hname + "+merged", ctx.history, md, md / "real"
    c.exts = ctx.exts
    c.dump = ih5lib.dump_tree(m)
    c.struct = SL.struct_of_dump(c.dump)
    c.skel = json.loads(IH5Skeleton.for_record(m).json())
    c.files = [Path(p) for p in m.ih5_files]
    c.mf = SL.manifest_path_for(c.files[-1])
    c.ncont = 1
    check_manifest(rec, m, "merged", case, expected_exts=ctx.exts, full=False, dump=c.dump)
    m.close()
    return c


# ---------------------------------------------------------------------------------------------------------
def replay(case: dict):
    rec = Recorder("C10", "c10", max_violations=50)
    kind = case.get("check")
    with tmpdir() as d:
        if kind == "exts":
            run_exts_schedule(rec, d, case["schedule"], case["reopen"])
        elif kind == "recreate":
            run_recreate(rec, d, case["how"])
        elif kind in ("record", "update", "chain", "merged"):
            hname = case["hname"]
            base_name = hname.replace("+merged", "")
            ctx = build_real(rec, d / base_name, base_name, case["history"], checks=(kind == "record"))
            if hname.endswith("+merged") or kind == "merged":
                ctx = merged_ctx(rec, ctx)
                if ctx is None:
                    return bool(rec.violations), "; ".join(v["what"] for v in rec.violations) or "merge failed"
            make_stub(rec, ctx, checks=(kind == "record"))
            if kind == "update":
                run_update(rec, ctx, case["update"], full=True, by_name=True, exts_override=case.get("exts_override"))
            elif kind == "chain":
                run_chain(rec, ctx, case["u1"], case["u2"])
        else:
            return False, f"unknown case kind {kind}"
    if rec.violations:
        return True, " | ".join(f"{v['signature']}: {v['what']}" for v in rec.violations[:3])
    return False, f"no violation in {rec.evaluations} contract evaluations"
