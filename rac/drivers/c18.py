"""C18 - directory diffs are exact and safely ordered (bounded tier driver).

Real code: metador_core.util.diff.DiffNode.compare / nodes / status, DirDiff.compare / is_empty / get / status / annotate.
Inputs: pairs of `DirHashsums`-shaped nested dicts (str = file "sha256:.." or symlink "symlink:..", dict = directory).

Oracle (written from the property statement, never calls the code under test):
  * is_empty  <=>  prev == curr
  * the listed paths are exactly the paths (root included) whose entry differs: present on one side only, or a
    file/symlink on both sides with different values, or file<->directory, or a directory on both sides with a
    differing descendant; each with status added (absent before) / removed (absent after) / modified and
    prev/curr equal to the old/new entry at that path; no path twice; no unchanged path
  * order safety: replaying nodes() in order on a copy of the old tree (remove: must exist and, if a directory, be
    empty by then; add: parent directory must exist by then and the path must not; modify/replace: must exist, a
    replaced directory must be empty by then) yields exactly the new tree
  * DirDiff.get(path) is the listed node for every listed path (Path and str argument) and None for unlisted ones
  * annotate(real dir): keys = diff paths (in nodes() order, first) + every other path existing in the directory
    (value None), all prefixed with the directory
"""
from __future__ import annotations

import rac.base as base  # noqa: F401
from rac.base import Recorder, digest, rng, tmpdir, watchdog

import copy
import itertools
import os
import time
from pathlib import Path

from metador_core.util.diff import DiffNode, DirDiff

F_CMP = "util/diff.py:DiffNode.compare"
F_NODES = "util/diff.py:DiffNode.nodes"
F_GET = "util/diff.py:DirDiff.get"
F_ANN = "util/diff.py:DirDiff.annotate"
F_STAT = "util/diff.py:DiffNode.status"

# ------------------------------------------------------------------ tree model / oracle


def lookup(tree, path):
    """Entry at path (tuple of names) or None if absent."""
    cur = tree
    for seg in path:
        if not isinstance(cur, dict) or seg not in cur:
            return None
        cur = cur[seg]
    return cur


def all_paths(tree, prefix=()):
    out = []
    if isinstance(tree, dict):
        for k, v in tree.items():
            out.append(prefix + (k,))
            out.extend(all_paths(v, prefix + (k,)))
    return out


def differs(ep, ec) -> bool:
    """The property's notion of a path whose entry was added, removed or changed."""
    if ep is None or ec is None:
        return not (ep is None and ec is None)
    pd, cd = isinstance(ep, dict), isinstance(ec, dict)
    if pd != cd:
        return True  # file <-> directory
    if not pd:
        return ep != ec  # two files/symlinks: different value
    return any(differs(ep.get(k), ec.get(k)) for k in set(ep) | set(ec))  # directory: some differing descendant


def kind_of(e):
    return "none" if e is None else "dir" if isinstance(e, dict) else "symlink" if e.startswith("symlink:") else "file"


def exp_status(ep, ec):
    return "added" if ep is None else "removed" if ec is None else "modified"


def expected_diff(p, c):
    exp = {}
    for path in set([()] + all_paths(p) + all_paths(c)):
        ep, ec = lookup(p, path), lookup(c, path)
        if differs(ep, ec):
            exp[path] = (exp_status(ep, ec), ep, ec)
    return exp


STATUS_NAME = {DiffNode.Status.added: "added", DiffNode.Status.removed: "removed", DiffNode.Status.modified: "modified", DiffNode.Status.unchanged: "unchanged"}


def simulate(old, nodes):
    """Replay the node list on a copy of the old tree. Returns (resulting tree, error-or-None)."""
    sim = copy.deepcopy(old)
    for nd in nodes:
        path = tuple(nd.path.parts)
        st = STATUS_NAME[nd.status()]
        if path == ():
            continue  # the root directory itself stays
        parent = lookup(sim, path[:-1])
        name = path[-1]
        if not isinstance(parent, dict):
            return sim, f"{st}:parent-directory-does-not-exist-at-that-time"
        if st == "removed":
            if name not in parent:
                return sim, "removed:path-does-not-exist-at-that-time"
            if isinstance(parent[name], dict) and parent[name]:
                return sim, "removed:directory-not-empty-at-that-time"
            del parent[name]
        elif st == "added":
            if name in parent:
                return sim, "added:path-exists-already"
            parent[name] = {} if isinstance(nd.curr, dict) else nd.curr
        else:
            if name not in parent:
                return sim, "modified:path-does-not-exist-at-that-time"
            cur = parent[name]
            if isinstance(nd.curr, dict):
                if not isinstance(cur, dict):
                    parent[name] = {}  # file replaced by a directory; its content is added afterwards
            else:
                if isinstance(cur, dict) and cur:
                    return sim, "modified:replaced-directory-not-empty-at-that-time"
                parent[name] = nd.curr
    return sim, None


EXTRA_PROBES = [("c",), ("a", "c"), ("a", "b", "c"), ("c", "a"), ("b", "a", "a")]


def check_pair(rec, p, c, tag="pair", deep=True):
    """All contract clauses on one (prev, curr) pair. Returns number of expected diff nodes."""
    case = {"prev": p, "curr": c}
    p_in, c_in = copy.deepcopy(p), copy.deepcopy(c)
    try:
        with watchdog(10):
            dd = DirDiff.compare(p_in, c_in)
            empty = dd.is_empty
            nodes = [] if empty else dd._diff_root.nodes()
    except Exception as e:  # noqa
        rec.violated(f"c18:compare-raises:{type(e).__name__}", f"DirDiff.compare raised {type(e).__name__}: {e}", case, [F_CMP])
        return 0
    same = p == c
    rec.check(empty is same, f"c18:is_empty:{'reported-empty-but-differ' if empty else 'reported-difference-but-equal'}",
              f"is_empty={empty!r} but prev == curr is {same}", case, [F_CMP])
    exp = expected_diff(p, c)
    assert bool(exp) == (not same), "oracle self-check"  # differs() agrees with dict equality at the root
    listed = {}
    for nd in nodes:
        path = tuple(nd.path.parts)
        rec.check(path not in listed, "c18:nodes:path-listed-twice", f"path {path} occurs twice in nodes()", case, [F_NODES])
        listed[path] = nd
    for path, (st, ep, ec) in exp.items():
        if path not in listed:
            rec.violated(f"c18:nodes:changed-path-not-reported:{kind_of(ep)}->{kind_of(ec)}", f"path {'/'.join(path) or '.'} {st} ({ep!r} -> {ec!r}) is not reported", case, [F_CMP, F_NODES])
            continue
        nd = listed[path]
        got = STATUS_NAME.get(nd.status())
        rec.check(got == st, f"c18:nodes:wrong-status:{st}-reported-{got}", f"path {'/'.join(path) or '.'}: status {got}, expected {st}", case, [F_STAT])
        rec.check(STATUS_NAME.get(dd.status(nd)) == st, f"c18:dirdiff-status:{st}", f"DirDiff.status(node) for {'/'.join(path) or '.'} != {st}", case, ["util/diff.py:DirDiff.status"])
        rec.check(nd.prev == ep and nd.curr == ec, f"c18:nodes:wrong-entries:{kind_of(ep)}->{kind_of(ec)}",
                  f"path {'/'.join(path) or '.'}: prev/curr {nd.prev!r}/{nd.curr!r}, expected {ep!r}/{ec!r}", case, [F_CMP])
    for path in listed:
        if path not in exp:
            rec.violated(f"c18:nodes:unchanged-path-reported:{kind_of(lookup(p, path))}", f"path {'/'.join(path) or '.'} is unchanged ({lookup(p, path)!r}) but reported", case, [F_CMP, F_NODES])
    # order safety
    if nodes:
        sim, err = simulate(p, nodes)
        rec.check(err is None, f"c18:order:{err}", f"processing nodes() in order: {err}; order {[str(n.path) for n in nodes]}", case, [F_NODES])
        if err is None:
            rec.check(sim == c, "c18:order:result-differs-from-new-tree", f"processing nodes() in order yields {sim!r}, expected {c!r}", case, [F_NODES, F_CMP])
    # lookup
    rec.check(dd.status(None) == DiffNode.Status.unchanged, "c18:dirdiff-status:none", "DirDiff.status(None) is not 'unchanged'", case, ["util/diff.py:DirDiff.status"])
    probes = set(all_paths(p)) | set(all_paths(c)) | set(EXTRA_PROBES) | {()}
    for path in probes:
        try:
            got = dd.get(Path(*path))
            got_s = dd.get("/".join(path)) if (deep and path) else got
        except Exception as e:  # noqa
            rec.violated(f"c18:get-raises:{type(e).__name__}", f"get({'/'.join(path)!r}) raised {type(e).__name__}: {e}", case, [F_GET])
            continue
        if path in listed:
            nd = listed[path]
            ok = got is not None and tuple(got.path.parts) == path and got.prev == nd.prev and got.curr == nd.curr and got.status() == nd.status()
            rec.check(ok, "c18:get:listed-path-not-found", f"get({'/'.join(path) or '.'!r}) = {got!r} does not agree with the listed node", case, [F_GET])
            rec.check(got_s is got or (got_s is not None and got is not None and got_s.path == got.path), "c18:get:str-vs-path", f"get(str) and get(Path) differ for {'/'.join(path)!r}", case, [F_GET])
        else:
            rec.check(got is None and got_s is None, "c18:get:unlisted-path-found", f"get({'/'.join(path) or '.'!r}) = {got!r} for a path not in the listing", case, [F_GET])
    return len(exp)


# ------------------------------------------------------------------ annotate on a real directory


def materialise(tree, d: Path):
    d.mkdir(exist_ok=True)
    for k, v in tree.items():
        if isinstance(v, dict):
            materialise(v, d / k)
        elif v.startswith("symlink:"):
            os.symlink(v[len("symlink:"):], d / k)
        else:
            (d / k).write_text(v)


def check_annotate(rec, p, c, root: Path, idx: int):
    case = {"prev": p, "curr": c, "annotate": True}
    bd = root / f"n{idx}"
    materialise(c, bd)
    dd = DirDiff.compare(copy.deepcopy(p), copy.deepcopy(c))
    with watchdog(10):
        ann = dd.annotate(bd)
    if dd.is_empty:
        note = "annotate() on an empty diff returns {} (the unchanged paths of the directory are not listed); outside the statement, not checked"
        if ann == {} and all_paths(c) and note not in rec.notes:
            rec.notes.append(note)
        return
    nodes = dd._diff_root.nodes()
    keys = list(ann.keys())
    exp_first = [bd / str(n.path) for n in nodes]
    rec.check(keys[: len(nodes)] == exp_first, "c18:annotate:diff-paths-not-first-in-nodes-order", f"annotate keys {list(map(str, keys))} do not start with the nodes() order {list(map(str, exp_first))}", case, [F_ANN])
    rec.check(all(ann.get(bd / str(n.path)) is n or ann.get(bd / str(n.path)) == n for n in nodes), "c18:annotate:wrong-node-value", "annotate value of a diff path is not its node", case, [F_ANN])
    listed = {tuple(n.path.parts) for n in nodes}
    others = {bd.joinpath(*q) for q in all_paths(c) if q not in listed}
    rest = keys[len(nodes):]
    rec.check(set(rest) == others and len(rest) == len(set(rest)), "c18:annotate:unchanged-paths", f"annotate lists {sorted(map(str, rest))} as remaining paths, expected {sorted(map(str, others))}", case, [F_ANN])
    rec.check(all(ann[k] is None for k in rest), "c18:annotate:unchanged-path-has-node", "an unchanged path is annotated with a node", case, [F_ANN])


def shape(tree):
    """What a snapshot of a materialised tree must look like up to the file hashes: same names, a dict per directory (also an EMPTY one),
    the link target per symlink, one value per distinct file content."""
    return {k: shape(v) if isinstance(v, dict) else v if v.startswith("symlink:") else "file:" + v for k, v in tree.items()}


def snapshot_shape(snap, content_of):
    return {k: snapshot_shape(v, content_of) if isinstance(v, dict) else v if v.startswith("symlink:") else "file:" + content_of.get(v, "?") for k, v in snap.items()}


def check_disk_pair(rec, p, c, root: Path, idx: int):
    """The documented use: both snapshots are taken by the library (dir_hashsums) from directories on disk. The producer must hand the diff a
    snapshot with an entry for every path of the directory -- the dict-level statements are then checked on the real snapshots."""
    from metador_core.util.hashsums import dir_hashsums, qualified_hashsum

    case = {"prev": p, "curr": c, "disk": True}
    snaps = []
    for side, t in (("p", p), ("c", c)):
        bd = root / f"d{idx}{side}"
        materialise(t, bd)
        try:
            with watchdog(10):
                sn = dir_hashsums(bd)
        except Exception:  # noqa  (what the producer refuses is C19's subject)
            return 0
        contents = {v for q in all_paths(t) for v in [lookup(t, q)] if isinstance(v, str) and not v.startswith("symlink:")}
        content_of = {qualified_hashsum(v.encode("utf-8")): v for v in contents}
        rec.check(snapshot_shape(sn, content_of) == shape(t), "c18:disk:snapshot-misses-or-invents-paths", f"dir_hashsums of the materialised tree {t} is {sn}: not one entry per path with its kind", case, ["util/hashsums.py:dir_hashsums"])
        snaps.append(sn)
    return check_pair(rec, snaps[0], snaps[1], tag="disk", deep=False)


# ------------------------------------------------------------------ enumeration

NAMES = ("a", "b")
LEAVES3 = ["sha256:1", "sha256:2", "symlink:a"]


def level_dirs(sub):
    opts = [None] + list(sub)
    out = []
    for combo in itertools.product(opts, repeat=len(NAMES)):
        out.append({n: copy.deepcopy(v) for n, v in zip(NAMES, combo) if v is not None})
    return out


def tree_space(leaves):
    d1 = level_dirs(leaves)  # directories containing only leaves
    return level_dirs(list(leaves) + d1)  # root: each name absent / leaf / depth-1 directory


RNAMES = ["a", "b", "c", "dd", "e.f", "a b", "aa"]
RLEAVES = ["sha256:1", "sha256:2", "sha256:3", "symlink:a", "symlink:b/c", "symlink:dd"]


def rand_tree(R, depth, width=4):
    t = {}
    for n in R.sample(RNAMES, R.randint(0, width)):
        if depth > 0 and R.random() < 0.45:
            t[n] = rand_tree(R, depth - 1, width)
        else:
            t[n] = R.choice(RLEAVES)
    return t


def rand_dir_ref(R, t):
    """A random directory inside t (as list of dict objects reachable), including the root."""
    dirs = [t]
    stack = [t]
    while stack:
        d = stack.pop()
        for v in d.values():
            if isinstance(v, dict):
                dirs.append(v)
                stack.append(v)
    return R.choice(dirs)


def mutate(R, t):
    t = copy.deepcopy(t)
    for _ in range(R.randint(1, 4)):
        d = rand_dir_ref(R, t)
        op = R.choice(["del", "add-leaf", "add-dir", "change", "file->dir", "dir->file", "dir->emptydir"])
        keys = list(d)
        if op == "del" and keys:
            del d[R.choice(keys)]
        elif op == "add-leaf":
            d[R.choice(RNAMES)] = R.choice(RLEAVES)
        elif op == "add-dir":
            d[R.choice(RNAMES)] = rand_tree(R, 2, 3)
        elif op == "change" and keys:
            k = R.choice(keys)
            if not isinstance(d[k], dict):
                d[k] = R.choice([x for x in RLEAVES if x != d[k]])
        elif op == "file->dir" and keys:
            k = R.choice(keys)
            if not isinstance(d[k], dict):
                d[k] = rand_tree(R, 2, 3)
        elif op == "dir->file" and keys:
            k = R.choice(keys)
            if isinstance(d[k], dict):
                d[k] = R.choice(RLEAVES)
        elif op == "dir->emptydir" and keys:
            k = R.choice(keys)
            if isinstance(d[k], dict):
                d[k] = {}
    return t


def run(tier: str, seed: int) -> dict:
    rec = Recorder("C18", "c18", max_violations=30)
    t0 = time.time()
    quick = tier == "quick"
    bounds = []
    complete = True

    # (1) exhaustive small scope
    full = tree_space(LEAVES3)  # 400 trees
    if quick:
        small = tree_space(["sha256:1", "symlink:a"])  # 144 trees
        n = 0
        for p in small:
            for c in small:
                k = check_pair(rec, p, c)
                rec.case(("pair", digest(p), digest(c)), nontrivial=k > 0, sample={"prev": p, "curr": c} if n == 3001 else None)
                n += 1
        bounds.append(f"all {n} ordered pairs of the {len(small)} trees with names {{a,b}}, depth <= 2, 2 leaf values {{sha256:1, symlink:a}}")
        # strided part of the full 3-leaf space within the budget
        # a fixed, evenly spread subset: pair index (t * 104729) mod 160000 (104729 is prime and coprime to 400^2), so a
        # budget stop still leaves a uniform sample of the whole pair space
        budget = t0 + 38
        NN = len(full) ** 2
        n2, want = 0, NN // 10
        stopped = False
        for t in range(want):
            if t % 256 == 0 and time.time() > budget:
                stopped = True
                break
            i, j = divmod((t * 104729) % NN, len(full))
            p, c = full[i], full[j]
            k = check_pair(rec, p, c, deep=False)
            rec.case(("pair", digest(p), digest(c)), nontrivial=k > 0)
            n2 += 1
        bounds.append(f"{n2} of the {NN} ordered pairs with 3 leaf values, pair index (t*104729) mod {NN} for t < {n2} ({'budget stop' if stopped else 'planned tenth of the space'})")
        complete = False  # quick tier does not cover the full 3-leaf pair space
    else:
        budget = t0 + 420
        n, stopped = 0, False
        for i, p in enumerate(full):
            if time.time() > budget:
                stopped = True
                break
            for c in full:
                k = check_pair(rec, p, c)
                rec.case(("pair", digest(p), digest(c)), nontrivial=k > 0, sample={"prev": p, "curr": c} if n == 70001 else None)
                n += 1
        complete = not stopped
        bounds.append(f"{n} ordered pairs of the {len(full)} trees with names {{a,b}}, depth <= 2, 3 leaf values ({'complete' if complete else 'budget stop'})")

    # (2) direct DiffNode.compare with None sides / non-root path (the recursion's contract)
    nd = 0
    for t in full[:: (8 if quick else 1)]:
        for prev, curr in ((None, t), (t, None), ("sha256:9", t), (t, "sha256:9")):
            case = {"direct": True, "prev": prev, "curr": curr}
            node = DiffNode.compare(copy.deepcopy(prev), copy.deepcopy(curr), Path("x/y"))
            sub = t
            exp_paths = {("x", "y")} | {("x", "y") + q for q in all_paths(sub)}
            got_paths = [tuple(n_.path.parts) for n_ in node.nodes()] if node is not None else []
            rec.check(set(got_paths) == exp_paths and len(got_paths) == len(exp_paths), "c18:direct:paths", f"DiffNode.compare({prev!r}, {curr!r}, 'x/y') lists {got_paths}, expected {sorted(exp_paths)}", case, [F_CMP])
            if node is not None:
                want = "added" if prev is None else "removed" if curr is None else None
                for n_ in node.nodes():
                    pth = tuple(n_.path.parts)
                    if pth == ("x", "y"):
                        st = exp_status(prev, curr)
                    else:
                        st = "added" if isinstance(curr, dict) else "removed"
                    rec.check(STATUS_NAME[n_.status()] == st, f"c18:direct:status:{st}", f"{'/'.join(pth)}: status {n_.status()!r}, expected {st}", case, [F_CMP, F_STAT])
            rec.case(("direct", digest([prev, curr])))
            nd += 1
    bounds.append(f"{nd} direct DiffNode.compare calls with an absent/file side at a non-root path")

    # (3) seeded random larger trees
    R = rng(seed, "c18-random")
    nr = 0
    t_rand = time.time() + (10 if quick else 90)
    target = 1500 if quick else 40000
    while nr < target and time.time() < t_rand:
        a = rand_tree(R, R.randint(1, 4))
        mode = nr % 4
        b = mutate(R, a) if mode in (0, 1) else rand_tree(R, R.randint(1, 4)) if mode == 2 else copy.deepcopy(a)
        k = check_pair(rec, a, b, tag="random")
        rec.case(("rand", digest(a), digest(b)), nontrivial=k > 0, sample={"prev": a, "curr": b} if nr == 5 else None)
        nr += 1
    bounds.append(f"{nr} seeded random pairs (names {RNAMES}, depth <= 5, mutated / independent / identical)")

    # (4) annotate on real directories
    na = 0
    with tmpdir() as td:
        R2 = rng(seed, "c18-annotate")
        cand = full
        for _ in range(150 if quick else 1500):
            if R2.random() < 0.7:
                p, c = R2.choice(cand), R2.choice(cand)
            else:
                p = rand_tree(R2, 3)
                c = mutate(R2, p)
            try:
                check_annotate(rec, p, c, td, na)
            except Exception as e:  # noqa
                rec.violated(f"c18:annotate:raises:{type(e).__name__}", f"annotate raised {type(e).__name__}: {e}", {"prev": p, "curr": c, "annotate": True}, [F_ANN])
            rec.case(("annotate", digest(p), digest(c)), nontrivial=p != c)
            na += 1
    bounds.append(f"{na} annotate() calls on materialised new trees")

    # (5) snapshots taken by the library itself from directories on disk (empty directories, file <-> directory replacements included)
    ndk = 0
    with tmpdir() as td:
        R3 = rng(seed, "c18-disk")
        lo = tree_space(["sha256:1"])  # symlink-free: every materialised tree is inside what dir_hashsums accepts
        for i in range(120 if quick else 1200):
            if i < len(lo):
                p, c = lo[i], lo[(i * 7 + 3) % len(lo)]
            else:
                p, c = R3.choice(lo), R3.choice(lo)
            try:
                k = check_disk_pair(rec, p, c, td, ndk)
            except Exception as e:  # noqa
                rec.violated(f"c18:disk:raises:{type(e).__name__}", f"diff of two library-made snapshots raised {type(e).__name__}: {e}", {"prev": p, "curr": c, "disk": True}, [F_CMP])
                k = 0
            rec.case(("disk", digest(p), digest(c)), nontrivial=k > 0)
            ndk += 1
    bounds.append(f"{ndk} pairs of directories on disk snapshotted by dir_hashsums (names {{a,b}}, depth <= 2, empty directories included)")

    return rec.result(
        rule="a case is an ordered pair (prev, curr) of snapshot trees (distinct by content); non-trivial = the trees differ (at least one expected diff node)",
        bound=" | ".join(bounds),
        exhaustive=complete,
        assumptions=["DirHashsums well-formedness: keys are single non-empty path segments, leaf values are non-empty strings"],
        trusted=["Python dict/str equality as the meaning of 'equal snapshots'"],
    )


def replay(case: dict):
    rec = Recorder("C18", "c18", max_violations=50)
    if case.get("direct"):
        node = DiffNode.compare(case["prev"], case["curr"], Path("x/y"))
        t = case["prev"] if isinstance(case["prev"], dict) else case["curr"]
        exp_paths = {("x", "y")} | {("x", "y") + q for q in all_paths(t)}
        got = [tuple(n_.path.parts) for n_ in node.nodes()] if node is not None else []
        bad = set(got) != exp_paths or len(got) != len(exp_paths)
        return bad, f"listed {got}, expected {sorted(exp_paths)}"
    if case.get("annotate"):
        with tmpdir() as td:
            check_annotate(rec, case["prev"], case["curr"], td, 0)
    elif case.get("disk"):
        with tmpdir() as td:
            check_disk_pair(rec, case["prev"], case["curr"], td, 0)
    else:
        check_pair(rec, case["prev"], case["curr"])
    if rec.violations:
        return True, "; ".join(f"{v['signature']}: {v['what']}" for v in rec.violations[:3])
    return False, f"{rec.evaluations} contract evaluations hold"
