"""C14 - merging partial metadata is a lossless, associative, non-mutating monoid (bounded tier).

Spec function ``m(a, b, ow)`` (written from the property statement and the docstring table of partial.py, over a
structural *content* view that this driver extracts itself from the operands' ``__dict__`` graphs):
    m(None, b) = b, m(a, None) = a                   for every a, b (also falsy ones)
    lists concatenate in order, sets unite
    models whose classes are related by inheritance merge field-wise recursively (class of the left one)
    anything else (scalars, unrelated classes): ow ? b : conflict (ValueError); two EQUAL values without ow
    may either raise ValueError or be kept (nothing is lost either way)
Laws checked on the real ``P.merge`` / ``merge_with`` / ``to_partial`` / ``from_partial`` / ``harvest``:
identity with the empty partial, agreement with ``m`` (so nothing provided is dropped, later wins with ow,
ValueError exactly on conflicts), associativity where neither side raises and the classes at each nested
position form a chain, operands never mutated, round trip complete -> partial -> complete.
Partials are obtained in every way the library offers: parse_obj / parse_raw(JSON) / parse_raw(YAML) /
constructor with nested partial instances / to_partial + cast of complete objects / to_partial(dict,
ignore_invalid) / metadata_loader harvesters reading (sidecar) files / custom Harvester / harvest() fold.
"""
from __future__ import annotations

import copy
import itertools
import json
import time
from pathlib import Path

import rac.base
from rac import schemalib as sl
from rac.base import Recorder, budget_left, canon, digest, rng, tmpdir, watchdog

from pydantic import BaseModel  # noqa: E402

FNS = ["schema/partial.py:PartialModel._update_field", "schema/partial.py:PartialModel.merge_with", "schema/partial.py:PartialModel.merge"]
FNS_CONV = ["schema/partial.py:PartialModel.to_partial", "schema/partial.py:PartialModel.from_partial", "schema/core.py:PartialSchemas._get_field_vals"]
FNS_HARV = ["harvester/__init__.py:harvest", "harvester/__init__.py:metadata_loader"] + FNS

FAMILY = [
    {"name": "Base", "fields": [["x", ["Optional", "Int"]], ["t", ["Optional", "Str"]]]},
    {"name": "Mid", "base": "Base", "fields": [["y", ["Optional", "Int"]], ["l", ["Optional", ["List", "Int"]]]]},
    {"name": "Kid", "base": "Mid", "fields": [["z", ["Optional", "Bool"]]]},
    {"name": "Rec", "const": {"schemaVersion": 0, "deprecated": False},  # falsy constant values: constants are skipped by NAME, whatever their value
     "fields": [["v", ["Optional", "Int"]], ["tags", ["Optional", ["Set", "Str"]]], ["nxt", ["Optional", ["Schema", "Rec"]]]]},
    {"name": "Top", "ld": {"context": "https://example.com/ctx", "type": "Top"},
     "fields": [["i", ["Optional", "Int"]], ["b", ["Optional", "Bool"]], ["fl", ["Optional", "Float"]], ["s", ["Optional", "Str"]],
                ["e", ["Optional", ["Literal", "", "a"]]], ["q", ["Optional", "PintQuantity"]],
                ["li", ["Optional", ["List", "Int"]]], ["ls", ["List", "Str"]], ["si", ["Optional", ["Set", "Int"]]], ["ss", ["Set", "Str"]],
                ["c", ["Optional", ["Schema", "Base"]]], ["r", ["Optional", ["Schema", "Rec"]]], ["ln", ["Optional", ["List", ["Schema", "Base"]]]]]},
    {"name": "TopReq", "fields": [["req", "Int"], ["name", "NonEmptyStr"], ["n", ["Schema", "Mid"]], ["o", ["Optional", "Float"]],
                                  ["tags", ["Set", "Int"]]]},
]  # fmt: skip

# value descriptions of Top partials; "__cls__" selects the class at the chain position (honoured by object-based ways)
DESCS = [
    {},
    {"i": 0}, {"b": False}, {"fl": 0.0}, {"e": ""}, {"li": []}, {"si": []}, {"q": "0 meter"}, {"ls": []}, {"ss": []},
    {"i": 5}, {"i": 7}, {"b": True}, {"s": "a"}, {"s": "b"}, {"e": "a"}, {"fl": 1.5}, {"q": "5 meter"},
    {"li": [1, 2]}, {"li": [2, 1]}, {"si": [1, 2]}, {"si": [2, 3]}, {"ls": ["x"]}, {"ls": ["y", "x"]}, {"ss": ["x", "y"]}, {"ss": ["z"]},
    {"c": {}}, {"c": {"x": 1}}, {"c": {"x": 0}}, {"c": {"t": "a"}}, {"c": {"__cls__": "Mid", "y": 2, "l": [1]}}, {"c": {"__cls__": "Mid", "l": []}},
    {"c": {"__cls__": "Kid", "z": False}}, {"c": {"__cls__": "Kid", "x": 1, "z": True, "l": [2]}},
    {"r": {"v": 1}}, {"r": {"v": 0, "tags": []}}, {"r": {"nxt": {"v": 2}}}, {"r": {"tags": ["a"], "nxt": {"tags": ["b"], "nxt": {"v": 0}}}},
    {"ln": []}, {"ln": [{"x": 1}]}, {"ln": [{"t": "a"}, {"__cls__": "Kid", "z": True}]},
    {"i": 0, "b": False, "li": [], "c": {"x": 0}, "e": ""},
    {"i": 5, "s": "a", "li": [3], "si": [9], "c": {"__cls__": "Kid", "t": "q"}, "r": {"v": 3}, "ls": ["k"], "ss": ["k"]},
    {"fl": 0.0, "si": [], "ls": [], "ss": [], "c": {"__cls__": "Mid", "y": 0}, "r": {"nxt": {"tags": []}}, "ln": [{"x": 0}]},
]  # fmt: skip
CORE = [0, 1, 2, 5, 6, 10, 11, 13, 18, 19, 20, 27, 28, 29, 30, 32, 33, 34, 36, 39, 41, 42]  # indices used for exhaustive triples in quick

WAYS = ["obj", "json", "yaml", "objp", "ctor", "full", "cast", "ign", "file", "sidecar", "harvester"]
WAYS_TAGGED = ["objp", "ctor", "full", "cast", "harvester"]  # ways that can carry a subclass at the chain position


# --------------------------------------------------------------------------------------------------
# building operands


def strip(d):
    if isinstance(d, dict):
        return {k: strip(v) for k, v in d.items() if k != "__cls__"}
    if isinstance(d, list):
        return [strip(v) for v in d]
    return d


def has_tags(d) -> bool:
    if isinstance(d, dict):
        return "__cls__" in d or any(has_tags(v) for v in d.values())
    if isinstance(d, list):
        return any(has_tags(v) for v in d)
    return False


def _nested(K, d, fam, mode):
    """Instance of K (or of the tagged subclass) from description d. mode: 'pctor' | 'pparse' | 'complete'."""
    cls = fam[d["__cls__"]] if (isinstance(d, dict) and "__cls__" in d and fam) else K
    kw = {}
    for k, v in d.items():
        if k == "__cls__":
            continue
        fld = cls.__fields__.get(k)
        T = fld.type_ if fld is not None else None
        if isinstance(T, type) and issubclass(T, BaseModel):
            if isinstance(v, dict):
                v = _nested(T, v, fam, mode)
            elif isinstance(v, list):
                v = [_nested(T, e, fam, mode) if isinstance(e, dict) else e for e in v]
        kw[k] = v
    if mode == "pctor":
        return cls.Partial(**kw)
    if mode == "pparse":
        return cls.Partial.parse_obj(kw)
    return cls.parse_obj(kw)


def _complete_desc(S, d):
    """Fill the required collection fields so that a complete object can exist (content changes accordingly)."""
    d = dict(d)
    for name, f in S.__fields__.items():
        if f.required and (f.alias or name) not in d and name not in d:
            origin = getattr(f.outer_type_, "__origin__", None)
            if origin in (list, set):
                d[name] = []
            else:
                return None
    return d


class Ctx:
    """Schema under test + scratch dir + harvester plumbing."""

    def __init__(self, S, fam, tmp: Path):
        self.S, self.fam, self.tmp = S, fam, tmp
        self.P = S.Partial
        self.nfile = itertools.count()
        self._hv = None

    def harvester_cls(self):
        if self._hv is None:
            from metador_core.harvester import Harvester

            table = self.table = {}

            class TableHarvester(Harvester):
                """Custom harvester returning prepared (partial or complete) metadata objects."""

                class Args(Harvester.Args):
                    idx: int

                def run(self):
                    return table[self.args.idx]

            self._hv = TableHarvester
        return self._hv

    def operand(self, d, way):
        """Build one partial in the given way (raises if the way is not applicable / input invalid)."""
        from metador_core.harvester import def_sidecar_func, metadata_loader

        S, P, fam = self.S, self.P, self.fam
        plain = strip(d)
        if way == "obj":
            return P.parse_obj(plain)
        if way == "json":
            return P.parse_raw(json.dumps(plain))
        if way == "yaml":
            return P.parse_raw(sl.yaml_dump(plain)) if plain else P.parse_raw("{}")
        if way == "ign":
            return P.to_partial(plain, ignore_invalid=True)
        if way == "objp":
            return _nested(S, d, fam, "pparse")  # parse_obj of a dict holding nested partial instances
        if way == "ctor":
            return _nested(S, d, fam, "pctor")
        if way in ("full", "cast", "harvester"):
            cd = _complete_desc(S, d)
            if cd is None:
                raise ValueError("no complete object for this description")
            o = _nested(S, cd, fam, "complete")
            if way == "full":
                return P.to_partial(o)
            if way == "cast":
                return P.cast(o)
            hv = self.harvester_cls()
            idx = len(self.table)
            self.table[idx] = o  # the harvester returns the complete object; the pipeline casts it
            return P.cast(hv(idx=idx).harvest())
        if way in ("file", "sidecar"):
            n = next(self.nfile)
            if way == "file":
                path = self.tmp / f"m{n}.yaml"
                path.write_text(sl.yaml_dump(plain) if plain else "{}\n", encoding="utf-8")
                return metadata_loader(S)(filepath=path).harvest()
            data = self.tmp / f"data{n}.bin"
            data.write_bytes(b"x")
            def_sidecar_func(data).write_text(sl.yaml_dump(plain) if plain else "{}\n", encoding="utf-8")
            return metadata_loader(S, use_sidecar=True)(filepath=data).harvest()
        raise ValueError(way)


# --------------------------------------------------------------------------------------------------
# content view + spec


def src_class(v):
    return getattr(type(v), "__partial_src__", None) or type(v)


def content(v):
    if isinstance(v, BaseModel):
        consts = getattr(type(v), "__constants__", None) or {}
        return ("M", src_class(v), {k: content(x) for k, x in v.__dict__.items() if not k.startswith("_") and x is not None and k not in consts})
    if isinstance(v, list):
        return ("L", [content(x) for x in v])
    if isinstance(v, (set, frozenset)):
        return ("S", frozenset(_h(content(x)) for x in v))
    return ("V", type(v).__name__, v)


def _h(c):
    if c[0] == "V":
        try:
            hash(c[2])
            return c
        except TypeError:
            return ("V", c[1], repr(c[2]))
    return ("X", cshow(c))


def cshow(c):
    """JSON-ish rendering of a content value (for messages / comparison of nested structures)."""
    if c is None:
        return None
    if c[0] == "M":
        return {"<" + c[1].__name__.split("_")[0] + ">": {k: cshow(v) for k, v in sorted(c[2].items())}}
    if c[0] == "L":
        return [cshow(x) for x in c[1]]
    if c[0] == "S":
        return {"set": sorted((repr(x[2]) if x[0] == "V" else str(x[1])) for x in c[1])}
    if c[0] == "X":
        return c[1]
    return f"{c[1]}:{c[2]!r}"


def ceq(a, b) -> bool:
    if a is None or b is None:
        return a is b
    if a[0] != b[0]:
        return False
    if a[0] == "M":
        return a[1] is b[1] and set(a[2]) == set(b[2]) and all(ceq(a[2][k], b[2][k]) for k in a[2])
    if a[0] == "L":
        return len(a[1]) == len(b[1]) and all(ceq(x, y) for x, y in zip(a[1], b[1]))
    if a[0] == "S":
        return a[1] == b[1]
    try:
        return a[1] == b[1] and bool(a[2] == b[2])
    except Exception:
        return False


class Conflict(Exception):
    pass


class St:
    def __init__(self):
        self.soft = False  # an equal-value "conflict" occurred (raising ValueError is acceptable, so is keeping it)
        self.unrelated = False
        self.recursed = False


def related(a, b) -> bool:
    return issubclass(a, b) or issubclass(b, a)


def m(a, b, ow: bool, st: St):
    if a is None:
        return b
    if b is None:
        return a
    if a[0] == "L" and b[0] == "L":
        return ("L", a[1] + b[1])
    if a[0] == "S" and b[0] == "S":
        return ("S", a[1] | b[1])
    if a[0] == "M" and b[0] == "M":
        if related(a[1], b[1]):
            st.recursed = True
            keys = list(a[2]) + [k for k in b[2] if k not in a[2]]
            return ("M", a[1], {k: m(a[2].get(k), b[2].get(k), ow, st) for k in keys})
        st.unrelated = True
    if ow:
        return b
    if ceq(a, b):
        st.soft = True
        return a
    raise Conflict()


def m_top(a, b, ow, st):
    """Top-level merge of two partials of the same partial class: always field-wise."""
    keys = list(a[2]) + [k for k in b[2] if k not in a[2]]
    return ("M", a[1], {k: m(a[2].get(k), b[2].get(k), ow, st) for k in keys})


def positions(c, path=()):
    """path -> class of the model found there (no descent into lists/sets: they are never merged element-wise)."""
    out = {}
    if c is not None and c[0] == "M":
        out[path] = c[1]
        for k, v in c[2].items():
            out.update(positions(v, path + (k,)))
    return out


def chain_ok(*cs) -> bool:
    pos = [positions(c) for c in cs]
    for path in set().union(*pos):
        classes = [p[path] for p in pos if path in p]
        for a, b in itertools.combinations(classes, 2):
            if not related(a, b):
                return False
    return True


def snap(v, depth=0):
    """Deep structural snapshot of an operand's object graph (ids included) to detect mutation."""
    if isinstance(v, BaseModel):
        return ("M", type(v).__name__, id(v), {k: snap(x, depth + 1) for k, x in v.__dict__.items()}, sorted(v.__fields_set__))
    if isinstance(v, list):
        return ("L", id(v), [snap(x, depth + 1) for x in v])
    if isinstance(v, (set, frozenset)):
        return ("S", id(v), sorted(repr(snap(x, depth + 1)) for x in v))
    return ("V", type(v).__name__, repr(v))


# --------------------------------------------------------------------------------------------------
# law checks


class Laws:
    def __init__(self, rec: Recorder, ctx: Ctx, label: str, sref: dict):
        self.rec, self.ctx, self.label, self.sref = rec, ctx, label, sref
        self.P = ctx.P
        self.n_merge = 0
        self.n_assoc = 0
        self.n_assoc_skipped = 0

    def _case(self, law, ops, ow=None):
        return {"schema": self.sref, "law": law, "ops": [{"d": d, "way": w} for d, w in ops], "ow": ow}

    def _shape(self, ops):
        """Stable description of the operand shapes for signatures: which kinds of values meet."""
        ways = "+".join(sorted({("parsed" if w in ("obj", "json", "yaml", "ign", "file", "sidecar", "objp") else "ctor" if w == "ctor" else "converted") for _, w in ops}))
        return ways

    def merge2(self, x, y, ow: bool, ops, law="merge", via="merge"):
        """Binary oracle: real merge of (x, y) against m; returns the real result or None if it raised."""
        rec, P = self.rec, self.P
        cx, cy = content(x), content(y)
        st = St()
        try:
            exp = m_top(cx, cy, ow, st)
        except Conflict:
            exp = Conflict
        sx, sy = snap(x), snap(y)
        dx, dy = copy.deepcopy(x.dict()), copy.deepcopy(y.dict())
        res, err = None, None
        try:
            with watchdog(10):
                res = P.merge(x, y, allow_overwrite=ow) if via == "merge" else x.merge_with(y, allow_overwrite=ow)
        except Exception as e:
            err = e
        self.n_merge += 1
        case = self._case(law, ops, ow)
        kinds = self._kinds(cx, cy)
        # operands untouched
        same = snap(x) == sx and snap(y) == sy and x.dict() == dx and y.dict() == dy
        rec.check(same, "c14:operand-mutated:merge", f"{self.label}: merge(x, y, allow_overwrite={ow}) changed an operand: x={sl.short(repr(dx), 100)} y={sl.short(repr(dy), 100)}", case=case, fns=FNS)
        if exp is Conflict:
            ok = isinstance(err, ValueError)
            rec.check(ok, f"c14:conflict-not-raised:{type(err).__name__ if err else 'returned'}",
                      f"{self.label}: conflicting merge without overwrite must raise ValueError (no value may be lost): x={sl.short(repr(dx), 90)} y={sl.short(repr(dy), 90)} -> "
                      f"{('raised ' + type(err).__name__ + ': ' + sl.short(str(err), 80)) if err else 'returned ' + sl.short(repr(res.dict()), 100)}",
                      case=case, fns=FNS)  # fmt: skip
            return None
        if err is not None:
            if st.soft and isinstance(err, ValueError):
                rec.check(True, "", "")
                return None
            rec.check(False, f"c14:merge-raises:{type(err).__name__}:{'nested-model' if 'model' in kinds else 'flat'}",
                      f"{self.label}: conflict-free merge(x, y, allow_overwrite={ow}) must return {sl.short(json.dumps(cshow(exp), default=repr), 120)} but raised "
                      f"{type(err).__name__}: {sl.short(str(err).replace(chr(10), ' '), 110)}; x={sl.short(repr(dx), 90)} y={sl.short(repr(dy), 90)} (operands: {self._shape(ops)})",
                      case=case, fns=FNS + ["schema/partial.py:PartialFactory.get_partial"])  # fmt: skip
            return None
        got = content(res)
        ok = ceq(got, exp) and type(res) is P
        if not ok:
            lost = self._diff(exp, got)
            rec.check(False, f"c14:merge-result-differs:{lost[0]}",
                      f"{self.label}: merge(x, y, allow_overwrite={ow}) = {sl.short(json.dumps(cshow(got), default=repr), 130)}, expected {sl.short(json.dumps(cshow(exp), default=repr), 130)} "
                      f"({lost[1]}); x={sl.short(repr(dx), 90)} y={sl.short(repr(dy), 90)}",
                      case=case, fns=FNS)  # fmt: skip
            return res
        rec.check(True, "", "")
        return res

    def _kinds(self, cx, cy) -> str:
        """Which kinds of values meet in the operands (falsy scalar / collection / nested ...)."""
        ks = set()
        for c in (cx, cy):
            for k, v in c[2].items():
                ks.add(_kind(v))
        both = set(cx[2]) & set(cy[2])
        tag = "overlap" if both else "disjoint"
        return tag + ":" + ",".join(sorted(ks))

    def _diff(self, exp, got):
        if got is None or got[0] != "M" or exp[0] != "M":
            return ("shape", "different shape")
        for k in exp[2]:
            if k not in got[2]:
                return (f"dropped-{_dkind(exp[2][k])}", f"provided value of field {k!r} was dropped")
        for k in exp[2]:
            if not ceq(exp[2][k], got[2][k]):
                if exp[2][k][0] == "M" and got[2][k][0] == "M" and exp[2][k][1] is got[2][k][1]:
                    sub = self._diff(exp[2][k], got[2][k])
                    return ("nested-" + sub[0].replace("nested-", ""), f"in {k!r}: {sub[1]}")
                return (f"wrong-{_dkind(exp[2][k])}", f"field {k!r} differs")
        return ("extra", "unexpected extra fields " + ",".join(sorted(set(got[2]) - set(exp[2]))))

    # ---- laws ----------------------------------------------------------------------------------
    def identity(self, x, op):
        rec, P = self.rec, self.P
        e = P()
        for side, a, b in (("left", e, x), ("right", x, e)):
            for ow in (False, True):
                ops = [({}, "ctor-empty"), op] if side == "left" else [op, ({}, "ctor-empty")]
                sx = snap(x)
                try:
                    with watchdog(10):
                        r = P.merge(a, b, allow_overwrite=ow)
                    ok = r.dict() == x.dict() and ceq(content(r), content(x)) and type(r) is P
                    detail = f"got {sl.short(repr(r.dict()), 120)}"
                except Exception as ex:
                    r = None
                    ok, detail = False, f"raised {type(ex).__name__}: {sl.short(str(ex), 100)}"
                why = "raised" if detail.startswith("raised") else (self._diff(content(x), content(r))[0] if not ok else "")
                rec.check(ok, f"c14:identity-{side}:{why}",
                          f"{self.label}: merge({'∅, x' if side == 'left' else 'x, ∅'}) must equal x={sl.short(repr(x.dict()), 120)}; {detail}",
                          case={"schema": self.sref, "law": "identity", "ops": [{"d": op[0], "way": op[1]}], "ow": ow}, fns=FNS)  # fmt: skip
                rec.check(snap(x) == sx, f"c14:operand-mutated:identity", f"{self.label}: identity merge mutated x", case=self._case("identity", [op], ow), fns=FNS)
        # merge of one / zero operands
        try:
            ok = P.merge(x).dict() == x.dict() and P.merge().dict() == P().dict()
        except Exception:
            ok = False
        rec.check(ok, "c14:merge-arity", f"{self.label}: merge(x) must equal x and merge() the empty partial", case=self._case("identity", [op]), fns=FNS)

    def assoc(self, xs, ops, ow: bool):
        rec, P = self.rec, self.P
        x, y, z = xs
        cx, cy, cz = content(x), content(y), content(z)
        xy = self.merge2(x, y, ow, ops[:2], law="assoc")
        yz = self.merge2(y, z, ow, ops[1:], law="assoc")
        if not chain_ok(cx, cy, cz):
            self.n_assoc_skipped += 1
            return
        if xy is None or yz is None:
            return
        L = self.merge2(xy, z, ow, ops, law="assoc")
        R = self.merge2(x, yz, ow, ops, law="assoc")
        if L is None or R is None:
            return
        self.n_assoc += 1
        ok = L.dict() == R.dict() and ceq(content(L), content(R)) and type(L) is type(R)
        rec.check(ok, f"c14:not-associative:{'ow' if ow else 'strict'}",
                  f"{self.label}: merge(merge(x,y),z)={sl.short(repr(L.dict()), 110)} != merge(x,merge(y,z))={sl.short(repr(R.dict()), 110)} (allow_overwrite={ow})",
                  case=self._case("assoc", ops, ow), fns=FNS)  # fmt: skip
        # variadic fold agrees with the left fold
        V = self._quiet(lambda: P.merge(x, y, z, allow_overwrite=ow))
        rec.check(isinstance(V, BaseModel) and V.dict() == L.dict(), "c14:variadic-merge-differs",
                  f"{self.label}: merge(x,y,z) differs from merge(merge(x,y),z)", case=self._case("assoc", ops, ow), fns=FNS)

    def _quiet(self, fn):
        try:
            with watchdog(10):
                return fn()
        except Exception as e:
            return e

    def roundtrip(self, o, raw):
        rec, P = self.rec, self.P
        case = {"schema": self.sref, "law": "roundtrip", "ops": [{"d": raw, "way": "complete"}], "ow": None}
        so = snap(o)
        for how in ("to_partial", "cast"):
            try:
                with watchdog(10):
                    p = P.to_partial(o) if how == "to_partial" else P.cast(o)
                    back = p.from_partial()
                ok = bool(back == o) and type(back) is type(o) and isinstance(p, P)
                detail = f"got {sl.short(repr(back), 140)}"
                sig = "neq:" + _type_changes(o, back)
                if not ok:
                    detail += "; changed: " + _changed_fields(o, back)
            except Exception as e:
                ok, detail = False, f"raised {type(e).__name__}: {sl.short(str(e).replace(chr(10), ' '), 140)}"
                sig = f"{self.label}:raised {type(e).__name__}"
            rec.check(ok, f"c14:roundtrip-complete-partial-complete:{sig}",
                      f"{self.label}: from_partial({how}(o)) must equal o={sl.short(repr(o), 140)}; {detail}" + (f" [{sig}]" if not ok else ""), case=case, fns=FNS_CONV)
        rec.check(snap(o) == so, "c14:operand-mutated:roundtrip", f"{self.label}: to_partial/from_partial mutated the complete object", case=case, fns=FNS_CONV)

    def harvest_fold(self, descs, ops_ways):
        """harvest(S, sources, return_partial=True) over files / harvesters == left fold of m over the sources' contents."""
        from metador_core.harvester import harvest

        rec, ctx, P, S = self.rec, self.ctx, self.P, self.ctx.S
        sources, contents = [], []
        for d, way in zip(descs, ops_ways):
            plain = strip(d)
            try:
                ref = P.parse_obj(plain)  # independent route to the content each source must yield
            except Exception:
                return
            if way == "path":
                n = next(ctx.nfile)
                path = ctx.tmp / f"h{n}.yaml"
                path.write_text(sl.yaml_dump(plain) if plain else "{}\n", encoding="utf-8")
                sources.append(path)
            elif way == "missing":
                sources.append(ctx.tmp / f"missing{next(ctx.nfile)}.yaml")
                ref = P()
            else:  # custom harvester handing out a constructed partial
                hv = ctx.harvester_cls()
                idx = len(ctx.table)
                ctx.table[idx] = _nested(S, d, ctx.fam, "pctor")
                sources.append(hv(idx=idx))
                ref = ctx.table[idx]
            contents.append(content(ref))
        st = St()
        try:
            exp = contents[0] if contents else content(P())
            exp = ("M", S, dict(exp[2]))
            for c in contents[1:]:
                exp = m_top(exp, c, False, st)
        except Conflict:
            exp = Conflict
        case = {"schema": self.sref, "law": "harvest", "ops": [{"d": d, "way": w} for d, w in zip(descs, ops_ways)], "ow": False}
        try:
            with watchdog(20):
                res = harvest(S, sources, return_partial=True)
            err = None
        except Exception as e:
            res, err = None, e
        if exp is Conflict:
            rec.check(isinstance(err, ValueError), f"c14:harvest-conflict-not-raised:{type(err).__name__ if err else 'returned'}",
                      f"{self.label}: harvest() over conflicting sources must raise ValueError, got {('raised ' + type(err).__name__) if err else sl.short(repr(res.dict()), 100)}",
                      case=case, fns=FNS_HARV)  # fmt: skip
            return
        if err is not None:
            if st.soft and isinstance(err, ValueError):
                rec.check(True, "", "")
                return
            rec.check(False, f"c14:harvest-raises:{type(err).__name__}",
                      f"{self.label}: harvest() over conflict-free sources {[strip(d) for d in descs]} raised {type(err).__name__}: {sl.short(str(err).replace(chr(10), ' '), 120)}",
                      case=case, fns=FNS_HARV)  # fmt: skip
            return
        got = content(res)
        rec.check(ceq(got, exp) and type(res) is P, f"c14:harvest-fold-differs:{self._diff(exp, got)[0] if not ceq(got, exp) else 'type'}",
                  f"{self.label}: harvest() = {sl.short(json.dumps(cshow(got), default=repr), 130)}, expected fold {sl.short(json.dumps(cshow(exp), default=repr), 130)}",
                  case=case, fns=FNS_HARV)  # fmt: skip


def _changed_fields(o, back) -> str:
    out = []
    try:
        for k, v in o.__dict__.items():
            w = back.__dict__.get(k)
            try:
                same = bool(v == w) and type(v) is type(w)
            except Exception:
                same = False
            if not same:
                out.append(f"{k}: {sl.short(repr(v), 50)} -> {sl.short(repr(w), 50)}")
    except Exception:
        pass
    return "; ".join(out[:3])


def _type_changes(o, back) -> str:
    """Which field value types changed in a failed round trip, e.g. 'datetime->date' (stable across schemas)."""
    out = set()
    try:
        for k, v in o.__dict__.items():
            w = back.__dict__.get(k)
            try:
                same = bool(v == w) and type(v) is type(w)
            except Exception:
                same = False
            if not same:
                out.add(f"{type(v).__name__}->{type(w).__name__}")
    except Exception:
        pass
    return ",".join(sorted(out)) or "?"


def _dkind(c) -> str:
    k = _kind(c)
    return "falsy-value" if k in ("falsy", "emptylist", "emptyset") else "model" if k == "model" else "value"


def _kind(c) -> str:
    if c is None:
        return "none"
    if c[0] == "L":
        return "list" if c[1] else "emptylist"
    if c[0] == "S":
        return "set" if c[1] else "emptyset"
    if c[0] == "M":
        return "model"
    try:
        return "scalar" if c[2] else "falsy"
    except Exception:
        return "scalar"


# --------------------------------------------------------------------------------------------------


def _build(ctx, d, way):
    try:
        with watchdog(10):
            return ctx.operand(d, way)
    except Exception:
        return None


def _installed_descs(S, r, n):
    """Partial descriptions of an installed schema: sub-dicts of valid complete instance dicts."""
    dicts = sl.model_dicts(S, 2, validate=True)
    out = [{}]
    if not dicts:
        return out, []
    for _ in range(n):
        base = r.choice(dicts)
        keys = sorted(base)
        k = r.randint(0, min(len(keys), 4))
        sub = {a: base[a] for a in r.sample(keys, k)}
        out.append(sub)
    return out, dicts


def run(tier: str, seed: int) -> dict:
    rec = Recorder("C14", "c14", max_violations=24)
    quick = tier == "quick"
    t0 = time.time()
    limit = 55 if quick else 540
    r = rng(seed, "c14")
    stats = {"pairs": 0, "triples": 0, "roundtrips": 0, "harvests": 0, "operands_unbuildable": 0}
    stopped = "enumeration exhausted"
    bounds = []
    with tmpdir() as tmp:
        fam = sl.build_family(FAMILY)
        S = fam["Top"]
        sref = {"family": FAMILY, "name": "Top"}
        ctx = Ctx(S, fam, tmp)
        laws = Laws(rec, ctx, "G:Top", sref)

        def way_for(d, i):
            pool = WAYS if not has_tags(d) else WAYS_TAGGED + ["obj", "json", "file"]
            return pool[i % len(pool)]

        # 0a. a second, separately generated family with the SAME class names (what re-executing a class statement or a
        # generated class gives): every class has a partial class of its OWN (looked up by the class object, not by its name)
        fam2 = sl.build_family(FAMILY, fresh=True)
        for cname in sorted(fam):
            for F_, tag in ((fam, "first"), (fam2, "second")):
                K = F_[cname]
                rec.case(("partial-src", cname, tag), nontrivial=True)
                try:
                    src = K.Partial.__partial_src__
                except Exception as e:  # noqa
                    src = f"{type(e).__name__}: {e}"
                rec.check(src is K, "c14:partial-of-another-class", f"{cname} ({tag} generated family): {cname}.Partial.__partial_src__ is {src!r}, not the class itself — partial classes must be per class object, not per name", case={"kind": "partial-src", "family": FAMILY, "name": cname}, fns=FNS_CONV + ["schema/partial.py:PartialFactory.get_partial"])
        # 0. round trip complete -> partial -> complete (generated + installed); availability of the partial classes
        SR = fam["TopReq"]
        lawsR = Laws(rec, Ctx(SR, fam, tmp), "G:TopReq", {"family": FAMILY, "name": "TopReq"})
        for raw in sl.model_dicts(SR, 2, validate=True) + [strip(_complete_desc(S, d)) for d in DESCS]:
            tgt, lw = (SR, lawsR) if "req" in raw else (S, laws)
            try:
                o = tgt.parse_obj(raw)
            except Exception:
                continue
            stats["roundtrips"] += 1
            rec.case(("roundtrip", lw.label, digest(raw)), nontrivial=True)
            lw.roundtrip(o, raw)
        inst = sl.installed_schemas()
        inst_laws = {}
        skipped_inst = []
        for name, SI in inst.items():
            try:
                with watchdog(20):
                    ctxI = Ctx(SI, None, tmp)
            except Exception as e:
                # no partial instance of this schema exists, so C14's statement is vacuous for it: note + skip
                rec.notes.append(f"installed schema {name} skipped: its partial class (S.Partial) cannot be created: {type(e).__name__}: "
                                 f"{sl.short(str(e).replace(chr(10), ' '), 140)} (schema/partial.py:PartialFactory._partial_field keeps Field(min_items) on an Optional type)")
                skipped_inst.append(name)
                continue
            lw = Laws(rec, ctxI, "I:" + name, {"installed": name})
            descs, dicts = _installed_descs(SI, r, 10 if quick else 40)
            inst_laws[name] = (ctxI, lw, descs, dicts)
            for raw in sorted(dicts, key=lambda d: len(canon(d)))[: 300 if quick else None]:  # cheap: every systematic instance, small first
                try:
                    o = SI.parse_obj(raw)
                except Exception:
                    continue
                stats["roundtrips"] += 1
                rec.case(("roundtrip", name, digest(raw)), nontrivial=True)
                lw.roundtrip(o, raw)

        # 1. every description in every way: identity laws
        ops_cache = {}
        for w in WAYS:
            for di, d in enumerate(DESCS):
                x = _build(ctx, d, w)
                if x is None:
                    stats["operands_unbuildable"] += 1
                    continue
                ops_cache[(di, w)] = x
                rec.case(("identity", di, w), nontrivial=True, sample={"law": "identity", "d": d, "way": w} if di in (1, 30) and w in ("obj", "full") else None)
                laws.identity(x, (d, w))

        def get(di, w):
            if (di, w) not in ops_cache:
                ops_cache[(di, w)] = _build(ctx, DESCS[di], w)
            return ops_cache[(di, w)]

        # 2. all ordered pairs of descriptions (ways rotate deterministically; thorough: several way pairs), both ow
        nways = 1 if quick else 4
        k = 0
        for di, dj in itertools.product(range(len(DESCS)), repeat=2):
            if not budget_left(t0, limit * 0.35):
                stopped = "time budget (pairs)"
                break
            for rep in range(nways):
                k += 1
                wi, wj = way_for(DESCS[di], k + rep * 3), way_for(DESCS[dj], k // 3 + rep * 5 + 1)
                x, y = get(di, wi), get(dj, wj)
                if x is None or y is None:
                    continue
                stats["pairs"] += 1
                rec.case(("pair", di, dj, wi, wj), nontrivial=True)
                for ow in (False, True):
                    laws.merge2(x, y, ow, [(DESCS[di], wi), (DESCS[dj], wj)], via="merge" if (k + ow) % 2 else "merge_with")
        bounds.append(f"{stats['pairs']} ordered pairs of {len(DESCS)} value descriptions x rotating ways")

        # 3. triples: exhaustive over the core descriptions (quick) / all descriptions (thorough), rotating ways
        idx = CORE if quick else list(range(len(DESCS)))
        k = 0
        for a, b, c in itertools.product(idx, repeat=3):
            if not budget_left(t0, limit * (0.8 if quick else 0.7)):
                stopped = "time budget (triples)"
                break
            k += 1
            ws = (way_for(DESCS[a], k), way_for(DESCS[b], k // 2 + 1), way_for(DESCS[c], k // 5 + 2))
            xs = [get(a, ws[0]), get(b, ws[1]), get(c, ws[2])]
            if any(x is None for x in xs):
                continue
            stats["triples"] += 1
            rec.case(("triple", a, b, c) + ws, nontrivial=True, sample={"law": "assoc", "descs": [DESCS[a], DESCS[b], DESCS[c]], "ways": list(ws)} if k % 997 == 0 else None)
            ops = [(DESCS[a], ws[0]), (DESCS[b], ws[1]), (DESCS[c], ws[2])]
            laws.assoc(xs, ops, bool(k % 2))
            if not quick:
                laws.assoc(xs, ops, not bool(k % 2))
        bounds.append(f"{stats['triples']} triples over {len(idx)} descriptions ({'complete' if not stopped.startswith('time budget (triples)') else 'cut'})")

        # 4. harvest() fold over files / missing files / custom harvesters
        hw = ["path", "harvester", "missing"]
        combos = list(itertools.product(CORE if quick else range(len(DESCS)), repeat=2))
        r.shuffle(combos)
        for n, (a, b) in enumerate(combos[: 150 if quick else 1500]):
            if not budget_left(t0, limit * 0.85):
                break
            ways = [hw[n % 2], hw[(n // 2) % 3]]
            descs = [DESCS[a], DESCS[b]]
            if n % 4 == 0:
                descs.append(DESCS[(a + b) % len(DESCS)])
                ways.append("path")
            stats["harvests"] += 1
            rec.case(("harvest", a, b, tuple(ways)), nontrivial=True)
            laws.harvest_fold(descs, ways)
        bounds.append(f"{stats['harvests']} harvest() pipelines")

        # 5. laws on installed schemas
        n_inst_pairs = n_inst_triples = 0
        for name, SI in inst.items():
            if not budget_left(t0, limit * 0.97):
                stopped = "time budget (installed)"
                break
            if name not in inst_laws:
                continue
            ctxI, lw, descs, dicts = inst_laws[name]
            ways_i = ["obj", "json", "yaml", "file", "ign"]
            built = []
            for i, d in enumerate(descs):
                x = _build(ctxI, d, ways_i[i % len(ways_i)])
                if x is not None:
                    built.append((d, ways_i[i % len(ways_i)], x))
            # complete objects converted
            for raw in dicts[:: max(1, len(dicts) // (3 if quick else 10))]:
                x = _build(ctxI, raw, "full")
                if x is not None:
                    built.append((raw, "full", x))
            for d, w, x in built:
                lw.identity(x, (d, w))
            pairs = list(itertools.product(range(len(built)), repeat=2))
            r.shuffle(pairs)
            for a, b in pairs[: 40 if quick else 400]:
                if not budget_left(t0, limit * 0.97):
                    break
                n_inst_pairs += 1
                rec.case(("ipair", name, a, b), nontrivial=True)
                for ow in (False, True):
                    lw.merge2(built[a][2], built[b][2], ow, [built[a][:2], built[b][:2]])
            triples = [tuple(r.randrange(len(built)) for _ in range(3)) for _ in range(20 if quick else 300)] if built else []
            for a, b, c in triples:
                if not budget_left(t0, limit * 0.97):
                    break
                n_inst_triples += 1
                rec.case(("itriple", name, a, b, c), nontrivial=True)
                lw.assoc([built[a][2], built[b][2], built[c][2]], [built[a][:2], built[b][:2], built[c][:2]], ow=bool((a + b + c) % 2))
            laws.n_assoc += lw.n_assoc
            laws.n_assoc_skipped += lw.n_assoc_skipped
            laws.n_merge += lw.n_merge
        bounds.append(f"{stats['roundtrips']} complete->partial->complete round trips; installed plugins: {n_inst_pairs} pairs, {n_inst_triples} triples over {len(inst_laws)} schemas (skipped, no partial class: {skipped_inst})")

    bound = ("; ".join(bounds) + f"; {laws.n_merge} binary merges checked against the spec, {laws.n_assoc} associativity instances where neither side raised "
             f"({laws.n_assoc_skipped} triples outside the chain precondition), {stats['operands_unbuildable']} (description, way) combinations not applicable; "
             f"ways: {', '.join(WAYS)} + harvest() over path/missing/custom-harvester sources; stop: {stopped}")  # fmt: skip
    return rec.result(
        rule="case = (law, value descriptions, way each operand was produced, allow_overwrite); value descriptions cover each falsy value "
             "(0, False, 0.0, '', [], set(), 0-quantity), lists, sets, a 3-class inheritance chain at one nested position, a recursive model, lists of models; "
             "pairs exhaustive over descriptions, triples exhaustive over the core subset (quick) / all (thorough) with deterministically rotating ways",
        bound=bound,
        exhaustive=False,
        assumptions=[
            "two EQUAL values meeting without overwrite permission may either raise ValueError or be kept (nothing is lost)",
            "associativity only where neither side raises and the classes at every nested position are pairwise related by inheritance",
            "chain classes only add optional fields (a narrowing child whose parent's value is invalid for it is outside the claim)",
            "equality of partials: .dict() plus the driver's structural content view (class of nested models = source class)",
        ],
        trusted=["pydantic 1.10 copy/construct/parse_obj, pydantic_yaml/ruamel (exercised, not modelled)"],
        extra=stats,
    )  # fmt: skip


def replay(case: dict):
    rec = Recorder("C14", "c14", max_violations=50)
    if case.get("kind") == "partial-src":
        f1, f2 = sl.build_family(case["family"]), sl.build_family(case["family"], fresh=True)
        bad = [f"{tag} {case['name']}: __partial_src__ is {F_[case['name']].Partial.__partial_src__!r}" for F_, tag in ((f1, "first"), (f2, "second")) if F_[case["name"]].Partial.__partial_src__ is not F_[case["name"]]]
        return (True, "c14:partial-of-another-class :: " + "; ".join(bad)) if bad else (False, "each of two same-named classes has a partial class of its own")
    with tmpdir() as tmp:
        sref = case["schema"]
        if "installed" in sref:
            S, fam = sl.installed_schemas()[sref["installed"]], None
        else:
            fam = sl.build_family(sref["family"])
            S = fam[sref.get("name", "Top")]
        law, ops, ow = case["law"], case["ops"], case.get("ow")
        if law == "partial-class":
            try:
                S.Partial
                return False, "partial class can be created"
            except Exception as e:
                return True, f"c14:partial-class-unavailable: {type(e).__name__}: {sl.short(str(e).replace(chr(10), ' '), 160)}"
        ctx = Ctx(S, fam, tmp)
        laws = Laws(rec, ctx, "replay", sref)
        if law == "roundtrip":
            try:
                o = S.parse_obj(ops[0]["d"])
            except Exception as e:
                return False, f"complete object invalid now: {e}"
            laws.roundtrip(o, ops[0]["d"])
        elif law == "harvest":
            laws.harvest_fold([o["d"] for o in ops], [o["way"] for o in ops])
        else:
            xs = []
            for o in ops:
                if o["way"] == "ctor-empty":
                    xs.append(ctx.P())
                    continue
                x = _build(ctx, o["d"], o["way"])
                if x is None:
                    return False, f"operand {o} cannot be built on this tree"
                xs.append(x)
            pairs = [(o["d"], o["way"]) for o in ops]
            if law == "identity":
                real = [(x, p) for x, p in zip(xs, pairs) if p[1] != "ctor-empty"]
                for x, p in real:
                    laws.identity(x, p)
            elif law == "merge" and len(xs) == 2:
                for via in ("merge", "merge_with"):
                    laws.merge2(xs[0], xs[1], bool(ow), pairs, via=via)
            elif len(xs) == 3:
                laws.assoc(xs, pairs, bool(ow))
            elif len(xs) == 2:
                laws.merge2(xs[0], xs[1], bool(ow), pairs)
            else:
                return False, "unknown case shape"
    if rec.violations:
        return True, "; ".join(v["signature"] + " :: " + v["what"][:200] for v in rec.violations[:2])
    return False, f"{rec.evaluations} contract evaluations hold"
