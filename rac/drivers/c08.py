"""C08 — the reserved metador_* namespace is invisible and untouchable through the container interface.

(a) invisibility / non-interference: histories mixing user-data and metadata operations are applied to a real
    MetadorContainer and, user-data operations only, to a plain in-memory h5py tree. After every history: the user view
    through the container interface (keys/[]/attrs/[()], iter, len, in, keys/values/items, visit/visititems, get,
    require_*) has no reserved segment and equals the plain tree.
(b) untouchability: every path-taking method of the H5GroupLike/H5FileLike protocol (enumerated from util/types.py and
    checked for completeness) x every reserved path shape (existing ones found in the raw tree, and non-existing
    ones; relative, absolute, nested; also as `name=` of copy) x receivers (container, every user group) x states:
    the call must raise (or answer False/None for `in`/get) and the raw tree dump must be unchanged.
"""
from __future__ import annotations

import time

from rac import base  # noqa: F401
from rac.base import Recorder, digest, rng, tmpdir, OpTimeout
from rac.contlib2 import watchdog
from rac.ih5lib import new_ref, is_grouplike
from rac import contlib2 as L

PID, DRV = "C08", "c08"

# ------------------------------------------------------------------ histories

PRE = [["mkgrp", "g"], ["set", "g/x", 1], ["set", "d", "str"], ["setattr", "g", "k", 5]]
PREM = PRE + [["meta", "g", "dir1"], ["meta", "g/x", "file1"], ["meta", "d", "img1"], ["meta", "/", "bib1"]]

ALPHA = [
    ["set", "n", 2],
    ["set", "g/n", "s"],
    ["mkgrp", "h"],
    ["del", "g"],
    ["del", "g/x"],
    ["del", "d"],
    ["copy", "g", "h", {}],
    ["copy", "g/x", "y", {}],
    ["copy", "d", "g/d2", {}],
    ["copy", "g", "h", {"into": True, "name": "g3"}],
    ["copy", "g/x", "g", {"into": True, "name": "x3"}],
    ["copy", "g", "h2", {"without_meta": True}],
    ["move", "g", "h"],
    ["move", "g/x", "x2"],
    ["move", "d", "g/d3"],
    ["meta", "/", "dir1"],
    ["meta", "h", "dir2"],
    ["delmeta", "g", "core.dir"],
    ["delmeta", "g/x", "core.file"],
    ["setattr", "g/x", "a", 1],
    ["delattr", "g", "k"],
    ["reopen"],
]
ALPHA_IH5_EXTRA = [["commit"]]
# copy with the *root group node* as destination: dst_path becomes "//name" (plain HDF5 accepts it)
ALPHA_ROOTDEST = [["copy", "g", "/", {"into": True, "name": "g4"}]]

# hand-picked states for (b) (on top of what (a) enumerates)
B_STATES = [
    PREM,
    PRE,
    PRE + [["meta", "g/x", "file1"]],
    PREM + [["copy", "g", "h", {}]],
    PREM + [["move", "g/x", "x2"], ["delmeta", "/", "core.bib"]],
    PREM + [["mkgrp", "g/s"], ["set", "g/s/y", 3], ["meta", "g/s", "dir2"], ["meta", "g/s/y", "file2"]],
    # a node wrapper kept over a move (plain HDF5: the handle follows the node), metadata written through it afterwards: no reopen in between
    PREM + [["move", "g", "h"], ["meta", "h", "bib1"]],
    PREM + [["move", "g", "h"], ["delmeta", "h", "core.dir"], ["meta", "h", "dir2"]],
]

# ------------------------------------------------------------------ protocol enumeration (completeness of the method table)

PATH_METHODS = {
    "__getitem__": ["getitem"],
    "__setitem__": ["setitem"],
    "__delitem__": ["delitem"],
    "__contains__": ["contains"],
    "get": ["get", "get_default"],
    "create_dataset": ["create_dataset"],
    "require_dataset": ["require_dataset"],
    "create_group": ["create_group"],
    "require_group": ["require_group"],
    "move": ["move_src", "move_dst"],
    "copy": ["copy_src", "copy_dst", "copy_dst_grpsrc", "copy_name", "copy_name_grpsrc", "copy_src_into_grp", "copy_nodesrc_dst", "copy_nodesrc_name"],
}
NO_PATH_MEMBERS = {"__iter__", "__len__", "keys", "values", "items", "visit", "visititems", "name", "attrs", "parent", "file", "mode", "close", "__enter__", "__exit__"}


def protocol_members():
    from metador_core.util.types import H5FileLike

    attrs = getattr(H5FileLike, "__protocol_attrs__", None)
    if attrs is None:  # older typing
        import typing

        attrs = typing._get_protocol_attrs(H5FileLike)
    return set(attrs)


# special methods a raw group / file class may define without exposing names or taking paths
HARMLESS_SPECIALS = {"__bool__", "__class_getitem__", "__getnewargs__", "__post_init__", "__init_subclass__", "__subclasshook__", "__reduce__", "__reduce_ex__", "__getstate__", "__sizeof__", "__format__"}


def forwarded_specials():
    """Special methods defined by a raw group/file class but not by the wrapper class itself: wrapt forwards those to the raw
    object, past __getattr__ and every guard. The entry points of the wrapper are what the RAW classes offer, not what the
    wrapper happens to define (defect #27: reversed())."""
    import h5py
    from metador_core.container.wrappers import MetadorContainer, MetadorGroup
    from metador_core.ih5.overlay import IH5Group
    from metador_core.ih5.record import IH5Record

    def own(cls):
        out = set()
        for c in cls.__mro__:
            if c.__module__.startswith("metador_core"):
                out |= set(c.__dict__)
        return out

    bad = []
    for wrap, raws in ((MetadorGroup, (h5py.Group, IH5Group)), (MetadorContainer, (h5py.File, IH5Record))):
        for raw in raws:
            sp = {n for n in dir(raw) if n.startswith("__") and n.endswith("__") and callable(getattr(raw, n, None))} - set(dir(object))
            left = sorted(sp - own(wrap) - HARMLESS_SPECIALS)
            if left:
                bad.append(f"{wrap.__name__} over {raw.__name__}: {left}")
    return bad


def uncovered_protocol_members():
    return sorted(protocol_members() - set(PATH_METHODS) - NO_PATH_MEMBERS)


_SENTINEL = object()


def make_calls(r, p, u_ds, u_grp_node, u_grp):
    """variant -> thunk; every thunk hands the reserved path `p` to one path parameter of one protocol method."""
    calls = {
        "getitem": lambda: r[p],
        "setitem": lambda: r.__setitem__(p, 1),
        "delitem": lambda: r.__delitem__(p),
        "contains": lambda: p in r,
        "get": lambda: r.get(p),
        "get_default": lambda: r.get(p, _SENTINEL),
        "create_dataset": lambda: r.create_dataset(p, data=1),
        "require_dataset": lambda: r.require_dataset(p, shape=(), dtype="int64"),
        "create_group": lambda: r.create_group(p),
        "require_group": lambda: r.require_group(p),
        "move_src": lambda: r.move(p, "fresh_mv"),
        "copy_src": lambda: r.copy(p, "fresh_cp"),
    }
    if u_ds is not None:
        calls["move_dst"] = lambda: r.move(u_ds, p)
        calls["copy_dst"] = lambda: r.copy(u_ds, p)
        calls["copy_nodesrc_dst"] = lambda: r.copy(r[u_ds], p)
        calls["copy_name"] = lambda: r.copy(u_ds, u_grp_node(), name=p)
        calls["copy_nodesrc_name"] = lambda: r.copy(r[u_ds], u_grp_node(), name=p)
    if u_grp is not None:
        calls["copy_dst_grpsrc"] = lambda: r.copy(u_grp, p)
        calls["copy_name_grpsrc"] = lambda: r.copy(u_grp, r, name=p)
    calls["copy_src_into_grp"] = lambda: r.copy(p, u_grp_node())
    return calls


ALL_VARIANTS = [v for vs in PATH_METHODS.values() for v in vs]

# ------------------------------------------------------------------ reserved path shapes


def path_shapes(raw, recv_path: str, user_groups, user_dsets):
    """[(label, path)] reserved paths to try from the receiver at `recv_path` (existing + non-existing shapes)."""
    res = []
    ex = L.reserved_names(raw)
    # one representative per class of existing bookkeeping entity
    classes = {}
    for p, kind in ex:
        segs = p.split("/")[1:]
        if segs[0] == "metador_container":
            cl = "toc:" + "/".join(segs[1:2]) + (":" + str(min(len(segs), 4))) + kind
        else:
            last_res = max(i for i, s in enumerate(segs) if s.startswith(L.RESERVED))
            base = segs[last_res]
            cl = ("metadir-grp" if base == "metador_meta_" else "metadir-ds") + (":obj" if last_res < len(segs) - 1 else "") + (":root" if last_res == 0 else ":nested")
        classes.setdefault(cl, (p, kind))
    for cl, (p, kind) in sorted(classes.items()):
        res.append((f"exist:abs:{cl}", p))
        pref = "" if recv_path == "/" else recv_path
        if recv_path == "/" or p.startswith(pref + "/"):
            res.append((f"exist:rel:{cl}", p[len(pref) + 1 :]))
    # non-existing shapes
    g = user_groups[0][1:] if user_groups else "nogrp"
    ds = user_dsets[0][1:] if user_dsets else "nods"
    nonex = [
        ("rel:top", "metador_x"),
        ("rel:meta", "metador_meta_a"),
        ("rel:prefix-only", "metador_"),
        ("abs:top", "/metador_x"),
        ("rel:under-missing", "a/metador_x"),
        ("rel:under-group", f"{g}/metador_x"),
        ("abs:nested-meta", f"/{g}/metador_meta_b/c"),
        ("abs:nested-missing", "/a/metador_meta_b/c"),
        ("rel:under-dataset", f"{ds}/metador_x"),
        ("rel:toc-missing", "metador_container/nope"),
        ("abs:toc-missing", "/metador_container/links/zz/yy"),
        ("rel:dot", "./metador_x"),
        ("rel:dblslash", f"{g}//metador_x"),
        # a reserved segment followed by '..' (HDF5 has no '..': a path is judged by its segments as written)
        ("rel:toc-dotdot", "metador_container/../x_dd"),
        ("abs:toc-dotdot", "/metador_container/../x_dd"),
        ("rel:metadir-dotdot", f"{g}/metador_meta_/.."),
        ("rel:metadir-dotdot-child", f"{g}/metador_meta_b/../y_dd"),
    ]
    res += [(f"nonexist:{lab}", p) for lab, p in nonex]
    # the same names given as bytes (h5py accepts bytes names; IH5 treats them as literal text, so only the h5py driver is asked)
    if type(raw).__module__.startswith("h5py"):
        for lab, p in list(res):
            if lab.startswith(("exist:abs:toc", "exist:rel:toc", "nonexist:rel:top", "nonexist:abs:top", "nonexist:rel:meta", "nonexist:rel:under-group")):
                res.append(("bytes:" + lab, p.encode()))
    return res


# ------------------------------------------------------------------ running histories


_SNAP = {}
PREMR = PREM + [["reopen"]]


def _premr_box(kind, d):
    """Container in the state PREM + reopen, cloned from a cached closed snapshot (pure optimisation of replaying PREMR)."""
    key = (kind, str(d))
    if key not in _SNAP:
        b = L.open_container(kind, d)
        for op in PREM:
            st = L.apply_cop(b, op)
            if st[0] != "ok":
                raise RuntimeError(f"base history op failed: {op} {st}")
        b.close()
        _SNAP[key] = b
    box = _SNAP[key].clone_closed()
    box.open("r+")
    return box


def build(kind, d, history):
    """Fresh container + plain reference with `history` applied; returns (box, ref, statuses)."""
    ref = new_ref()
    sts = []
    if history[: len(PREMR)] == PREMR:
        box = _premr_box(kind, d)
        for op in PREMR:
            sts.append((("ok", None), L.apply_rop(ref, op)))
        history = history[len(PREMR) :]
    else:
        box = L.open_container(kind, d)
    for op in history:
        if op[0] == "commit" and kind == "h5":
            sts.append((("ok", None), ("ok", None)))
            continue
        sts.append((L.apply_cop(box, op), L.apply_rop(ref, op)))
    return box, ref, sts


def plain_ih5_dump(d, history):
    """The same user operations on a plain IH5Record *without* a container (attribution of IH5-overlay divergences)."""
    from metador_core.ih5.container import IH5Record
    import uuid

    rec = IH5Record(d / ("p" + uuid.uuid4().hex[:8]), "w")
    try:
        for op in history:
            if op[0] == "commit":
                rec.commit_patch()
                rec.create_patch()
            elif op[0] == "reopen":
                files_prefix = rec.ih5_files[0]
                rec.close()
                name = str(files_prefix)[: -len(".ih5")]
                rec = IH5Record(name, "r+")
            else:
                L.apply_rop(rec, op)
        return L.plain_dump(rec)
    finally:
        try:
            rec.close()
        except Exception:
            pass


class _Bad(list):
    """List of (aspect, detail) of failed clauses plus the measured number of evaluated clauses."""

    n = 0

    def __init__(self, *a):
        super().__init__(*a)
        self.status_notes = []

    def chk(self, cond, aspect, detail):
        self.n += 1
        if not cond:
            self.append((aspect, detail() if callable(detail) else detail))
        return cond


def check_view(box, ref, bad=None):
    """(a): discrepancies of the user view (through the container interface) against the plain tree."""
    bad = _Bad() if bad is None else bad
    c = box.c
    try:
        with watchdog(20):
            ud = L.user_dump(c, with_meta=False)
    except OpTimeout:
        bad.chk(False, "hang", "user_dump does not terminate")
        return bad
    except Exception as e:  # noqa
        bad.chk(False, "dump-raises", f"user_dump raised {type(e).__name__}: {e}")
        return bad
    rd = L.plain_dump(ref)
    leaked = L.reserved_in_dump(ud)
    bad.chk(not leaked, "leak-tree", lambda: f"reserved names visible via keys/[]: {leaked[:4]}")
    up, rp = L.dump_paths(ud), L.dump_paths(rd)
    bad.chk(up == rp, "tree-mismatch", lambda: f"user-visible nodes {up} != plain tree {rp}")
    if up == rp:
        bad.chk(ud == rd, "content-mismatch", "same nodes but values/attributes differ from the plain tree")
    # listings at every group of the plain tree
    groups = ["/"] + [p for p, k in rp if k == "g"]
    for gp in groups:
        try:
            node = c if gp == "/" else c[gp]
            with watchdog(20):
                got = L.listing_view(node)
        except Exception as e:  # noqa
            bad.chk(False, "listing-raises", f"listing of {gp} raised {type(e).__name__}: {e}")
            continue
        for name in ("keys", "iter", "values", "visit", "reversed"):
            if got.get(name) is None:
                continue
            lk = [x for x in got[name] if L.has_reserved_segment(x)]
            bad.chk(not lk, f"leak-{name}", lambda: f"{name}() of {gp} exposes {lk[:3]}")
        lk = [x for x in got["items"] if L.has_reserved_segment(x[0]) or L.has_reserved_segment(x[1])]
        lk += [x for x in got["visititems"] if L.has_reserved_segment(x[0]) or L.has_reserved_segment(x[2])]
        bad.chk(not lk, "leak-items", lambda: f"items/visititems of {gp} exposes {lk[:3]}")
        diffs = L.check_listing(got, L.expected_listing(rd, gp))
        bad.chk(not diffs, "listing-mismatch", lambda: f"group {gp}: " + "; ".join(diffs)[:300])
        # membership / get / require_group of every user node below (relative and absolute form) + an absent name
        sub = L.sub_dump(rd, gp)
        pref = "" if gp == "/" else gp
        for rel, kind in [(p[1:], k) for p, k in L.dump_paths(sub)]:
            for form in (rel, f"{pref}/{rel}"):
                try:
                    bad.chk(form in node, "in-false", f"{form!r} in group {gp} is False for an existing user node")
                    got_n = node.get(form)
                    bad.chk(got_n is not None and got_n.name == f"{pref}/{rel}", "get-wrong", lambda: f"get({form!r}) at {gp} -> {got_n!r}")
                    if kind == "g":
                        rn = node.require_group(form)
                        bad.chk(rn.name == f"{pref}/{rel}" and is_grouplike(rn), "require-wrong", lambda: f"require_group({form!r}) at {gp} -> {rn!r}")
                    else:
                        rds = ref[f"{pref}/{rel}"]
                        try:  # only where the plain tree accepts the same call
                            ref.require_dataset(f"{pref}/{rel}", shape=rds.shape, dtype=rds.dtype)
                            plain_ok = True
                        except Exception:  # noqa
                            plain_ok = False
                        if plain_ok:
                            rn = node.require_dataset(form, shape=rds.shape, dtype=rds.dtype)
                            bad.chk(rn.name == f"{pref}/{rel}" and not is_grouplike(rn), "require-wrong", lambda: f"require_dataset({form!r}) at {gp} -> {rn!r}")
                except Exception as e:  # noqa
                    bad.chk(False, "lookup-raises", f"in/get/require_*({form!r}) at {gp} raised {type(e).__name__}: {e}")
        try:
            bad.chk("zz_absent" not in node and node.get("zz_absent") is None, "in-true-absent", f"absent name reported present in {gp}")
        except Exception as e:  # noqa
            bad.chk(False, "lookup-raises", f"in/get(absent) at {gp} raised {type(e).__name__}")
    # the lookups / require_group above must not have changed anything
    try:
        ud2 = L.user_dump(c, with_meta=False)
        bad.chk(ud2 == ud, "lookup-effect", "in/get/require_* of existing nodes changed the user view")
    except Exception as e:  # noqa
        bad.chk(False, "dump-raises", f"second user_dump raised {type(e).__name__}")
    return bad


def eval_history_a(kind, d, history):
    """Run one history; returns (bad, info, box, ref) - the caller closes box and ref."""
    box, ref, sts = build(kind, d, history)
    bad = _Bad()
    for i, (s1, s2) in enumerate(sts):
        bad.chk(s1[0] != "hang", "hang", f"step {i} {history[i]} does not terminate")
        if s1[0] != "hang" and history[i][0] in L.USER_DATA_OPS and s1[0] != s2[0]:
            # not a clause of the property by itself (the trees are compared below); kept for the notes
            bad.status_notes.append(f"{history[i]}: container {s1} vs plain tree {s2}")
    if box.c is None:
        bad.chk(False, "reopen-failed", "container could not be reopened")
        return bad, {"n_reserved": 0, "has_meta": False, "state": digest(history)}, box, ref
    check_view(box, ref, bad)
    res = L.reserved_names(box.raw)
    info = {
        "n_reserved": len(res),
        "has_meta": any("metador_meta_" in p for p, _ in res),
    }
    try:
        info["state"] = digest(L.user_dump(box.c, with_meta=True))
    except Exception:  # noqa
        info["state"] = digest(history)
    return bad, info, box, ref


def minimise(history, fails, protect=0, max_runs=25):
    """Greedy one-op-removal minimisation; `fails(h) -> bool`."""
    h = list(history)
    runs = 0
    changed = True
    while changed and runs < max_runs:
        changed = False
        for i in range(len(h) - 1, protect - 1, -1):
            cand = h[:i] + h[i + 1 :]
            runs += 1
            try:
                if fails(cand):
                    h = cand
                    changed = True
                    break
            except Exception:  # noqa
                pass
            if runs >= max_runs:
                break
    return h


# ------------------------------------------------------------------ (b)


def _user_nodes(box):
    ud = L.user_dump(box.c, with_meta=False)
    ps = L.dump_paths(ud)
    return [p for p, k in ps if k == "g"], [p for p, k in ps if k == "d"]


def _recv(box, recv_path):
    return box.c if recv_path == "/" else box.c[recv_path]


def _ctx(box, recv_path, groups, dsets):
    pref = "" if recv_path == "/" else recv_path
    rel_ds = [p[len(pref) + 1 :] for p in dsets if p.startswith(pref + "/")]
    rel_gr = [p[len(pref) + 1 :] for p in groups if p.startswith(pref + "/")]
    u_ds = rel_ds[0] if rel_ds else None
    u_grp = rel_gr[0] if rel_gr else None
    r = _recv(box, recv_path)

    def u_grp_node():
        return r[u_grp] if u_grp is not None else r

    return r, u_ds, u_grp, u_grp_node


def run_call(thunk, variant):
    """-> (outcome, detail): 'raised' | 'invisible' | 'revealed' | 'accepted' | 'hang'"""
    try:
        with watchdog(3):
            val = thunk()
    except OpTimeout:
        return "hang", "does not terminate"
    except Exception as e:  # noqa
        return "raised", type(e).__name__
    if variant == "contains":
        return ("invisible", "False") if val is False else ("revealed", repr(val))
    if variant == "get":
        return ("invisible", "None") if val is None else ("revealed", repr(val))
    if variant == "get_default":
        return ("invisible", "default") if val is _SENTINEL else ("revealed", repr(val))
    return "accepted", repr(val)[:80]


def single_call_case(kind, d, history, recv_path, variant, path):
    """Re-run exactly one (state, receiver, variant, path) call: -> (outcome, detail, effect: bool, diff)"""
    box, ref, _ = build(kind, d, history)
    try:
        groups, dsets = _user_nodes(box)
        r, u_ds, u_grp, u_grp_node = _ctx(box, recv_path, groups, dsets)
        before = L.raw_dump(box.raw)
        calls = make_calls(r, path, u_ds, u_grp_node, u_grp)
        if variant not in calls:
            return "n/a", "variant not applicable in this state", False, ""
        out, det = run_call(calls[variant], variant)
        after = L.raw_dump(box.raw)
        diff = ""
        if after != before:
            b, a = set(map(tuple, L.dump_paths(before))), set(map(tuple, L.dump_paths(after)))
            diff = f"added {sorted(a - b)[:4]} removed {sorted(b - a)[:4]}" if a != b else "values/attributes changed"
        return out, det, after != before, diff
    finally:
        box.destroy()
        ref.close()


def untouchability(rec, kind, d, history, box, stats, deadline):
    """(b) on the state held by `box`. Returns the box to go on with (rebuilt from `history` whenever a call had an effect)."""
    groups, dsets = _user_nodes(box)
    receivers = ["/"] + groups[:3]
    for recv_path in receivers:
        if time.time() > deadline:
            break
        shapes = path_shapes(box.raw, recv_path, groups, dsets)
        before = L.raw_dump(box.raw)
        r, u_ds, u_grp, u_grp_node = _ctx(box, recv_path, groups, dsets)
        for variant in ALL_VARIANTS:
            if (kind, variant) in stats["hung"] or time.time() > deadline:
                continue  # already reported as non-terminating on this driver; every further call costs the watchdog time
            suspects = []
            for label, p in shapes:
                calls = make_calls(r, p, u_ds, u_grp_node, u_grp)
                if variant not in calls:
                    continue
                if isinstance(p, bytes) and "name" in variant:
                    continue  # copy(..., name=<bytes>) formats the name into text: the node is called "b'...'" and lies in the user's namespace
                out, det = run_call(calls[variant], variant)
                stats["calls"] += 1
                if out == "hang":
                    stats["hung"].add((kind, variant))
                okey = out + ":" + det if out == "raised" else out
                stats["outcomes"][okey] = stats["outcomes"].get(okey, 0) + 1
                rec.case((kind, variant, label, recv_path != "/", digest(history)), nontrivial=True)
                case = {"part": "b", "kind": kind, "history": history, "receiver": recv_path, "variant": variant, "path": p.decode() if isinstance(p, bytes) else p, "label": label}
                rec.check(
                    out in ("raised", "invisible"),
                    f"c08:untouch:{variant}:{out}",
                    f"{variant} with reserved path {p!r} ({label}) on receiver {recv_path} was not rejected: {out} {det} (driver {kind})",
                    case=case,
                    fns=["container/wrappers.py:MetadorGroup." + _fn_of(variant)],
                )
                suspects.append((label, p, case))
                if out == "hang":
                    break
            # effect check at batch granularity; localised per call the first time a variant shows an effect on this driver
            after = L.raw_dump(box.raw)
            if after == before:
                stats["effect_checks"] += 1
                continue
            sig = f"c08:untouch:{variant}:effect"
            fns = ["container/wrappers.py:MetadorGroup." + _fn_of(variant)]
            if (kind, variant) not in stats["localised"]:
                stats["localised"].add((kind, variant))
                found = False
                for label, p, case in suspects:
                    out, det, eff, diff = single_call_case(kind, d, history, recv_path, variant, p)
                    found = found or eff
                    rec.check(not eff, sig, f"{variant} with reserved path {p!r} ({label}) on receiver {recv_path}: {out} {det} but the raw tree changed: {diff} (driver {kind})", case=case, fns=fns)
                if not found:
                    rec.check(False, sig + ":batch", f"{variant} batch on receiver {recv_path} changed the raw tree but no single call reproduces it (driver {kind})", case=suspects[0][2], fns=fns)
            else:
                b_, a_ = set(L.dump_paths(before)), set(L.dump_paths(after))
                rec.check(False, sig, f"{variant} with reserved paths on receiver {recv_path}: rejected calls changed the raw tree: added {sorted(a_ - b_)[:4]} removed {sorted(b_ - a_)[:4]} (driver {kind})", case=suspects[0][2], fns=fns)
            stats["effects"][variant] = stats["effects"].get(variant, 0) + 1
            # the state is corrupted now: rebuild it and go on with the next variant
            box.destroy()
            box, ref_, _ = build(kind, d, history)
            ref_.close()
            before = L.raw_dump(box.raw)
            r, u_ds, u_grp, u_grp_node = _ctx(box, recv_path, groups, dsets)
    return box


def _fn_of(variant):
    for m, vs in PATH_METHODS.items():
        if variant in vs:
            return m
    return variant


# ------------------------------------------------------------------ a node that is neither group nor dataset


def check_named_datatype(rec, d):
    """A committed (named) datatype stored through the container (`m[name] = numpy.dtype(..)`, plain HDF5 driver): what the interface hands
    out for it must not be a raw node (whose .parent / .file are the unguarded raw group / file), and it must be deletable like on the plain tree."""
    import h5py
    import numpy as np

    case = {"part": "named-datatype"}
    fns = ["container/wrappers.py:MetadorNode._wrap_if_node", "container/wrappers.py:MetadorGroup.__setitem__"]
    box = L.Box("h5", d)
    try:
        c = box.c
        c.create_group("g")
        c["g"].meta  # noqa: B018
        L.apply_cop(box, ["meta", "g", "dir1"])
        try:
            c["g/dt"] = np.dtype("int32")
        except Exception:  # noqa  refused: nothing to see
            rec.check(True, "", "")
            return
        rec.case(("named-datatype",), nontrivial=True)
        got = {"getitem": c["g/dt"], "values": [v for v in c["g"].values()][0], "items": dict(c["g"].items())["dt"], "get": c["g"].get("dt")}
        raw = sorted(k for k, v in got.items() if isinstance(v, h5py.Datatype))
        seen = sorted({n for v in got.values() if isinstance(v, h5py.Datatype) for n in list(v.parent.keys()) + list(v.file.keys()) if n.startswith("metador_")})
        rec.check(not raw, "c08:raw-node-handed-out:named-datatype", f"a named datatype is handed out as a raw h5py node by {raw}; through its .parent/.file the bookkeeping entities {seen} are visible and addressable", case, fns)
        try:
            del c["g/dt"]
            err = None
        except Exception as e:  # noqa
            err = e
        rec.check(err is None and "dt" not in c["g"], "c08:raw-node-handed-out:named-datatype:cannot-be-deleted", f"deleting the named datatype through the container fails ({type(err).__name__}: {err}); the plain tree deletes it", case, fns)
    finally:
        box.destroy()


# ------------------------------------------------------------------ run / replay


def _enumerate(tier, seed, kind):
    """Yield (history, level) in enumeration order. Levels >= 1 extend the base PREMR = PREM + reopen."""
    alpha = list(ALPHA) + (ALPHA_IH5_EXTRA if kind != "h5" else []) + ALPHA_ROOTDEST
    for i in range(1, len(PREM) + 1):
        yield PREM[:i], 0
    for h in B_STATES[2:]:
        yield h, 0
    for a in alpha:
        yield PREMR + [a], 1
    if tier == "thorough" or kind == "h5":
        for a in alpha:  # the same single steps directly after PREM (no reopen in between)
            yield PREM + [a], 1
    for a in alpha:
        for b in alpha:
            yield PREMR + [a, b], 2
    r = rng(seed, f"c08:{kind}:len3")
    seen = set()
    n3 = len(alpha) ** 3
    # length 3 (and, thorough, longer walks) in seeded random order without repetition
    while len(seen) < n3:
        h = [r.choice(alpha) for _ in range(3)]
        key = digest(h)
        if key in seen:
            continue
        seen.add(key)
        yield PREMR + h, 3
        if tier == "thorough" and len(seen) % 3 == 0:
            n = r.randint(4, 8)
            yield PREMR + [r.choice(alpha) for _ in range(n)], 4


def _short(history):
    for base, nm in ((PREMR, "PREMR"), (PREM, "PREM")):
        if history[: len(base)] == base:
            return [nm] + history[len(base) :]
    return history


def run(tier: str, seed: int) -> dict:
    rec = Recorder(PID, DRV)
    quick = tier == "quick"
    total = 50.0 if quick else 540.0
    plan = [("h5", 0.6), ("ih5", 0.4)] if quick else [("h5", 0.45), ("ih5", 0.4), ("ih5mf", 0.15)]
    t0 = time.time()
    unc = uncovered_protocol_members()
    rec.check(not unc, "c08:protocol:uncovered-member", f"protocol members without a call variant in the driver's table: {unc}", case={"part": "proto"}, fns=["util/types.py:H5GroupLike"])
    fw = forwarded_specials()
    rec.case(("forwarded-specials",), nontrivial=True)
    rec.check(not fw, "c08:protocol:special-method-forwarded-to-the-raw-group", f"special methods of the raw group / file classes that the wrapper leaves to wrapt's forwarding (they bypass __getattr__ and the guards): {fw}", case={"part": "forwarded"}, fns=["container/wrappers.py:MetadorGroup"])
    stats = {"calls": 0, "effect_checks": 0, "outcomes": {}, "hung": set(), "localised": set(), "effects": {}}
    reached = {}
    status_notes = {}
    with tmpdir(prefix="vrc2_c08_") as d:
        check_named_datatype(rec, d)
        t_kind = t0
        for kind, share in plan:
            t_start, t_end = t_kind, t_kind + total * share
            t_kind = t_end
            seen_states = set()
            counts = {0: 0, 1: 0, 2: 0, 3: 0, 4: 0}
            bstates = 0
            b_time = 0.0
            complete = []
            last_level = 0
            for history, level in _enumerate(tier, seed, kind):
                if time.time() > t_end or rec.full:
                    break
                if level != last_level:
                    if last_level <= 2 and last_level not in complete:
                        complete.append(last_level)
                    last_level = level
                bad, info, box, ref = eval_history_a(kind, d, history)
                try:
                    counts[level] += 1
                    rec.case((kind, "a", info["state"], digest(history[-1:])), nontrivial=info["n_reserved"] > 0, sample={"kind": kind, "history": _short(history), "reserved_raw_entities": info["n_reserved"]})
                    for sn in bad.status_notes:
                        status_notes.setdefault(kind + ": " + sn, _short(history))
                    aspects = {}
                    for asp, det in bad:
                        aspects.setdefault(asp, det)
                    rec.evaluations += bad.n - len(bad)  # measured number of satisfied clauses; failed ones via rec.check below
                    if aspects:
                        _report_a(rec, kind, d, history, aspects)
                    # (b) on new abstract states, as long as (b) has not used more than its share of this driver's time
                    if box.c is not None and info["state"] not in seen_states and not aspects:
                        seen_states.add(info["state"])
                        if b_time <= 0.5 * (time.time() - t_start) or history == PREM or (level == 0 and kind == "h5" and len(history) >= len(PRE)):
                            tb = time.time()
                            box = untouchability(rec, kind, d, history, box, stats, t_end)
                            b_time += time.time() - tb
                            bstates += 1
                finally:
                    box.destroy()
                    try:
                        ref.close()
                    except Exception:  # noqa
                        pass
            reached[kind] = dict(histories=dict(counts), complete_levels=complete, states_b=bstates, distinct_states=len(seen_states))
        for b in _SNAP.values():
            b.destroy()
        _SNAP.clear()
    rec.notes.append(f"(b) calls={stats['calls']} batches with unchanged raw tree={stats['effect_checks']} batches with effect per variant={stats['effects']} outcomes={stats['outcomes']}")
    rec.notes.append("(b) raw-tree-unchanged is evaluated once per (state, receiver, method variant) batch over all path shapes and localised per call on mismatch")
    rec.notes.append("ih5/ih5mf: the plain reference tree is an in-memory h5py file; divergences that also occur on a plain IH5Record without container are labelled ih5-overlay (see C01/C09)")
    if status_notes:
        rec.notes.append(
            "NOT claimed under C08 (user-visible tree still equals the plain tree) but observed: user-data operations whose success/failure differs from the plain tree: "
            + "; ".join(f"{k} [history {v}]" for k, v in list(status_notes.items())[:6])
        )
    alpha_n = len(ALPHA) + len(ALPHA_ROOTDEST)
    bound = "; ".join(
        f"{k}: bases PREM (8 ops: 2 groups/datasets + attrs + 4 metadata objects) and PREMR=PREM+reopen, alphabet of {alpha_n + (1 if k != 'h5' else 0)} ops: levels completed {v['complete_levels']}, "
        f"histories run per level {v['histories']} (0 = prefixes of PREM and hand-picked states, 1/2 = every 1/2-op extension, 3 = seeded sample of 3-op extensions, 4 = seeded walks of 4..8 ops); "
        f"(b) on {v['states_b']} of {v['distinct_states']} distinct states x receivers (container + <=3 user groups) x {len(ALL_VARIANTS)} call variants x ~25-30 reserved path shapes"
        for k, v in reached.items()
    )
    return rec.result(
        rule="case (a) = (driver, abstract user+metadata state after the history, last op); non-trivial iff bookkeeping entities exist in the raw tree. "
        "case (b) = (driver, method variant, reserved path shape, root/non-root receiver, state history); each is a call that hands a reserved path to a protocol method",
        bound=bound,
        exhaustive=False,
        assumptions=[
            "plain reference tree = in-memory h5py.File driven by the same user-data operations (metadata ops, reopen, commit are no-ops there)",
            "rejection = any exception; `in` -> False and get -> None/default count as 'cannot see'",
            "effect = change of the raw tree dump through the raw protocol (logical tree incl. all metador_* entities, attributes, values)",
            "histories starting with PREM+reopen are materialised from a byte copy of a closed container in that state (same semantics as replaying)",
        ],
        trusted=["h5py as plain-tree reference", "rac/contlib2.py dump/observation helpers"],
        extra={"reached": reached},
    )


def _report_a(rec, kind, d, history, aspects):
    protect = len(PREMR) if history[: len(PREMR)] == PREMR else (len(PREM) if history[: len(PREM)] == PREM else 0)

    def fails(h, asp):
        b, _, bx, rf = eval_history_a(kind, d, h)
        bx.destroy()
        rf.close()
        return any(a == asp for a, _ in b)

    for asp, det in aspects.items():
        hmin = minimise(history, lambda h: fails(h, asp), protect=protect)
        hmin = minimise(hmin, lambda h: fails(h, asp), protect=0, max_runs=12)
        origin = kind
        extra = ""
        if kind != "h5" and asp in ("tree-mismatch", "content-mismatch", "listing-mismatch", "status", "in-false", "get-wrong"):
            # attribution: same user ops on a plain IH5Record without container
            try:
                ref = new_ref()
                for op in hmin:
                    L.apply_rop(ref, op)
                if plain_ih5_dump(d, hmin) != L.plain_dump(ref):
                    origin = "ih5-overlay"
                    extra = " [a plain IH5Record without container diverges from h5py on the same user operations too: IH5 overlay defect, cf. C01]"
                ref.close()
            except Exception:  # noqa
                pass
        sig = f"c08:view:{origin}:{asp}:" + digest([o[0] for o in hmin if o not in PREMR])
        rec.check(False, sig, f"driver {kind}, history {hmin}: {det}{extra}"[:900], case={"part": "a", "kind": kind, "history": hmin, "aspect": asp}, fns=_fns_a(asp, hmin, origin))


def _fns_a(asp, h, origin):
    if origin == "ih5-overlay":
        return ["ih5/overlay.py:IH5InnerNode._children", "ih5/overlay.py:IH5Group"]
    last = h[-1][0] if h else ""
    m = {"copy": "copy", "move": "move", "del": "__delitem__"}.get(last)
    return ["container/wrappers.py:MetadorGroup." + m] if m else ["container/wrappers.py:MetadorGroup"]


def replay(case: dict):
    if case.get("part") == "forwarded":
        fw = forwarded_specials()
        return (True, f"c08:protocol:special-method-forwarded-to-the-raw-group :: {fw}") if fw else (False, "every special method of the raw group / file classes is defined by the wrapper itself (or harmless)")
    if case.get("part") == "proto":
        unc = uncovered_protocol_members()
        return bool(unc), f"uncovered protocol members: {unc}"
    if case.get("part") == "named-datatype":
        rec = Recorder(PID, DRV)
        with tmpdir(prefix="vrc2_c08_") as d:
            check_named_datatype(rec, d)
        if rec.violations:
            return True, "; ".join(v["signature"] + " :: " + v["what"][:250] for v in rec.violations[:2])
        return False, "named datatypes are refused, or handed out wrapped and deletable"
    with tmpdir(prefix="vrc2_c08_") as d:
        if case["part"] == "a":
            bad, info, box, ref = eval_history_a(case["kind"], d, case["history"])
            box.destroy()
            ref.close()
            hit = [f"{a}: {det}" for a, det in bad if a == case.get("aspect")] or ([f"{a}: {det}" for a, det in bad] if case.get("aspect") is None else [])
            return bool(hit), ("; ".join(hit)[:600] if hit else "user view equals the plain tree, nothing reserved visible")
        rp = case["path"].encode() if str(case.get("label", "")).startswith("bytes:") else case["path"]
        out, det, eff, diff = single_call_case(case["kind"], d, case["history"], case["receiver"], case["variant"], rp)
        violated = eff or out not in ("raised", "invisible")
        return violated, f"{case['variant']}({case['path']!r}) on {case['receiver']}: {out} {det}; raw tree changed={eff} {diff}"
