"""C06 -- container TOC and attached metadata stay in exact one-to-one sync (bounded tier).

Oracle: the representation invariant TocInv (DESIGN C06 items (1)-(6)) evaluated by an independent scanner on
the RAW tree (h5py.File / IH5Record below the MetadorContainer wrappers) after EVERY operation, successful or
failed, plus: the in-memory managers of the live container equal what the raw tree says, and the managers /
public TOC API of a FRESH container after close+reopen equal the incrementally maintained ones.
"""
from __future__ import annotations

from rac import base  # noqa: F401  (numpy shim first)
from rac import contlib as C
from rac.base import digest

FNS = {
    "1": ["container/interface.py:TOCLinks.register", "container/interface.py:TOCLinks.unregister", "container/interface.py:TOCLinks.repair_missing",
          "container/wrappers.py:MetadorGroup.copy", "container/wrappers.py:MetadorGroup.move", "container/wrappers.py:MetadorGroup.__delitem__"],
    "2": ["container/interface.py:TOCLinks"],
    "3": ["container/interface.py:TOCSchemas._register", "container/interface.py:TOCSchemas._unregister"],
    "4": ["container/interface.py:TOCPackages._register", "container/interface.py:TOCPackages._unregister", "container/interface.py:TOCSchemas._unregister"],
    "5": ["container/interface.py:TOCSchemas._update_parents_children"],
    "6": ["container/interface.py:TOCLinks.unregister", "container/interface.py:MetadorMeta._del_raw"],
    "layout": ["container/wrappers.py:MetadorGroup"],
}  # fmt: skip


def _codes(viols):
    return {c for c, _ in viols}


class Checker(C.BaseChecker):
    PID = "C06"
    DRV = "c06"

    def prime(self, h, model, history, token=None):
        if token is not None:
            h.c06_prev = set(token)
            return
        S = C.scan_toc(h.raw)
        h.c06_prev = _codes(C.toc_inv_raw(S) + C.toc_inv_mem(S, h.mc))

    def token(self, h):
        return sorted(getattr(h, "c06_prev", ()))

    def before(self, h, op):
        if op[0] == "reopen":
            try:
                h.c06_mem, h.c06_api = C.mem_state(h.mc), C.api_state(h.mc)
            except Exception:  # noqa
                h.c06_mem = h.c06_api = None

    def check(self, st):
        h, rec = st.h, self.rec
        prev = getattr(h, "c06_prev", set())
        opk = st.op[0]
        # distinct non-trivial case: (driver, abstract state before, operation); trivial if nothing happened
        nontrivial = st.status == "err" or st.model is not st.model_before or opk in ("reopen", "commit")
        rec.case(digest([st.kind, st.model_before.key(), st.op]), nontrivial=nontrivial,
                 sample={"kind": st.kind, "history": st.history, "status": st.status, "exc": st.exc})  # fmt: skip

        # --- reopen: rebuilt index == incrementally maintained index -------------------------
        if opk == "reopen" and st.status == "ok":
            before_mem, before_api = getattr(h, "c06_mem", None), getattr(h, "c06_api", None)
            after_mem, after_api = C.mem_state(h.mc), C.api_state(h.mc)
            if before_mem is not None:
                for fld in ("links", "schemas", "parents", "children", "used", "pkgs", "providers"):
                    if before_mem[fld] != after_mem[fld]:
                        self.report(st, f"c06:reopen:rebuilt!=incremental:{fld}",
                                    f"in-memory '{fld}' maintained incrementally {before_mem[fld]} != rebuilt from disk after reopen {after_mem[fld]}",
                                    FNS["5"] if fld in ("parents", "children") else FNS.get({"links": "2", "schemas": "3"}.get(fld, "4")))  # fmt: skip
                    else:
                        self.ok()
                if before_api != after_api:
                    diff = [k for k in set(before_api["schemas"]) | set(after_api["schemas"]) if before_api["schemas"].get(k) != after_api["schemas"].get(k)]
                    what = f"toc.schemas API before close != after reopen for {sorted(diff)[:3]}"
                    if diff:
                        k = sorted(diff)[0]
                        a, b = before_api["schemas"].get(k), after_api["schemas"].get(k)
                        if isinstance(a, dict) and isinstance(b, dict):
                            flds = [f for f in a if a.get(f) != b.get(f)]
                            what += f": fields {flds}: {[a.get(f) for f in flds if f != 'jsonschema']} vs {[b.get(f) for f in flds if f != 'jsonschema']}"
                            self.report(st, "c06:reopen:api-differs:" + ",".join(flds), what, FNS["5"] + FNS["3"])
                        else:
                            self.report(st, "c06:reopen:api-differs:schema-set", what, FNS["3"])
                    else:
                        self.report(st, "c06:reopen:api-differs:packages", f"toc packages before {sorted(before_api['packages'])} after {sorted(after_api['packages'])}", FNS["4"])
                else:
                    self.ok()
            elif st.status != "ok":
                pass
        elif opk == "reopen":
            self.report(st, f"c06:reopen:raises:{st.exc}", f"close+reopen of the container raised {st.exc}: {st.msg}", ["container/interface.py:MetadorContainerTOC.__init__"])

        # --- TocInv on the raw tree + live managers, after every operation (successful or failed) ----
        S = st.scan
        v_raw = C.toc_inv_raw(S)
        try:
            v_mem = C.toc_inv_mem(S, h.mc)
        except Exception as e:  # noqa
            v_mem = [("mem:unreadable", f"in-memory managers not readable: {type(e).__name__}: {e}")]
        allv = v_raw + v_mem
        new = [(c, m) for c, m in allv if c not in prev]
        if not new:
            self.ok()
        elif prev:
            # the state violated TocInv already BEFORE this operation (reported when it first broke): further damage is a
            # consequence of that (the contract is `requires TocInv ensures TocInv`); counted, not reported separately
            self.followups = getattr(self, "followups", 0) + 1
            new = []
        seen_codes = set()
        for c, m in new:
            if c in seen_codes:
                continue
            seen_codes.add(c)
            outcome = st.status if st.status == "ok" else f"err-{st.exc}"
            self.report(st, f"c06:tocinv:{c}:after-{opk}:{'ok' if st.status == 'ok' else 'failed'}",
                        f"TocInv({c.split(':')[0]}) broken after {'successful' if st.status == 'ok' else 'failed'} {st.op} [{outcome}] on {st.kind}: {m}"[:700],
                        FNS.get(c.split(":")[0], []))  # fmt: skip
        # snapshot for the next operation on this container
        h.c06_prev = _codes(allv)


RULE = (
    "histories over the container operation alphabet (create dataset/group, delete, copy with/without metadata in path form, into-group form with name= and "
    "source-as-node form, move, attach (by name / (name,version) / class / PluginRef; object or dict), detach, reopen, IH5 patch boundary) on h5py.File and IH5Record. "
    "(1) sweep: scripted histories attaching every generated instance of every installed and harness-registered schema to a dataset, a group and the root, then "
    "copy/move/patch boundary/detach/reopen/copy without metadata/delete, plus scenarios (inheritance chains, several versions of one name, delete and re-create across patches, copy into the root group object). "
    "(2) exhaustive bounded search (every (distinct state, operation) pair once; de-duplication on the canonical raw scan with UUIDs abstracted + in-memory managers + IH5 physical layout; "
    "states re-materialised by replay, exploration continues on the live container) over three pruned alphabets: 'toggle' = attach/detach of vt.bb vt.cc vt.l3 [thorough: vt.aa vt.bb vt.cc vt.l2 vt.l3] on / and /d (+patch boundary) from [mkds /d]; "
    "'tree' = delete/copy(+-meta)/move/into-group copies/detach (+a rotating quarter of the failure probes) from a container with metadata on /g, /g/e, /d; "
    "'general' = from the empty container: names /d /g /g/e [/g/h] /c /g/c /k, schemas vt.bb vt.cc vt.l3 [thorough: + vt.aa vt.l2 core.file] and the failure-provoking operations "
    "(attach twice, delete/detach missing, copy/move onto existing or from missing, unknown/auxiliary/unsupported-version schema, reserved names in every position; all of them in small states, a rotating third in larger ones); every state gets a close+reopen check. "
    "(3) seeded random walks over the full alphabet and all families. A case is (driver, abstract state before, operation); non-trivial iff the operation changed the state, raised, or was a reopen/patch boundary. "
    "Moving a node into its own subtree is excluded (property); copying a group into its own subtree is included where it terminates."
)


_NOPROV = {}


def noprovider_schema():
    """A schema registered the way notebooks do it (register_in_group only): it has no entry point, so the plugin system cannot name a
    providing package and TOCSchemas._register fails when the first object is attached."""
    if not _NOPROV:
        from metador_core.plugin.util import register_in_group
        from metador_core.plugins import schemas
        from metador_core.schema import MetadataSchema

        class NoProv(MetadataSchema):
            class Plugin:
                name = "vq.noprovider"
                version = (0, 1, 0)

            x: int

        register_in_group(schemas, NoProv, violently=True)
        _NOPROV["cls"] = schemas.get("vq.noprovider", (0, 1, 0))
    return _NOPROV["cls"]


def phase_failed_attach(chk, rec, d, bounds):
    """'After every container operation, successful OR FAILED': an attach that fails inside the TOC registration (no provider for the schema)
    leaves no object, no schema record, no reserved link, and the container opens afterwards."""
    n = 0
    for kind in ("h5", "ih5"):
        for with_other in (False, True):
            wd = d / f"failattach_{kind}_{int(with_other)}"
            wd.mkdir()
            case = {"part": "failed-attach", "kind": kind, "with_other": with_other}
            rec.case(("failed-attach", kind, with_other), nontrivial=True)
            h = C.Handle(kind, wd)
            try:
                cls = noprovider_schema()
                h.mc["d"] = 1
                h.mc.create_group("g")
                if with_other:
                    C.apply_cop(h, ["attach", "/g", *sorted(k for k, i in C.install_families().items() if i.instances and not i.auxiliary)[0], 0])
                S0 = C.scan_toc(h.raw)
                before = _codes(C.toc_inv_raw(S0) + C.toc_inv_mem(S0, h.mc))
                for path in ("/d", "/g"):
                    try:
                        C.node_of(h.mc, path).meta[cls] = cls(x=1)
                        status = "ok"
                    except Exception as e:  # noqa
                        status = type(e).__name__
                    S = C.scan_toc(h.raw)
                    viols = [(c, w) for c, w in C.toc_inv_raw(S) + C.toc_inv_mem(S, h.mc) if c not in before]
                    rec.check(not viols, "c06:failed-attach:" + (viols[0][0] if viols else ""), f"[{kind}] attach of a schema without provider to {path} ({status}) leaves TocInv broken: {viols[:2]}", case, FNS["3"] + ["container/interface.py:MetadorMeta._set_raw"])
                    n += 1
                try:
                    h.reopen()
                    ok = None
                except Exception as e:  # noqa
                    ok = e
                rec.check(ok is None, "c06:failed-attach:container-does-not-open", f"[{kind}] after a failed attach the container cannot be opened: {type(ok).__name__}: {ok}", case, FNS["3"])
            except Exception as e:  # noqa
                rec.violated(f"c06:failed-attach:driver-exception:{type(e).__name__}", f"[{kind}] {type(e).__name__}: {e}", case, FNS["3"])
            finally:
                h.close()
    bounds["failed_attach"] = f"failed attach (schema without a providing package): {n} attaches on dataset and group, both drivers, with and without other metadata present, then reopen"


def run(tier: str, seed: int) -> dict:
    return C.run_driver(
        Checker, tier, seed, RULE,
        extra_phase=phase_failed_attach,
        assumptions=["TocInv as spelled out in DESIGN C06 (1)-(6) is the reading of 'exact one-to-one sync'",
                     "other metador_* names outside the known layout are C08's business and not judged here"],
        trusted=["scanner reads in-memory managers through the private attributes named in the property anchors (_toc_path, _schemas, _parents, _children, _used, _pkginfos, _providers)"],
    )  # fmt: skip


_replay_history = C.make_replay(Checker)


def replay(case: dict):
    if case.get("part") == "failed-attach":
        from rac.base import Recorder, tmpdir

        C.install_families()
        rec = Recorder("C06", "c06", max_violations=50)
        with tmpdir() as d:
            phase_failed_attach(None, rec, d, {})
        hit = [v for v in rec.violations if v["replay"]["case"].get("kind") == case.get("kind")] or rec.violations
        if hit:
            return True, f"{hit[0]['signature']}: {hit[0]['what']}"[:600]
        return False, "failed-attach phase: nothing is left behind and the container opens"
    return _replay_history(case)
