"""C03 -- closing and reopening reproduces the view; open modes follow the h5py.File contract lifted to records.

Contract clauses (all from the property statement; observations: tree dumps, directory listing + sha256, exceptions):
 (A) REOPEN   dump before close() == dump after reopening by name and by the explicit file list in EVERY permutation
              (modes r; and r+/a, whose freshly started empty patch must not change the view)
 (B) NO-TOUCH opening (+ close(commit=False)) never alters an existing file unless the mode asks: 'r' changes nothing at all;
              'r+'/'a' on a committed record only ADD one new uncommitted file; on an uncommitted newest container they add nothing
              and leave every committed file byte-identical; a refused open changes nothing
 (C) MODES    r: read-only (mutations and create/commit/discard_patch raise, nothing changes);  r+/a: continue or start a patch
              (writable afterwards);  a: creates when absent;  r/r+ on absent raise;  w: replaces the whole record;
              x/w-: refuse an existing record;  discard_patch: view == view at last commit and the patch file is gone;
              close(): commits the pending patch; close(commit=False) does not
 (D) SHARED   all of it in a directory holding prefix-related records foo / foo2 / foo-bar / fo: a record only ever sees
              and touches its own files (find_files, list_records, open by name, 'w').
File ownership is tracked by provenance (a file belongs to the record whose API call made it appear), not by a naming rule.
"""
from __future__ import annotations

import itertools
import shutil
import time
from pathlib import Path

from rac import base
from rac.base import Recorder, digest, tmpdir, watchdog
from rac import lifecycle as LC
from rac.ih5lib import apply_op, dump_tree
from rac.lifecycle import CLASSES, HISTORIES, dir_digests, flat_ops, is_committed, ref_dump, try_open

PID, DRV = "C03", "c03"
FNS = ["ih5/record.py:IH5Record.__init__", "ih5/record.py:IH5Record._open"]
NAMES = ["foo", "foo2", "foo-bar", "fo"]
SITUATIONS = ["absent", "ubase", "cbase", "patched", "upatch"]
MODES = ["r", "r+", "a", "w", "w-", "x"]
EMPTY = {"attrs": {}, "ch": {}}
NEWOP = ["set", "zz/n0", 10]


def _safe(fn):
    """Run an API call; returns None if it returned normally, else the exception name."""
    try:
        with watchdog(LC.STEP_TIMEOUT_S):
            fn()
        return None
    except BaseException as e:  # noqa
        if isinstance(e, (KeyboardInterrupt, SystemExit)):
            raise
        return type(e).__name__


def build_situation(cls, d: Path, name: str, sit: str, hidx: int):
    """Create record `name` in d in the given on-disk situation. Returns facts dict (files by provenance)."""
    before = set(p.name for p in d.iterdir())
    segs = HISTORIES[hidx]
    info = {"name": name, "sit": sit, "hist": hidx, "view": None, "commit_view": None, "ops": []}
    if sit != "absent":
        if sit in ("ubase", "cbase"):
            segs = segs[:1]
        elif len(segs) < 2:
            segs = segs + [[["set", "extra/p", 5]]]
        commit_last = sit in ("cbase", "patched")
        rec, dumps = LC.build_segments(cls, d / name, segs, commit_last=commit_last)
        info["view"] = dump_tree(rec)
        info["commit_view"] = dumps[-1] if dumps else None
        info["ops"] = flat_ops(segs)
        rec.close(commit=False)
    info["files"] = sorted(p.name for p in d.iterdir() if p.name not in before)
    info["containers"] = [n for n in info["files"] if n.endswith(".ih5")]
    # newest container by the patch index in the on-disk user block (driver's own parser)
    info["newest"] = max(info["containers"], key=lambda f: LC.patch_index(d / f)) if info["containers"] else None
    return info


class Template:
    """A shared directory: subject record in situation `sit`, the other three names as neighbours."""

    def __init__(self, root: Path, cls_key: str, subject: str, sit: str, hidx: int, variant: int):
        self.cls_key, self.cls = cls_key, CLASSES[cls_key]
        self.subject, self.sit, self.hidx = subject, sit, hidx
        self.dir = root
        root.mkdir(parents=True)
        self.recs = {}
        nb_sits = ["patched", "upatch", "cbase", "ubase"]
        others = [n for n in NAMES if n != subject]
        # creation order interleaved with the subject so provenance is never by luck of ordering
        order = others[:1] + [subject] + others[1:]
        for i, n in enumerate(order):
            if n == subject:
                self.recs[n] = build_situation(self.cls, root, n, sit, hidx)
            else:
                k = others.index(n)
                self.recs[n] = build_situation(self.cls, root, n, nb_sits[(k + variant) % len(nb_sits)], (hidx + 1 + k) % len(HISTORIES))
        self.digests = dir_digests(root)

    def instantiate(self, dst: Path):
        shutil.copytree(self.dir, dst)
        return dst


def case_id(cls_key, subject, sit, hidx, variant, mode, how, end):
    return {"kind": "mode", "cls": cls_key, "subject": subject, "sit": sit, "hist": hidx, "variant": variant, "mode": mode, "how": how, "end": end}


def check_isolation(R, T: Template, d: Path, own_now: set, sig, case, open_neighbours=True):
    """(D): neighbours byte-identical, discovery functions see exactly the own files, neighbours open to their own view."""
    cls = T.cls
    now = dir_digests(d)
    for n, info in T.recs.items():
        if n == T.subject:
            continue
        for f in info["files"]:
            R.check(now.get(f) == T.digests[f], f"{sig}:neighbour-file-touched", f"file {f} of record {n} changed/disappeared while operating on {T.subject}", case, FNS + ["ih5/record.py:IH5Record.delete_files", "ih5/record.py:IH5Record.find_files"])
    owners = {n: set(info["containers"]) for n, info in T.recs.items() if n != T.subject}
    owners[T.subject] = set(f for f in own_now if f.endswith(".ih5"))
    for n in NAMES:
        exc = []
        found = None

        def ff():
            nonlocal found
            found = set(p.name for p in cls.find_files(d / n))

        e = _safe(ff)
        R.check(e is None and found == owners[n], f"{sig}:find_files:{n}", f"find_files({n}) = {sorted(found) if found is not None else e}, files made by that record = {sorted(owners[n])}", case, ["ih5/record.py:IH5Record.find_files"])
    listed = None

    def lr():
        nonlocal listed
        listed = sorted(p.name for p in cls.list_records(d))

    e = _safe(lr)
    want = sorted(n for n in NAMES if owners[n])
    R.check(e is None and listed == want, f"{sig}:list_records", f"list_records = {listed if listed is not None else e}, records present = {want}", case, ["ih5/record.py:IH5Record.list_records"])
    if open_neighbours:
        for n, info in T.recs.items():
            if n == T.subject or info["sit"] == "absent":
                continue
            dmp, _, err = LC.open_dump(cls, d / n, "r")
            R.check(err is None and dmp == info["view"], f"{sig}:neighbour-view:{n}", f"record {n} opened by name shows {'error ' + str(err) if err else 'a different tree'} after operating on {T.subject}", case, FNS)


def run_mode_case(R: Recorder, T: Template, d: Path, mode: str, how: str, end: str, rnd, case, stats):
    """One cell of the mode table, in a fresh copy `d` of template T."""
    cls, subj = T.cls, T.recs[T.subject]
    sit = T.sit
    sig = f"c03:{T.cls_key}:{sit}:{mode}"  # the argument form (name / list) is in the case, not in the signature
    before = dir_digests(d)
    own_before = set(subj["files"])
    if how == "name":
        arg = d / T.subject
    else:
        lst = [d / f for f in subj["containers"]]
        rnd.shuffle(lst)
        arg = lst
    rec, err = try_open(cls, arg, mode)
    after_open = dir_digests(d)
    new_files = sorted(set(after_open) - set(before))
    gone = sorted(set(before) - set(after_open))
    changed = sorted(f for f in before if f in after_open and before[f] != after_open[f])
    own_now = (own_before - set(gone)) | set(new_files)
    exists = sit != "absent"
    nontrivial = True

    def untouched(what, a=None, b=None):
        a = before if a is None else a
        b = dir_digests(d) if b is None else b
        R.check(a == b, f"{sig}:{what}", f"{what}: directory changed: new={sorted(set(b) - set(a))} gone={sorted(set(a) - set(b))} modified={sorted(f for f in a if f in b and a[f] != b[f])}", case, FNS)

    try:
        if how == "list" and mode in ("w", "w-", "x"):
            # creating/overwriting through a file list makes no sense; the property only demands that a refusal has no effect
            if err is not None:
                untouched("refused-open-had-effect", before, after_open)
            stats["refused"] += 1
            return
        if how == "list" and not exists:
            stats["skipped"] += 1
            nontrivial = False
            return
        # ---------------- refusals
        if (mode in ("r", "r+") and not exists) or (mode in ("x", "w-") and exists):
            R.check(err is not None, f"{sig}:must-refuse", f"mode {mode} on {'absent' if not exists else 'existing'} record must raise, but opened", case, FNS)
            untouched("refused-open-had-effect", before, after_open)
            stats["refused"] += 1
            return
        R.check(err is None, f"{sig}:must-open", f"mode {mode} on situation {sit} must open, got {err}", case, FNS)
        if err is not None:
            return
        stats["opened"] += 1
        view = dump_tree(rec)
        # ---------------- creation / replacement
        if mode in ("w", "x", "w-") or (mode == "a" and not exists):
            if mode == "w" and exists:
                left = sorted(f for f in subj["containers"] if f in after_open and after_open[f] == before[f])
                R.check(not left, f"{sig}:old-containers-survive", f"'w' must replace the whole record, old containers still there: {left}", case, ["ih5/record.py:IH5Record.delete_files"])
                sidecars = sorted(f for f in subj["files"] if not f.endswith(".ih5") and f in after_open)
                if sidecars:
                    stats["w_leftover_sidecars"] += 1
                own_now = set(f for f in after_open if f in new_files or (f in own_before and f in after_open))
                cont_now = sorted(f for f in own_now if f.endswith(".ih5"))
                R.check(len(cont_now) == 1, f"{sig}:not-single-base", f"after 'w' the record must consist of one fresh base container, has {cont_now}", case, FNS)
            else:
                R.check(not gone and not changed and len(new_files) == 1, f"{sig}:create-touches-others", f"creating must only add one file: new={new_files} gone={gone} modified={changed}", case, FNS)
            R.check(view == EMPTY, f"{sig}:fresh-not-empty", "a freshly created/replaced record must be empty", case, FNS)
            e = _safe(lambda: apply_op_strict(rec, NEWOP))
            R.check(e is None, f"{sig}:fresh-not-writable", f"fresh record must be writable, got {e}", case, FNS)
            _safe(lambda: rec.close(commit=True))
            for cp in LC.containers_named(d, T.subject):
                bad = LC.stored_hash_wrong(cp)  # what any OTHER process will compare against when it reopens the record
                R.check(bad is None, f"{sig}:committed-with-wrong-hash", f"after close(commit) the recorded payload hash is not the hash of the file: {bad}", case, FNS + ["ih5/record.py:hashsum_file"])
            dmp, _, e2 = LC.open_dump(cls, d / T.subject, "r")
            R.check(e2 is None and dmp == ref_dump([NEWOP]), f"{sig}:fresh-roundtrip", f"fresh record after close/reopen: {'error ' + str(e2) if e2 else 'different tree'}", case, FNS)
            own_now = set(f for f in dir_digests(d) if f in own_now or f not in before)
            check_isolation(R, T, d, own_now, sig, case)
            return
        # ---------------- existing record, modes r / r+ / a
        R.check(view == subj["view"], f"{sig}:view-differs", "tree after reopening differs from the tree before close()", case, FNS)
        if mode == "r":
            untouched("r-open-touched-files", before, after_open)
            probes = [
                ("set", lambda: apply_op_strict(rec, NEWOP)),
                ("mkgrp", lambda: rec.create_group("zz-g")),
                ("setattr", lambda: rec.attrs.__setitem__("zz-k", 1)),
                ("create_patch", rec.create_patch),
                ("commit_patch", rec.commit_patch),
                ("discard_patch", rec.discard_patch),
                # the same through the record a node hands out as .file (h5py: node.file is the file the node lives in, same mode)
                ("node.file.create_patch", lambda: rec["/"].file.create_patch()),
                ("node.file.commit_patch", lambda: rec["/"].file.commit_patch()),
                ("node.file.discard_patch", lambda: rec["/"].file.discard_patch()),
            ]
            R.check(rec["/"].file.mode == "r", f"{sig}:r-node-file-mode", "node.file of a record opened 'r' does not report mode 'r'", case, FNS)
            firstds = LC.first_dataset_path(HISTORIES[T.hidx][:1])
            if firstds and firstds.split("/")[0] in (view.get("ch") or {}):
                top = firstds.split("/")[0]
                probes.append(("del", lambda: rec.__delitem__(top)))
            if view["attrs"]:
                k0 = sorted(view["attrs"])[0]
                probes.append(("delattr", lambda: rec.attrs.__delitem__(k0)))
            prev = before
            for nm, fn in probes:
                e = _safe(fn)
                R.check(e is not None, f"{sig}:r-allows:{nm}", f"{nm} on a record opened 'r' must raise", case, FNS)
                now = dir_digests(d)
                R.check(now == prev, f"{sig}:r-{nm}-touched-files", f"{nm} on a record opened 'r' changed the directory", case, FNS)
                prev = now
            R.check(dump_tree(rec) == subj["view"], f"{sig}:r-view-changed", "view changed by operations on a record opened 'r'", case, FNS)
            before = prev
            _safe(lambda: rec.close())  # default close: commit=True must not commit anything in 'r'
            untouched("r-close-touched-files")
            check_isolation(R, T, d, own_before, sig, case, open_neighbours=False)
            return
        # r+ / a
        newest_uncommitted = sit in ("ubase", "upatch")
        for f in before:
            if f in subj["containers"] and sit in ("ubase", "upatch") and f == _newest(d, subj):
                continue  # the uncommitted newest container is what 'r+'/'a' asked to write to
            R.check(after_open.get(f) == before[f], f"{sig}:existing-file-altered", f"existing file {f} altered/removed by opening in mode {mode}", case, FNS)
        if newest_uncommitted:
            R.check(not new_files, f"{sig}:continue-made-new-file", f"continuing an uncommitted container must not create files: {new_files}", case, FNS)
        else:
            R.check(len(new_files) == 1 and new_files[0].endswith(".ih5") and not is_committed(d / new_files[0]), f"{sig}:start-patch", f"starting a patch must add exactly one uncommitted container, new files: {new_files}", case, FNS + ["ih5/record.py:IH5Record.create_patch"])
        if end == "close0":
            _safe(lambda: rec.close(commit=False))
            now = dir_digests(d)
            for f in before:
                if sit in ("ubase", "upatch") and f == _newest(d, subj):
                    R.check(f in now and not is_committed(d / f), f"{sig}:close0-committed", "close(commit=False) must leave the newest container uncommitted", case, ["ih5/record.py:IH5Record.close"])
                    continue
                R.check(now.get(f) == before[f], f"{sig}:close0-existing-file-altered", f"existing file {f} altered by open({mode}) + close(commit=False)", case, FNS)
            R.check(sorted(set(now) - set(before)) == new_files, f"{sig}:close0-extra-files", "close(commit=False) created/removed files", case, FNS)
            dmp, _, e2 = LC.open_dump(cls, d / T.subject, "r")
            R.check(e2 is None and dmp == subj["view"], f"{sig}:close0-reopen", f"after open({mode})+close(commit=False) reopening shows {'error ' + str(e2) if e2 else 'a different tree'}", case, FNS)
            check_isolation(R, T, d, own_now, sig, case)
            return
        e = _safe(lambda: apply_op_strict(rec, NEWOP))
        R.check(e is None, f"{sig}:not-writable", f"record opened {mode} must accept writes, got {e}", case, FNS)
        want_new = ref_dump(subj["ops"] + [NEWOP])
        got = dump_tree(rec)
        R.check(got == want_new, f"{sig}:write-not-visible", "tree after one write differs from the reference tree", case, ["ih5/overlay.py"])
        if end == "discard":
            if sit == "ubase":
                _safe(lambda: rec.close(commit=False))
                return  # a base cannot be discarded; nothing claimed
            e = _safe(rec.discard_patch)
            R.check(e is None, f"{sig}:discard-refused", f"discard_patch on an open patch raised {e}", case, ["ih5/record.py:IH5Record.discard_patch"])
            if e is None:
                R.check(dump_tree(rec) == subj["commit_view"], f"{sig}:discard-view", "after discard_patch the view differs from the view at the last commit", case, ["ih5/record.py:IH5Record.discard_patch"])
                now = dir_digests(d)
                want = {f: h for f, h in before.items() if not (sit == "upatch" and f == _newest_name(subj))}
                R.check(now == want, f"{sig}:discard-files", f"after discard_patch directory must equal the committed files: extra={sorted(set(now) - set(want))} missing={sorted(set(want) - set(now))} modified={sorted(f for f in want if f in now and now[f] != want[f])}", case, ["ih5/record.py:IH5Record._delete_latest_container"])
                own_now = set(f for f in own_before if f in now)
            _safe(lambda: rec.close(commit=False))
            dmp, _, e2 = LC.open_dump(cls, d / T.subject, "r")
            R.check(e2 is None and dmp == subj["commit_view"], f"{sig}:discard-reopen", f"after discard + close reopening shows {'error ' + str(e2) if e2 else 'a different tree'}", case, FNS)
            check_isolation(R, T, d, own_now, sig, case)
            return
        if end == "closecommit":
            e = _safe(lambda: rec.close())
            R.check(e is None, f"{sig}:close-raised", f"close() raised {e}", case, ["ih5/record.py:IH5Record.close"])
            now = dir_digests(d)
            for f, h in before.items():
                if sit in ("ubase", "upatch") and f == _newest_name(subj):
                    continue
                R.check(now.get(f) == h, f"{sig}:closecommit-existing-file-altered", f"existing file {f} altered by writing through mode {mode} and close()", case, FNS)
            own_now = set(f for f in now if f in own_before or f not in before)
            conts = [f for f in own_now if f.endswith(".ih5")]
            R.check(all(is_committed(d / f) for f in conts), f"{sig}:close-did-not-commit", "close() must commit the pending patch", case, ["ih5/record.py:IH5Record.close"])
            dmp, _, e2 = LC.open_dump(cls, d / T.subject, "r")
            R.check(e2 is None and dmp == want_new, f"{sig}:closecommit-reopen", f"after close() reopening shows {'error ' + str(e2) if e2 else 'a different tree than before close'}", case, FNS)
            lst = [d / f for f in conts]
            rnd.shuffle(lst)
            dmp, _, e2 = LC.open_dump(cls, lst, "r")
            R.check(e2 is None and dmp == want_new, f"{sig}:closecommit-reopen-list", f"after close() reopening by shuffled list shows {'error ' + str(e2) if e2 else 'a different tree'}", case, FNS)
            check_isolation(R, T, d, own_now, sig, case)
            return
    finally:
        if rec is not None:
            _safe(lambda: rec.close(commit=False))
        R.case(digest(case), nontrivial=nontrivial, sample=dict(case, open_error=err) if stats["cells"] % 131 == 7 else None)


def apply_op_strict(rec, op):
    st, exc = apply_op(rec, op, is_ih5=True)
    if st != "ok":
        raise RuntimeError(f"{op}: {st} {exc}")


def _newest_name(subj):
    return subj["newest"]


def _newest(d, subj):
    return _newest_name(subj)


def ends_for(mode, sit):
    if mode in ("r+", "a") and sit != "absent":
        return ["close0", "discard", "closecommit"]
    return ["-"]


# ------------------------------------------------------------------------------------------------
# (A) reopen in every permutation
# ------------------------------------------------------------------------------------------------
# a long chain: 12 containers, so that patch indices cross from one to two digits (file names foo.p9.ih5 -> foo.p10.ih5)
LONG_HISTORY = [[["set", "a/x", 0], ["setattr", "/", "k", 0]]] + [[["set", f"a/n{i}", i], ["setattr", "/", "k", i]] + ([["del", f"a/n{i-1}"]] if i % 3 == 0 else []) for i in range(1, 12)]


def run_generations_case(R: Recorder, cls_key: str, case):
    """A record name reused in one process: generation 1 is created, used and reopened; then mode 'w' replaces it by
    generation 2 (other content); what is on disk afterwards must be a record any other process can open: every
    recorded payload hash is the hash of the file, and reopening shows generation 2."""
    cls = CLASSES[cls_key]
    sig = f"c03:{cls_key}:generations"
    with tmpdir() as d:
        views = []
        for gen, mode2 in ((1, "r+"), (2, "a"), (3, "r+")):
            rec = cls(d / "foo", "w")
            apply_op(rec, ["set", f"g{gen}/x", gen], is_ih5=True)
            apply_op(rec, ["setattr", "/", "gen", gen], is_ih5=True)
            rec.close()
            rec, err = try_open(cls, d / "foo", mode2)
            if not R.check(err is None, f"{sig}:reopen-for-update", f"generation {gen}: the record just written with 'w' cannot be reopened with {mode2!r}: {err}", dict(case, gen=gen), FNS + ["ih5/record.py:hashsum_file"]):
                return
            apply_op(rec, ["set", f"g{gen}/y", [gen] * (gen + 1)], is_ih5=True)
            view = dump_tree(rec)
            rec.close()
            for cp in LC.containers_named(d, "foo"):
                bad = LC.stored_hash_wrong(cp)
                R.check(bad is None, f"{sig}:committed-with-wrong-hash", f"generation {gen}: recorded payload hash is not the hash of the file ({bad}); no other process can open this record", dict(case, gen=gen), FNS + ["ih5/record.py:hashsum_file"])
            dmp, _, err = LC.open_dump(cls, d / "foo", "r")
            R.check(err is None and dmp == view, f"{sig}:reopen", f"generation {gen}: reopen by name: {'error ' + str(err) if err else 'tree differs from the one before close()'}", dict(case, gen=gen), FNS)
            R.case(("generations", cls_key, gen), nontrivial=True)
            views.append(view)


def run_reopen_case(R: Recorder, cls_key: str, hidx: int, commit_last: bool, case, stats, perms_limit=None, segments=None):
    cls = CLASSES[cls_key]
    sig = f"c03:{cls_key}:reopen:{'committed' if commit_last else 'uncommitted-newest'}" + (":long-chain" if segments is not None else "")
    with tmpdir() as d:
        rec, dumps = LC.build_segments(cls, d / "foo", segments if segments is not None else HISTORIES[hidx], commit_last=commit_last)
        view = dump_tree(rec)
        files = [Path(f.filename) for f in rec.__files__]
        rec.close(commit=False)
        before = dir_digests(d)
        dmp, _, err = LC.open_dump(cls, d / "foo", "r")
        R.check(err is None and dmp == view, f"{sig}:by-name", f"reopen by name: {'error ' + str(err) if err else 'tree differs from the one before close()'}", case, FNS)
        if perms_limit:
            n_f = len(files)
            perms = [tuple(range(n_f)), tuple(reversed(range(n_f))), tuple(list(range(1, n_f, 2)) + list(range(0, n_f, 2)))][:perms_limit]
        else:
            perms = list(itertools.permutations(range(len(files))))
        for perm in perms:
            lst = [files[i] for i in perm]
            dmp, _, err = LC.open_dump(cls, lst, "r")
            stats["perm_opens"] += 1
            R.check(err is None and dmp == view, f"{sig}:perm-of-{len(files)}", f"reopen with file order {list(perm)}: {'error ' + str(err) if err else 'tree differs'}", dict(case, perm=list(perm)), FNS)
        R.check(dir_digests(d) == before, f"{sig}:r-opens-touched-files", "opening in 'r' (any order) changed files", case, FNS)
        for mode in ("r+", "a"):
            for arg in (d / "foo", list(reversed(files))):
                b4 = dir_digests(d)
                rec2, err = try_open(cls, arg, mode)
                R.check(err is None, f"{sig}:{mode}:open", f"open {mode} failed: {err}", case, FNS)
                if rec2 is None:
                    continue
                try:
                    R.check(dump_tree(rec2) == view, f"{sig}:{mode}:view", f"view right after opening {mode} differs from the view before close()", case, FNS)
                    if commit_last:
                        _safe(rec2.discard_patch)
                finally:
                    _safe(lambda: rec2.close(commit=False))
                now = dir_digests(d)
                if commit_last:
                    R.check(now == b4, f"{sig}:{mode}:open-discard-roundtrip", "open + discard_patch + close must restore the directory exactly", case, FNS)
                else:
                    R.check(set(now) == set(b4) and all(now[f] == b4[f] for f in b4 if f != files[-1].name), f"{sig}:{mode}:continue-touched-committed", "continuing the uncommitted container changed other files", case, FNS)
        R.case(digest(case), nontrivial=len(files) > 1 or not commit_last, sample=dict(case, files=[f.name for f in files], permutations=len(perms)) if len(files) == 4 and commit_last else None)


# ------------------------------------------------------------------------------------------------
def mode_cells():
    for sit in SITUATIONS:
        for mode in MODES:
            for how in ("name", "list"):
                for end in ends_for(mode, sit):
                    yield sit, mode, how, end


# record names whose own text looks like part of the suffix grammar (<name>[.p<k>].ih5): digits, a trailing p<digits>, dashes
NAME_SHAPES = ["exp1", "step10", "run-p2", "p1", "x-p3", "ih5", "a-p", "2020", "P9p9"]


def run_nameshape_case(R: Recorder, cls_key: str, name: str, case):
    """A record alone in a directory: base, then two patches written after reopening BY NAME; every file that appears
    must belong to that name (so that find_files sees it), and reopening by name shows everything written."""
    cls = CLASSES[cls_key]
    sig = f"c03:{cls_key}:nameshape"
    with tmpdir() as d:
        rec = cls(d / name, "x")
        apply_op(rec, ["set", "base/x", 0], is_ih5=True)
        view = dump_tree(rec)
        rec.close()
        for gen in (1, 2):
            rec, err = try_open(cls, d / name, "r+" if gen == 1 else "a")
            if not R.check(err is None, f"{sig}:reopen-for-update", f"record {name!r}: cannot be reopened by name for patch {gen}: {err}", dict(case, gen=gen), FNS):
                return
            if not R.check(dump_tree(rec) == view, f"{sig}:reopen", f"record {name!r}: reopened by name before patch {gen}: tree differs from the one before close()", dict(case, gen=gen), FNS):
                rec.close()
                return
            apply_op(rec, ["set", f"patch{gen}/y", gen], is_ih5=True)
            view = dump_tree(rec)
            rec.close()
            foreign = sorted(p.name for p in d.iterdir() if not p.name.startswith(name + "."))
            R.check(not foreign, f"{sig}:foreign-file", f"record {name!r}: writing patch {gen} after a reopen by name created files outside the record's own names: {foreign}", dict(case, gen=gen), FNS + ["ih5/record.py:IH5Record._infer_name"])
            dmp, _, err = LC.open_dump(cls, d / name, "r")
            R.check(err is None and dmp == view, f"{sig}:reopen", f"record {name!r}: reopen by name after patch {gen}: {'error ' + str(err) if err else 'tree differs from the one before close()'}", dict(case, gen=gen), FNS + ["ih5/record.py:IH5Record._infer_name"])
            R.case(("nameshape", cls_key, name, gen), nontrivial=True)


def run(tier: str, seed: int) -> dict:
    R = Recorder(PID, DRV)
    t0 = time.time()
    rnd = base.rng(seed, "c03")
    stats = {"opened": 0, "refused": 0, "skipped": 0, "perm_opens": 0, "w_leftover_sidecars": 0, "cells": 0, "templates": 0}
    budget = 50.0 if tier == "quick" else 520.0
    # ---- (A0) long chain (any number of patches; index formatting boundary at 10)
    for cls_key in ("ih5",) if tier == "quick" else ("ih5", "mf"):
        case = {"kind": "reopen-long", "cls": cls_key, "commit_last": True}
        run_reopen_case(R, cls_key, -1, True, case, stats, perms_limit=3, segments=LONG_HISTORY)
    # ---- (A00) the same record name through several generations in this process
    for cls_key in ("ih5", "mf"):
        run_generations_case(R, cls_key, {"kind": "generations", "cls": cls_key})
    # ---- (A01) names that look like parts of the file-name grammar
    for cls_key in ("ih5",) if tier == "quick" else ("ih5", "mf"):
        for nm in NAME_SHAPES:
            run_nameshape_case(R, cls_key, nm, {"kind": "nameshape", "cls": cls_key, "name": nm})
    # ---- (A)
    hist_a = [0, 1, 3, 5] if tier == "quick" else list(range(len(HISTORIES)))
    a_done = 0
    for cls_key in ("ih5", "mf"):
        for hidx in hist_a:
            for commit_last in (True, False):
                if time.time() - t0 > budget * 0.3:
                    break
                case = {"kind": "reopen", "cls": cls_key, "hist": hidx, "commit_last": commit_last}
                run_reopen_case(R, cls_key, hidx, commit_last, case, stats)
                a_done += 1
    # ---- (B)(C)(D)
    if tier == "quick":
        combos = [(c, s, 0) for c in ("ih5", "mf") for s in NAMES]  # (class, subject, variant); history rotates with the situation
        hist_of = lambda si, vi: [1, 3, 5, 2][si % 4]  # noqa
    else:
        combos = [(c, s, v) for v in range(9) for c in ("ih5", "mf") for s in NAMES]
        hist_of = lambda si, vi: (si * 2 + vi * 3 + 1) % len(HISTORIES)  # noqa
    complete = True
    done_combos = 0
    with tmpdir() as root:
        k = 0
        for cls_key, subject, variant in combos:
            for si, sit in enumerate(SITUATIONS):
                if time.time() - t0 > budget:
                    complete = False
                    break
                hidx = hist_of(si + NAMES.index(subject), variant)
                T = Template(root / f"t{k}", cls_key, subject, sit, hidx, variant)
                stats["templates"] += 1
                k += 1
                for mode in MODES:
                    for how in ("name", "list"):
                        for end in ends_for(mode, sit):
                            case = case_id(cls_key, subject, sit, hidx, variant, mode, how, end)
                            d = T.instantiate(root / f"c{k}")
                            k += 1
                            run_mode_case(R, T, d, mode, how, end, base.rng(seed, digest(case)), case, stats)
                            stats["cells"] += 1
                            shutil.rmtree(d, ignore_errors=True)
                shutil.rmtree(T.dir, ignore_errors=True)
            if not complete:
                break
            done_combos += 1
    if stats["w_leftover_sidecars"]:
        R.notes.append(f"observation (not claimed as violation): mode 'w' on an IH5MFRecord left manifest sidecars (*.ih5mf.json) of the replaced record behind in {stats['w_leftover_sidecars']} cases (delete_files only removes *.ih5)")
    R.notes.append(f"reopen cases: {a_done} ({stats['perm_opens']} permutation opens); mode-table cells: {stats['cells']} in {stats['templates']} shared directories (opened {stats['opened']}, refused {stats['refused']}, n/a {stats['skipped']})")
    return R.result(
        rule="(A01) a record named like a piece of the file-name grammar (" + ", ".join(NAME_SHAPES) + "), alone in its directory: base + two patches each written after a reopen by name; (A) case = (class, history of the fixed family (1-4 containers), newest committed or not): reopen by name, by every permutation of the explicit file list, and in r+/a; "
        "(B-D) case = cell (class, subject name in {foo,foo2,foo-bar,fo}, on-disk situation in {absent, uncommitted base, committed base, patched, uncommitted patch}, "
        "mode in {r,r+,a,w,w-,x}, by name | by shuffled explicit list, ending in {close(commit=False), write+discard_patch, write+close()}) run in a directory shared with the three other "
        "prefix-related records (each in another situation); distinct = distinct cells/cases; every cell exercises at least one clause on real files",
        bound=f"(A) {a_done} cases over histories {hist_a}, all permutations (<= 24) of <= 4 files; (B-D) {done_combos}/{len(combos)} (class x subject x neighbour-variant) groups x 5 situations x 6 modes x 2 argument forms x endings = {stats['cells']} cells" + ("" if complete else " (budget hit)"),
        exhaustive=complete,
        assumptions=[
            "ownership of files is by provenance (which record's API call made the file appear); the uncommitted newest container itself may change when reopened r+/a (the mode asks for it)",
            "an explicit file list with w/w-/x is refused by the API; only 'a refusal changes nothing' is claimed for it; opening an absent record by explicit list is not applicable",
            "discard_patch on an uncommitted BASE is refused by the API and not claimed either way",
            "the expected tree after one extra write is the single-plain-tree reference (h5py in-memory file) on C01-clean histories",
        ],
        trusted=["sha256 collision freedom", "the driver's own user-block parser (rac/lifecycle.py:parse_ublock_bytes)", "h5py in-memory file as reference tree"],
    )


def replay(case: dict):
    R = Recorder(PID, DRV)
    stats = {"opened": 0, "refused": 0, "skipped": 0, "perm_opens": 0, "w_leftover_sidecars": 0, "cells": 0, "templates": 0}
    if case["kind"] == "generations":
        run_generations_case(R, case["cls"], {"kind": "generations", "cls": case["cls"]})
    elif case["kind"] == "nameshape":
        run_nameshape_case(R, case["cls"], case["name"], {"kind": "nameshape", "cls": case["cls"], "name": case["name"]})
    elif case["kind"] == "reopen-long":
        c = {k: v for k, v in case.items() if k != "perm"}
        run_reopen_case(R, case["cls"], -1, case["commit_last"], c, stats, perms_limit=3, segments=LONG_HISTORY)
    elif case["kind"] == "reopen":
        c = {k: v for k, v in case.items() if k != "perm"}
        run_reopen_case(R, case["cls"], case["hist"], case["commit_last"], c, stats)
    else:
        with tmpdir() as root:
            T = Template(root / "t", case["cls"], case["subject"], case["sit"], case["hist"], case["variant"])
            d = T.instantiate(root / "c")
            run_mode_case(R, T, d, case["mode"], case["how"], case["end"], base.rng(0, digest(case)), case, stats)
    if R.violations:
        v = R.violations[0]
        return True, f"{v['signature']}: {v['what']}"
    return False, f"no C03 clause failed ({R.evaluations} evaluations)"
