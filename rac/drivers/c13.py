"""C13 - every child-schema instance is a valid parent-schema instance (bounded tier).

(a) instances of installed schema plugins (and of generated child schemas) are serialised and parsed by EVERY
    ancestor schema class along the MRO: must succeed.
(b) for parent/child field-type pairs (P_type, C_type) of the documented grammar: ``class P(MetadataSchema): f: P_type``,
    ``class C(P): f: C_type`` (no override declared), run the real plugin check (``schemas.check_plugin`` ->
    ``check_types`` -> ``check_overrides``).  If it ACCEPTS C, then for every corpus value v that C accepts,
    ``P.parse_raw(C(f=v).json())`` (and ``P.parse_obj(json_dict)``) must succeed.  A refusal is never a violation.
    A refused pair becomes acceptable once the author declares ``@override("f")`` (sampled).
(c) a child cannot loosen the extra-field policy of a parent that forbids extras.
Serialisation failures of the child itself are C12's concern and only counted here.
"""
from __future__ import annotations

import itertools
import json
import time

import rac.base
from rac import schemalib as sl
from rac.base import Recorder, budget_left, canon, digest, rng, watchdog

FNS_CHECK = ["schema/core.py:check_overrides", "util/typing.py:is_subtype", "schema/pg.py:PGSchema.check_plugin"]
FNS_TYPES = ["schema/types.py"]

_counter = itertools.count()


def _schemas():
    from metador_core.plugins import schemas

    return schemas


def plugin_check(cls):
    """Run the check a registered schema undergoes; returns None if accepted, else the exception."""
    try:
        with watchdog(10):
            _schemas().check_plugin("rac.c13", cls)
        return None
    except (TypeError, ValueError) as e:
        return e


_PARENTS = {}


def parent_class(p_ts):
    k = canon(p_ts)
    if k not in _PARENTS:
        try:
            P = sl.make_class(f"P{next(_counter)}", sl.MetadataSchema, {"f": p_ts})
            err = plugin_check(P)
        except Exception as e:
            P, err = None, e
        _PARENTS[k] = (P, err)
    return _PARENTS[k]


def child_class(P, c_ts, declared=False, via_mandatory=False):
    if via_mandatory:
        C = sl.make_class(f"C{next(_counter)}", P, {})
        C = sl.make_mandatory("f")(C)
    else:
        C = sl.make_class(f"C{next(_counter)}", P, {"f": c_ts})
    if declared:
        C = sl.override("f")(C)
    return C


_VALUES = {}


def values_for(p_ts, c_ts, P, C):
    vals = list(_universal())
    for cls in (C, P):
        try:
            h = cls.__fields__["f"].outer_type_
            vals += sl.candidates(h, 2)
        except Exception:
            pass
    return sl._dedup(vals)


_UNI = None


def _universal():
    global _UNI
    if _UNI is None:
        _UNI = sl.universal_corpus()
    return _UNI


def _field_kinds(ts) -> set:
    """Constraint keywords of the Annotated[..., Field(**kw)] nodes inside a type spec."""
    if isinstance(ts, str):
        return set()
    if ts[0] == "Field":
        return set(ts[2]) | _field_kinds(ts[1])
    if ts[0] in ("Literal", "Schema"):
        return set()
    out = set()
    for a in ts[1:]:
        if isinstance(a, (list, str)):
            out |= _field_kinds(a)
    return out


class PairChecker:
    def __init__(self, rec: Recorder):
        self.rec = rec
        self.pairs = 0
        self.accepted = 0
        self.refused = 0
        self.parent_invalid = 0
        self.values_checked = 0
        self.dump_fail = 0
        self.own_roundtrip_fail = 0
        self.known = []  # (p_leafs, c_leafs, signature) of violations found on smaller pairs

    def _sig(self, p_ts, c_ts, exc=None):
        from pydantic import ValidationError

        # the parent does not reject with a validation error but crashes inside a custom parser: one finding per
        # parser type (PintParser only translates UndefinedUnitError)
        if exc is not None and not isinstance(exc, ValidationError):
            culprit = sorted(set(sl.tleaves(p_ts)) - set(sl.tleaves(c_ts))) or sorted(set(sl.tleaves(p_ts)))
            return "c13:check-accepts-unsound-override:parent-parser-crash:" + ",".join(culprit)
        # all Annotated[..., Field(constraints)] cases are ONE finding (is_subtype ignores the annotation metadata)
        kinds = _field_kinds(p_ts) | _field_kinds(c_ts)
        if kinds:
            return "c13:check-accepts-unsound-override:annotated-field-constraints:" + ",".join(sorted(kinds))
        pl, cl = set(sl.tleaves(p_ts)), set(sl.tleaves(c_ts))
        for kp, kc, sig in self.known:
            if kp <= pl and kc <= cl:
                return sig
        sig = f"c13:check-accepts-unsound-override:P={sl.tstr(p_ts)}:C={sl.tstr(c_ts)}"
        self.known.append((pl, cl, sig))
        return sig

    def pair(self, p_ts, c_ts, via_mandatory=False, sample_declared=False):
        rec = self.rec
        self.pairs += 1
        P, perr = parent_class(p_ts)
        if P is None or perr is not None:
            self.parent_invalid += 1
            rec.case(("pair", canon(p_ts), canon(c_ts), via_mandatory), nontrivial=False)
            return
        try:
            C = child_class(P, c_ts, via_mandatory=via_mandatory)
            err = plugin_check(C)
        except Exception as e:  # refused already by the metaclass / decorator
            C, err = None, e
        if err is not None:
            self.refused += 1
            rec.case(("pair", canon(p_ts), canon(c_ts), via_mandatory), nontrivial=False)
            if C is not None:
                self._recheck(C, p_ts, c_ts, via_mandatory)
            if sample_declared and C is not None and "valid subtype" in str(err):
                self._declared(P, p_ts, c_ts)
            return
        self.accepted += 1
        same = canon(p_ts) == canon(c_ts)
        rec.case(("pair", canon(p_ts), canon(c_ts), via_mandatory), nontrivial=not same,
                 sample={"P": sl.tstr(p_ts), "C": sl.tstr(c_ts), "check": "accepted"} if not same else None)  # fmt: skip
        self._values(P, C, p_ts, c_ts, via_mandatory)

    def _values(self, P, C, p_ts, c_ts, via_mandatory, only=None):
        rec = self.rec
        vals = values_for(p_ts, c_ts, P, C) if only is None else only
        for v in vals:
            try:
                with watchdog(10):
                    c = C.parse_obj({"f": v})
            except Exception:
                continue  # C rejects v: nothing claimed
            try:
                with watchdog(10):
                    j = c.json()
            except Exception:
                self.dump_fail += 1
                continue
            self.values_checked += 1
            case = {"kind": "pair", "P": p_ts, "C": c_ts, "v": v, "via_mandatory": via_mandatory}
            for how in ("parse_raw(json)", "parse_obj(json_dict)"):
                try:
                    with watchdog(10):
                        P.parse_raw(j) if how.startswith("parse_raw") else P.parse_obj(json.loads(j))
                    rec.check(True, "", "")
                except Exception as e:
                    # if the child itself cannot re-read its own serialisation this is a C12 round-trip failure
                    # (e.g. offset-unit quantities), not an override problem: count and skip
                    try:
                        with watchdog(10):
                            C.parse_raw(j)
                    except Exception:
                        self.own_roundtrip_fail += 1
                        return
                    rec.check(False, self._sig(p_ts, c_ts, e),
                              f"plugin check accepts `class C(P): f: {sl.tstr(c_ts)}` over `P.f: {sl.tstr(p_ts)}` without declared override, but C accepts "
                              f"f={sl.short(repr(v), 60)} (json {sl.short(j, 60)}) and P.{how} rejects it: {type(e).__name__}: {sl.short(str(e).replace(chr(10), ' | '), 140)}",
                              case=case, fns=FNS_CHECK + FNS_TYPES)  # fmt: skip
                    return

    def _recheck(self, C, p_ts, c_ts, via_mandatory):
        """A class the check refused is refused again: when the same class is checked a second time (registered again), and when it is reached
        as a nested schema of two different plugins."""
        case = {"kind": "recheck", "P": p_ts, "C": c_ts, "via_mandatory": via_mandatory}
        fns = ["schema/core.py:check_types", "schema/pg.py:PGSchema.check_plugin"]
        err2 = plugin_check(C)
        self.rec.check(err2 is not None, "c13:refused-then-accepted:same-class-checked-again", f"child ({sl.tstr(c_ts)} over {sl.tstr(p_ts)}) was refused by the plugin check and is accepted when checked again", case, fns)
        self.rechecks = getattr(self, "rechecks", 0) + 1
        from metador_core.schema.core import check_types

        try:
            check_types(C, recheck=True)
            by_type_check = False  # refused for a reason that concerns the plugin itself (not its field types): a class nesting it is not concerned
        except Exception:  # noqa
            by_type_check = True
        if by_type_check and self.rechecks % 20 == 1:
            for i in (1, 2):
                try:
                    nm = f"User{i}x{next(_counter)}"
                    U = type(sl.MetadataSchema)(nm, (sl.MetadataSchema,), {"__module__": sl.__name__, "__qualname__": nm, "__annotations__": {"n": sl.Optional[C]}})
                    eu = plugin_check(U)
                except Exception as e:  # noqa
                    eu = e
                self.rec.check(eu is not None, "c13:refused-then-accepted:nested-in-another-plugin", f"plugin #{i} nesting the refused child ({sl.tstr(c_ts)} over {sl.tstr(p_ts)}) passes the plugin check", case, fns)

    def _declared(self, P, p_ts, c_ts):
        try:
            C2 = child_class(P, c_ts, declared=True)
            err = plugin_check(C2)
        except Exception as e:
            err = e
        self.rec.check(err is None, f"c13:declared-override-still-refused:{type(err).__name__}",
                       f"`@override('f') class C(P): f: {sl.tstr(c_ts)}` over `P.f: {sl.tstr(p_ts)}` must be accepted once the override is declared, got {sl.short(str(err), 120)}",
                       case={"kind": "declared", "P": p_ts, "C": c_ts}, fns=FNS_CHECK)  # fmt: skip


# --------------------------------------------------------------------------------------------------
# (a) ancestors of installed / generated schemas


class AncestorChecker:
    def __init__(self, rec):
        self.rec = rec
        self.n_inst = 0
        self.n_dump_fail = 0
        self.n_pairs = 0

    def instance(self, S, sref, label, raw, with_yaml=True):
        rec = self.rec
        try:
            with watchdog(10):
                o = S.parse_obj(raw)
        except Exception:
            return
        ancestors = sl.schema_ancestors(S)
        if not ancestors:
            return
        try:
            with watchdog(10):
                j = o.json()
                b = bytes(o)
                y = o.yaml() if with_yaml else None
        except Exception:
            self.n_dump_fail += 1
            rec.case(("dumpfail", label), nontrivial=False)
            return
        self.n_inst += 1
        rec.case(("anc", label, digest(raw)), nontrivial=True, sample={"schema": label, "ancestors": [a.__name__ for a in ancestors], "raw": json.loads(canon(raw))})
        jd = json.loads(j)
        case = {"kind": "ancestor", "schema": sref, "raw": raw}
        for A in ancestors:
            self.n_pairs += 1
            forms = [("parse_raw(json)", lambda: A.parse_raw(j)), ("parse_obj(json_dict)", lambda: A.parse_obj(jd)), ("parse_raw(bytes)", lambda: A.parse_raw(b))]
            if y is not None:
                forms.append(("parse_raw(yaml)", lambda: A.parse_raw(y)))
            for how, fn in forms:
                try:
                    with watchdog(10):
                        fn()
                    rec.check(True, "", "")
                except Exception as e:
                    loc = ""
                    try:
                        er = e.errors()[0]
                        loc = ".".join(str(x) for x in er["loc"] if not isinstance(x, int)) + ":" + er["type"]
                    except Exception:
                        loc = sl.exc_sig(e)
                    rec.check(False, f"c13:ancestor-rejects:{label}:{A.__name__}:{loc}",
                              f"ancestor {A.__name__}.{how} rejects a valid serialised {label} instance: {type(e).__name__}: {sl.short(str(e).replace(chr(10), ' | '), 200)}; json={sl.short(j, 160)}",
                              case=case, fns=["schema/pg.py:PGSchema (rule text)", f"{S.__module__}:{S.__name__}"])  # fmt: skip
                    break


GENERATED_CHILDREN = [
    ("leafkid", sl.HELPERS, "LeafKid"),
    ("ld-child", [{"name": "Base", "ld": {"context": "https://schema.org", "type": "Base"},
                   "fields": [["n", ["Optional", "NonEmptyStr"]], ["u", ["Optional", "PintUnit"]], ["k", ["Optional", ["Union", "Int", "Str"]]]]},
                  {"name": "Mid", "base": "Base", "mandatory": ["n"], "fields": [["k", ["Optional", "Int"]], ["m", ["Optional", ["List", "Float"]]]]},
                  {"name": "Top", "base": "Mid", "ld": {"type": "Kid"}, "mandatory": ["k"], "fields": [["q", ["Optional", "PintQuantity"]]]}], "Top"),
    ("forbid-chain", [{"name": "Base", "extra": "forbid", "fields": [["a", ["Optional", ["Union", "Int", "NonEmptyStr"]]], ["s", ["Optional", ["Set", "Int"]]]]},
                      {"name": "Top", "base": "Base", "extra": "forbid", "fields": [["a", "Int"]]}], "Top"),
    ("nested-narrow", sl.HELPERS + [{"name": "Base", "fields": [["l", ["Optional", ["Schema", "Leaf"]]], ["ls", ["List", ["Schema", "Leaf"]]]]},
                                    {"name": "Top", "base": "Base", "fields": [["l", ["Schema", "LeafKid"]], ["ls", ["List", ["Schema", "LeafKid"]]]]}], "Top"),
]  # fmt: skip


# children that pin an inherited field to a constant (the documented 'marked subclass' pattern): soundness rests on the constant being forced on
# load, whatever the input supplies for that key -- also on the class handed out for a plugin requested WITHOUT a version (a marker subclass)
CONST_CHILDREN = [
    ("const-pins-literal", [{"name": "Base", "fields": [["kind", ["Literal", "image", "table"]], ["title", "Str"]]},
                            {"name": "Top", "base": "Base", "const": {"kind": "image"}, "fields": [["width", ["Optional", "Int"]]]}], "Top", {"kind": ["image", "table", "bogus", 7, None]}),
    ("const-pins-through-chain", [{"name": "Base", "fields": [["kind", ["Literal", "a", "b"]], ["n", ["Optional", "Int"]]]},
                                  {"name": "Mid", "base": "Base", "const": {"kind": "a"}, "fields": [["m", ["Optional", "Str"]]]},
                                  {"name": "Top", "base": "Mid", "fields": [["q", ["Optional", "Bool"]]]}], "Top", {"kind": ["b", "zz", None]}),
]  # fmt: skip


# --------------------------------------------------------------------------------------------------
# type lists

ATOMS_Q = ["Bool", "Int", "Float", "Str", "int", "str", "NonEmptyStr", "HashsumStr", "QualHashsumStr", "MimeTypeStr", "Duration", "PintUnit", "Score",
           "LowScore", "Digit", ["Literal", "a"], ["Literal", "a", "b"], ["Schema", "Leaf"], ["Schema", "LeafKid"], ["Schema", "Other"]]  # fmt: skip
ATOMS_R = ["Bool", "Int", "Float", "Str", "NonEmptyStr", "HashsumStr", "QualHashsumStr", "Duration", ["Schema", "Leaf"], ["Schema", "LeafKid"]]


def _uniq(ts):
    seen, out = set(), []
    for t in ts:
        k = canon(t)
        if k not in seen:
            seen.add(k)
            out.append(t)
    return out


def types_quick():
    ts = list(ATOMS_Q) + sl.FIELD_CONSTRAINED
    for a in ATOMS_Q:
        ts += [["Optional", a], ["List", a]]
        if sl._hashable_atom(a):
            ts.append(["Set", a])
    ts += [["Union", "Int", "Str"], ["Union", "Bool", "Int", "Float", "Str"], ["Union", "Int", "Float"], ["Union", "Duration", "Str"],
           ["Union", "PintUnit", "Str"], ["Union", ["Schema", "LeafKid"], ["Schema", "Other"]], ["Union", "HashsumStr", "Int"], ["Optional", ["Union", "Int", "Str"]],
           ["Optional", ["List", "Int"]], ["List", ["Union", "Int", "Str"]], ["Optional", ["Set", "Str"]]]  # fmt: skip
    return _uniq(ts)


def types_depth1_full():
    atoms = sl.ALL_ATOMS + sl.FIELD_CONSTRAINED
    return _uniq(list(atoms) + sl.types_depth1(atoms, union_atoms=[]) + sl.core_unions())


def types_depth2_reduced():
    ts = []
    for a in ATOMS_R:
        ts += [["Optional", ["List", a]]]
        if sl._hashable_atom(a):
            ts.append(["Optional", ["Set", a]])
    us = [["Union", "Int", "Str"], ["Union", "Bool", "Int", "Float", "Str"], ["Union", "Int", "Float"], ["Union", "Duration", "Str"],
          ["Union", "Int", "NonEmptyStr"], ["Union", "HashsumStr", "Int"], ["Union", "QualHashsumStr", "Int"],
          ["Union", ["Schema", "LeafKid"], ["Schema", "Other"]], ["Union", ["Schema", "Leaf"], ["Schema", "Other"]]]  # fmt: skip
    for u in us:
        ts += [["Optional", u], ["List", u]]
        if all(sl._hashable_atom(m) for m in u[1:]):
            ts.append(["Set", u])
    ts += [["List", ["Optional", "Int"]], ["Union", "Int", ["List", "Int"]], ["List", ["List", "Int"]]]
    base = list(ATOMS_R)
    for a in ATOMS_R:
        base += [["Optional", a], ["List", a]] + ([["Set", a]] if sl._hashable_atom(a) else [])
    return _uniq(base + us + ts)


# --------------------------------------------------------------------------------------------------


CHAIN_TYPES = [("Int", ["Optional", "Str"]), (["Literal", "a", "b"], ["Literal", "a", "b", "c"]), ("Int", ["Union", "Int", "Str"]), ("NonEmptyStr", "Str"), (["List", "Int"], ["List", ["Union", "Int", "Str"]])]


def check_chains(rec):
    """Three-level chains: the offending override sits in a class BETWEEN the checked leaf and the ancestor
    (A: an intermediate class widens a field without declaring it; A': the leaf widens a field of its GRANDPARENT that the class in between does not mention; B: an intermediate class narrows Optional[T] to T by
    @make_mandatory and the leaf re-declares Optional[T] without declaring it). If the plugin check accepts the leaf,
    no value accepted by the leaf may be rejected by any ancestor after serialisation."""
    n = 0
    for narrow, wide in CHAIN_TYPES:
        for kind in ("widen-in-middle", "mandatory-then-optional", "widen-grandparent-field"):
            case = {"kind": "chain", "chain": kind, "narrow": narrow, "wide": wide}
            try:
                if kind == "widen-in-middle":
                    P = sl.make_class(f"CP{next(_counter)}", sl.MetadataSchema, {"f": narrow})
                    if plugin_check(P) is not None:
                        continue
                    M = sl.make_class(f"CM{next(_counter)}", P, {"f": wide})
                    L = sl.make_class(f"CL{next(_counter)}", M, {"g": ["Optional", "Int"]})
                    probe = [{"f": v} for v in values_for(narrow, wide, P, M)]
                elif kind == "widen-grandparent-field":
                    # the field comes from the grandparent; the class in between does not mention it
                    P = sl.make_class(f"CP{next(_counter)}", sl.MetadataSchema, {"f": narrow})
                    if plugin_check(P) is not None:
                        continue
                    M = sl.make_class(f"CM{next(_counter)}", P, {"g": ["Optional", "Int"]})
                    L = sl.make_class(f"CL{next(_counter)}", M, {"f": wide})
                    probe = [{"f": v} for v in values_for(narrow, wide, P, L)]
                else:
                    P = sl.make_class(f"CP{next(_counter)}", sl.MetadataSchema, {"f": ["Optional", narrow]})
                    if plugin_check(P) is not None:
                        continue
                    M = sl.make_mandatory("f")(sl.make_class(f"CM{next(_counter)}", P, {}))
                    L = sl.make_class(f"CL{next(_counter)}", M, {"f": ["Optional", narrow]})
                    probe = [{}] + [{"f": v} for v in values_for(["Optional", narrow], narrow, P, M)]
                err = plugin_check(L)
            except Exception as e:  # refused at class creation time
                err = e
            n += 1
            if err is not None:
                rec.check(True, "", "")
                rec.case(("chain", kind, canon(narrow), canon(wide)), nontrivial=True)
                continue
            bad = None
            for obj in probe:
                try:
                    with watchdog(10):
                        inst = L.parse_obj(obj)
                        js = inst.json()
                except Exception:
                    continue
                for anc in (M, P):
                    try:
                        with watchdog(10):
                            anc.parse_raw(js)
                    except Exception as e:  # noqa
                        bad = (obj, anc.__name__, type(e).__name__)
                        break
                if bad:
                    break
            rec.check(bad is None, f"c13:chain:{kind}:accepted-although-ancestor-rejects", f"leaf of a {kind} chain ({sl.tstr(narrow)} / {sl.tstr(wide)}) passes the plugin check without a declared override, but {bad[0] if bad else None} accepted by the leaf is rejected by ancestor {bad[1] if bad else None} ({bad[2] if bad else None})", case, ["schema/core.py:check_types", "schema/core.py:check_overrides", "schema/decorators.py:make_mandatory"])
            rec.case(("chain", kind, canon(narrow), canon(wide)), nontrivial=True)
    return n


def _extra_policy(rec):
    """(c) parent forbids extras: a child that allows extras / adds a field must be refused (else witness)."""
    for how in ("allow", "ignore", "newfield", "newfield-unannotated", "newfield-private-looking"):
        P = sl.make_class(f"PF{next(_counter)}", sl.MetadataSchema, {"f": ["Optional", "Int"]}, extra="forbid")
        rec.case(("extra", how), nontrivial=True)
        try:
            if how == "newfield":
                C = sl.make_class(f"CF{next(_counter)}", P, {"g": ["Optional", "Int"]}, extra="forbid")
                raw = {"g": 1}
            elif how == "newfield-unannotated":  # field inferred from a bare default value
                C = sl.make_class(f"CF{next(_counter)}", P, {}, extra="forbid", plain={"note": "n/a"})
                raw = {"note": "x"}
            elif how == "newfield-private-looking":  # annotated name the schema code may treat as non-public, but a real pydantic field
                C = sl.make_class(f"CF{next(_counter)}", P, {"g2": ["Optional", "Int"]}, extra="forbid", plain={"h": 0})
                raw = {"h": 3}
            else:
                C = sl.make_class(f"CF{next(_counter)}", P, {}, extra=how)
                raw = {"zz": 1}
            err = plugin_check(C)
        except Exception as e:
            C, err = None, e
        if err is not None:
            rec.check(True, "", "")
            continue
        ok = True
        try:
            c = C.parse_obj(raw)
            P.parse_raw(c.json())
        except Exception:
            ok = False
        rec.check(ok, f"c13:extra-policy-loosened:{how}", f"child of an extra=forbid parent ({how}) accepted by class creation and plugin check, but its instance {raw} is rejected by the parent",
                  case={"kind": "extra", "how": how}, fns=["schema/core.py:SchemaMagic.__new__"])  # fmt: skip


def run(tier: str, seed: int) -> dict:
    rec = Recorder("C13", "c13")
    t0 = time.time()
    quick = tier == "quick"
    limit = 55 if quick else 540
    r = rng(seed, "c13")
    sl.helper_classes()

    # (a) ancestors -----------------------------------------------------------------------------
    anc = AncestorChecker(rec)
    inst = sl.installed_schemas()
    for name, S in inst.items():
        dicts = sl.model_dicts(S, 2, validate=True)
        if quick:
            step = max(1, len(dicts) // 25)
            dicts = dicts[:3] + dicts[3::step]
        for raw in dicts:
            if not budget_left(t0, limit * 0.35):
                break
            anc.instance(S, {"installed": name}, "I:" + name, raw, with_yaml=not quick or True)
    for gname, fam, top in GENERATED_CHILDREN:
        S = sl.build_family(fam)[top]
        for raw in sl.model_dicts(S, 2, validate=True):
            anc.instance(S, {"family": fam, "name": top}, "G:" + gname, raw)
    for gname, fam, top, supplied in CONST_CHILDREN:
        S = sl.build_family(fam)[top]
        for unv in (False, True):
            H = sl.unversioned_handle(S) if unv else S
            sref = {"family": fam, "name": top, "unversioned": unv}
            for raw in sl.model_dicts(S, 2, validate=True)[: (4 if quick else 40)]:
                anc.instance(H, sref, ("U:" if unv else "G:") + gname, raw)
                for k, vals in supplied.items():
                    for v in vals:
                        anc.instance(H, sref, ("U:" if unv else "G:") + gname, {**raw, k: v})
    if not quick:
        gens = [(n, S, sl.random_dicts(S, r, 400, 2, p_opt=0.3)) for n, S in inst.items()]
        for n, S, it in gens:
            for raw in it:
                if not budget_left(t0, limit * 0.4):
                    break
                anc.instance(S, {"installed": n}, "I:" + n, raw)

    # (c) extra policy --------------------------------------------------------------------------
    n_chains = check_chains(rec)
    _extra_policy(rec)

    # (b) type pairs ----------------------------------------------------------------------------
    pc = PairChecker(rec)
    stopped = "enumeration exhausted"
    spaces = []
    tq = types_quick()
    spaces.append(("quick-set", tq, tq))
    if not quick:
        t1 = types_depth1_full()
        spaces.append(("depth<=1 full", t1, t1))
        t2 = types_depth2_reduced()
        spaces.append(("depth<=2 reduced atoms", t2, t2))
    done = set()
    reached = []
    n_decl = 0
    for sname, ps, cs in spaces:
        # smaller types first so that minimal witnesses define the signatures
        ps = sorted(ps, key=lambda t: (sl.tdepth(t), len(canon(t))))
        cs = sorted(cs, key=lambda t: (sl.tdepth(t), len(canon(t))))
        complete = True
        for c_ts in cs:
            for p_ts in ps:
                k = (canon(p_ts), canon(c_ts))
                if k in done:
                    continue
                if not budget_left(t0, limit):
                    complete = False
                    break
                done.add(k)
                n_decl += 1
                pc.pair(p_ts, c_ts, sample_declared=(n_decl % 25 == 0))
            if not complete:
                break
        reached.append(f"{sname}: {len(ps)}x{len(cs)} types {'complete' if complete else 'cut by time budget'}")
        if not complete:
            stopped = "time budget"
            break
    # make_mandatory route: P.f Optional[T], child makes it mandatory through the decorator
    nm = 0
    for ts in (tq if quick else types_depth1_full()):
        if not budget_left(t0, limit):
            break
        if isinstance(ts, list) and ts[0] == "Optional":
            pc.pair(ts, ts[1], via_mandatory=True)
            nm += 1
    if not quick:
        # seeded random pairs over the full depth<=2 grammar (beyond the exhaustive blocks)
        g2 = sl.grammar(2) + sl.FIELD_CONSTRAINED
        nr = 0
        while budget_left(t0, limit) and nr < 60000:
            p_ts, c_ts = r.choice(g2), r.choice(g2)
            k = (canon(p_ts), canon(c_ts))
            if k in done:
                continue
            done.add(k)
            nr += 1
            pc.pair(p_ts, c_ts)
        reached.append(f"{nr} seeded random pairs over the {len(g2)}-type depth<=2 grammar")

    bound = (f"(a) {anc.n_inst} serialisable instances of {len(inst)} installed plugins + {len(GENERATED_CHILDREN)} generated child schemas + {len(CONST_CHILDREN)} constant-pinning children (by class and by the version-less handle, constant key supplied with other values) x every MRO ancestor "
             f"({anc.n_pairs} instance/ancestor pairs, {anc.n_dump_fail} instances skipped because their own json() raises [C12]); "
             f"(b) {pc.pairs} (P_type,C_type) pairs [{'; '.join(reached)}; {nm} make_mandatory pairs]: {pc.accepted} accepted by the plugin check, {pc.refused} refused, "
             f"{pc.parent_invalid} with a parent type the check refuses; {pc.values_checked} child-accepted corpus values re-parsed by the parent "
             f"({pc.dump_fail} skipped because the child's json() raises, {pc.own_roundtrip_fail} because the child cannot re-read its own json [both C12]); (c) 3 extra-policy cases; stop: {stopped}")  # fmt: skip
    return rec.result(
        rule="(a) case = (schema, digest of raw instance dict), non-trivial if valid, serialisable and the schema has ancestors; (b) case = ordered pair of type "
             "specs (+ make_mandatory route), non-trivial if the plugin check accepts a child whose field type differs from the parent's; every such pair is "
             "evaluated on the universal boundary corpus + both types' own corpora",
        bound=bound,
        exhaustive=False,
        assumptions=[
            "date/time types excluded (as in the property's quantifier)",
            "user-defined phantom subclasses in the grammar narrow honestly; library-shipped phantom types are taken as they are",
            "pydantic Field constraints through Annotated are part of the documented (discouraged) grammar",
            "a refusal by the check is never a violation; explicitly declared overrides are allowed to be unsound",
        ],
        trusted=["pydantic 1.10 validation, runtype.is_subtype, phantom (exercised, not modelled)"],
        extra={"accepted_pairs": pc.accepted, "pairs": pc.pairs},
    )  # fmt: skip


def replay(case: dict):
    rec = Recorder("C13", "c13", max_violations=50)
    kind = case.get("kind")
    sl.helper_classes()
    if kind == "ancestor":
        S = sl.resolve_schema(case["schema"])
        anc = AncestorChecker(rec)
        anc.instance(S, case["schema"], "replay", case["raw"])
        if anc.n_inst == 0:
            return False, "instance invalid or not serialisable on this tree"
    elif kind == "pair":
        P, perr = parent_class(case["P"])
        if P is None or perr is not None:
            return False, f"parent type refused: {perr}"
        try:
            C = child_class(P, case["C"], via_mandatory=case.get("via_mandatory", False))
            err = plugin_check(C)
        except Exception as e:
            err = e
        if err is not None:
            return False, f"plugin check now refuses the child: {sl.short(str(err), 100)}"
        pc = PairChecker(rec)
        pc._values(P, C, case["P"], case["C"], case.get("via_mandatory", False), only=[case["v"]])
        if pc.values_checked == 0:
            return False, "child no longer accepts / serialises the value"
    elif kind == "recheck":
        P, perr = parent_class(case["P"])
        if P is None or perr is not None:
            return False, "parent refused"
        try:
            C = child_class(P, case["C"], via_mandatory=case.get("via_mandatory", False))
            err = plugin_check(C)
        except Exception as e:  # noqa
            C, err = None, e
        if C is None or err is None:
            return False, "the child is not refused by the plugin check on this tree"
        pc = PairChecker(rec)
        pc._recheck(C, case["P"], case["C"], case.get("via_mandatory", False))
    elif kind == "declared":
        P, perr = parent_class(case["P"])
        if P is None or perr is not None:
            return False, "parent refused"
        PairChecker(rec)._declared(P, case["P"], case["C"])
    elif kind == "chain":
        global CHAIN_TYPES
        saved = CHAIN_TYPES
        CHAIN_TYPES = [(case["narrow"], case["wide"])]
        try:
            check_chains(rec)
        finally:
            CHAIN_TYPES = saved
        rec.violations = [v for v in rec.violations if case["chain"] in v["signature"]]
    elif kind == "extra":
        _extra_policy(rec)
        rec.violations = [v for v in rec.violations if v["signature"].endswith(case["how"])]
    else:
        return False, f"unknown case kind {kind!r}"
    if rec.violations:
        return True, "; ".join(v["signature"] + " :: " + v["what"][:200] for v in rec.violations[:2])
    return False, f"{rec.evaluations} contract evaluations hold"
