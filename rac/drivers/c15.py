"""C15 — node restrictions (read_only / skel_only / local_only) cannot be escaped by navigating the container.

Fixture container (data + attributes + metadata on groups, datasets and the root) on h5py.File and IH5Record.
Start nodes: container["/"], container[path] for groups/datasets, and the container object itself, restricted with
every non-empty flag combination. Navigation chains are explored breadth-first (bounded depth) from every navigation
primitive of the group/dataset protocol; every navigation edge is checked for flag inheritance / local containment, and
every distinct reached wrapper (abstract state x producing primitive) is followed by every mutating / reading /
upward operation. Mutating operations must raise and leave the raw dump unchanged; reading operations on skel_only
nodes must not yield contents; upward operations on local_only nodes must raise. Non-vacuity: each operation is also
run on the unrestricted node at the same path (control) and counted non-trivial only if it has the effect there.
"""
from __future__ import annotations

import time

from rac import base  # noqa: F401
from rac.base import Recorder, digest, tmpdir, OpTimeout
from rac import contlib2 as L
from rac.ih5lib import is_grouplike, under

import numpy as np  # noqa: E402

from metador_core.container import MetadorContainer, MetadorNode  # noqa: E402

PID, DRV = "C15", "c15"
TMP_PREFIX = "vrc2_c15_"
FLAGS = ("read_only", "skel_only", "local_only")
COMBOS = [c for n in (1, 2, 3) for c in __import__("itertools").combinations(FLAGS, n)]
QUERY = ("core.file", "core.dir")

FIXTURE = [
    ["mkgrp", "g"],
    ["set", "g/x", 1],
    ["setattr", "g", "ka", 5],
    ["setattr", "g/x", "kx", "v"],
    ["set", "g/s/y", 2],
    ["setattr", "g/s", "ks", 3],
    ["set", "d", "str"],
    ["setattr", "/", "kr", 1],
    ["setattr", "d", "kd", 2],
    ["meta", "/", "dir1"],
    ["meta", "g", "dir2"],
    ["meta", "g/x", "file1"],
    ["meta", "g/s", "dir1"],
    ["meta", "g/s/y", "file2"],
    ["meta", "d", "file1"],
]
STARTS = ["container", "/", "/g", "/g/s", "/g/x", "/d"]

# ------------------------------------------------------------------ fixture handling


class Env:
    """Pristine closed fixture per driver + the current working clone (re-cloned after any mutation)."""

    def __init__(self, kind, d):
        self.kind, self.d = kind, d
        b = L.open_container(kind, d)
        for op in FIXTURE:
            st = L.apply_cop(b, op)
            if st[0] != "ok":
                raise RuntimeError(f"fixture op failed {op}: {st}")
        if kind == "h5":  # resizable dataset for resize/write_direct/make_scale controls (h5py only)
            b.c.create_dataset("g/r", shape=(2,), maxshape=(None,), dtype="int64")
        b.close()
        self.pristine = b
        self.box = None
        self.before = None
        self.clones = 0
        self.dumps = 0

    def fresh(self):
        if self.box is not None:
            self.box.destroy()
        self.box = self.pristine.clone_closed()
        self.box.open("r+")
        self.before = L.raw_flat(self.box.raw)
        self.clones += 1
        return self.box

    def get(self):
        return self.box if self.box is not None else self.fresh()

    def changed(self):
        self.dumps += 1
        return L.raw_flat(self.box.raw) != self.before

    def diff(self):
        return L.flat_diff(self.before, L.raw_flat(self.box.raw))

    def close(self):
        if self.box is not None:
            self.box.destroy()
        self.pristine.destroy()


def start_node(box, start, flags):
    c = box.c
    # "container": a fresh MetadorContainer wrapper around the same raw tree (restrict() mutates the wrapper in place,
    # so the shared box.c must never be restricted itself)
    n = MetadorContainer(box.raw) if start == "container" else c[start]
    if flags:
        if (len(start) + len(flags)) % 2 == 0:
            # half of the start nodes are restricted only AFTER the wrapper object has already been used for navigation
            # (restrictions must take effect on a wrapper with a history, not only on a fresh one)
            try:
                if hasattr(n, "keys"):
                    for k in list(n.keys())[:2]:
                        n[k]
                        n.get(k)
                    list(n.items())
                n.attrs
                n.meta
                for s_ in QUERY:  # queries too: whatever they remember must not outlive a later restrict()
                    list(n.metador.query(s_))
                    if start == "container":
                        list(box.c.metador.query(s_, node=n))
                if start != "container":
                    n.parent
            except Exception:  # noqa  (pre-use is best effort; judged afterwards)
                pass
        r = n.restrict(**{f: True for f in flags})
        n = r
    return n


def resolve(box, spec):
    """spec = {"start":..., "flags":[...], "steps":[...]} -> node"""
    n = start_node(box, spec["start"], spec["flags"])
    for st in spec["steps"]:
        n = apply_step(box, n, st)
    return n


# ------------------------------------------------------------------ navigation


def node_state(n):
    flags = tuple(sorted(f.name for f, v in n.acl.items() if v))
    lp, cur = [], n
    while len(lp) < 8:
        cur = cur._self_local_parent
        if cur is None:
            break
        lp.append(cur.name)
    return ("g" if is_grouplike(n) else "d", n.name, flags, tuple(lp))


def possible_steps(n, kind):
    steps = [["parent"]]
    for s in QUERY:
        try:
            names = [r.name for r in n.metador.query(s)]
        except Exception:  # noqa
            names = []
        for nm in sorted(set(names[:1] + names[-1:])):
            steps.append(["query", s, nm])
        for nm in names[-1:]:
            steps.append(["cquery", s, nm])
    if is_grouplike(n):
        keys = list(n.keys())
        for k in keys:
            steps += [["item", k], ["get", k], ["items", k], ["values", k]]
            try:
                steps.append(["require_group" if is_grouplike(n[k]) else "require_dataset", k])
            except Exception:  # noqa
                pass
        acc = []
        n.visit(acc.append)
        for nm in acc:
            steps.append(["visititems", nm])
            if "/" in nm:
                steps += [["item", nm], ["get", nm]]
        steps += [["item", "."], ["item", ".."], ["item", "../d"], ["item", "/"], ["item", "/g"], ["get", "/g/x"], ["item", "/d"], ["require_group", "/g"]]
    return steps


def apply_step(box, n, st):
    k = st[0]
    with L.watchdog(10):
        if k == "item":
            return n[st[1]]
        if k == "get":
            r = n.get(st[1])
            if r is None:
                raise KeyError(st[1])
            return r
        if k == "items":
            return dict(n.items())[st[1]]
        if k == "values":
            pref = n.name.rstrip("/")
            return {v.name: v for v in n.values()}[f"{pref}/{st[1]}"]
        if k == "visititems":
            found = []

            def cb(name, obj):
                if name == st[1]:
                    found.append(obj)
                    return True

            n.visititems(cb)
            if not found:
                raise KeyError(st[1])
            return found[0]
        if k == "parent":
            return n.parent
        if k == "require_group":
            return n.require_group(st[1])
        if k == "require_dataset":
            return n.require_dataset(st[1], shape=(), dtype="int64")
        if k == "query":
            return {r.name: r for r in n.metador.query(st[1])}[st[2]]
        if k == "cquery":
            return {r.name: r for r in box.c.metador.query(st[1], node=n)}[st[2]]
    raise RuntimeError(f"unknown step {st}")


# ------------------------------------------------------------------ operation suites


def _ctx(n):
    ctx = {"grp": is_grouplike(n)}
    try:
        ctx["akey"] = next(iter(n.attrs.keys()), None)
    except Exception:  # noqa
        ctx["akey"] = None
    try:
        ctx["schema"] = next(iter(n.meta.keys()), None)
    except Exception:  # noqa
        ctx["schema"] = None
    if ctx["grp"]:
        ks = list(n.keys())
        ctx["child"] = ks[0] if ks else None
        ctx["dchild"] = next((k for k in ks if not is_grouplike(n[k])), None)
    return ctx


def mutating_ops(n, ctx, local):
    """name -> thunk. Every thunk changes the container when run on an unrestricted node (checked by the controls)."""
    ops = {}
    a = n.attrs
    ops["attrs_set"] = lambda: n.attrs.__setitem__("zz", 1)
    ops["attrs_update"] = lambda: n.attrs.update({"zz": 1})
    ops["attrs_setdefault"] = lambda: n.attrs.setdefault("zz", 1)
    ops["attrs_create"] = lambda: n.attrs.create("zz", 1)
    ops["attrs_clear"] = lambda: n.attrs.clear()
    ops["attrs_popitem"] = lambda: n.attrs.popitem()
    if ctx["akey"] is not None:
        ak = ctx["akey"]
        ops["attrs_del"] = lambda: n.attrs.__delitem__(ak)
        ops["attrs_pop"] = lambda: n.attrs.pop(ak)
        ops["attrs_modify"] = lambda: n.attrs.modify(ak, 7)
    del a
    ops["meta_set"] = lambda: n.meta.__setitem__("core.person", L.build_obj("person1"))
    if ctx["schema"] is not None:
        sc = ctx["schema"]
        ops["meta_del"] = lambda: n.meta.__delitem__(sc)
    if ctx["grp"]:
        ops["setitem"] = lambda: n.__setitem__("zz_new", 1)
        ops["setitem_nested"] = lambda: n.__setitem__("zz_a/zz_b", 1)
        ops["create_dataset"] = lambda: n.create_dataset("zz_new", data=1)
        ops["create_group"] = lambda: n.create_group("zz_newg")
        ops["require_group_new"] = lambda: n.require_group("zz_newg")
        ops["require_dataset_new"] = lambda: n.require_dataset("zz_new", shape=(), dtype="int64")
        if ctx["child"] is not None:
            ch = ctx["child"]
            ops["delitem"] = lambda: n.__delitem__(ch)
            ops["move"] = lambda: n.move(ch, "zz_moved")
            ops["copy"] = lambda: n.copy(ch, "zz_copied")
            ops["copy_node_into"] = lambda: n.copy(n[ch], n, name="zz_cp")
            ops["copy_without_meta"] = lambda: n.copy(ch, "zz_copied2", without_meta=True)
        if not local:
            ops["setitem_abs"] = lambda: n.__setitem__("/zz_abs", 1)
            ops["delitem_abs"] = lambda: n.__delitem__("/d")
            ops["move_abs"] = lambda: n.move("/d", "/zz_d")
            ops["copy_abs"] = lambda: n.copy("/d", "/zz_dc")
            ops["create_group_abs"] = lambda: n.create_group("/zz_gabs")
    else:
        ops["ds_setitem"] = lambda: n.__setitem__((), 5)
        ops["ds_setitem_ellipsis"] = lambda: n.__setitem__(Ellipsis, 6)
        ops["resize"] = lambda: n.resize((3,))
        ops["write_direct"] = lambda: n.write_direct(np.array([5, 6], dtype="int64"))
        ops["make_scale"] = lambda: n.make_scale("zz")
        ops["flush"] = lambda: n.flush()
    return ops


def reading_ops(n, ctx):
    """name -> thunk returning dataset contents / attribute values / metadata objects."""
    ops = {}
    if ctx["akey"] is not None:
        ak = ctx["akey"]
        ops["attrs_getitem"] = lambda: n.attrs[ak]
        ops["attrs_get"] = lambda: n.attrs.get(ak)
        ops["attrs_values"] = lambda: list(n.attrs.values())
        ops["attrs_items"] = lambda: list(n.attrs.items())
        ops["attrs_dict"] = lambda: dict(n.attrs)
    if ctx["schema"] is not None:
        sc = ctx["schema"]
        ops["meta_get"] = lambda: n.meta.get(sc)
        ops["meta_getitem"] = lambda: n.meta[sc]
        ops["meta_values"] = lambda: list(n.meta.values())
        ops["meta_items"] = lambda: list(n.meta.items())
        ops["meta_query_all"] = lambda: list(n.meta.query(""))
    if not ctx["grp"]:
        ops["ds_getitem"] = lambda: n[()]
        ops["ds_getitem_ellipsis"] = lambda: n[...]
    elif ctx.get("dchild") is not None:
        dk = ctx["dchild"]
        ops["child_getitem_read"] = lambda: n[dk][()]
        ops["child_get_read"] = lambda: n.get(dk)[()]
        ops["child_items_read"] = lambda: dict(n.items())[dk][()]
    return ops


def upward_ops(n, ctx, is_local_root):
    """name -> (thunk, mutating?) using absolute paths / parent / file from a local_only node."""
    ops = {"file": (lambda: n.file, False)}
    if is_local_root:
        ops["parent"] = (lambda: n.parent, False)
    if ctx["grp"]:
        ops["abs_getitem_root"] = (lambda: n["/"], False)
        ops["abs_getitem"] = (lambda: n["/d"], False)
        ops["abs_get"] = (lambda: n.get("/d"), False)
        ops["abs_contains"] = (lambda: ("/d" in n) or None, False)  # False ('cannot see') is acceptable, True is not
        ops["abs_require_group"] = (lambda: n.require_group("/g"), False)
        ops["abs_require_dataset"] = (lambda: n.require_dataset("/g/x", shape=(), dtype="int64"), False)
        ops["abs_create_group"] = (lambda: n.create_group("/zz_l"), True)
        ops["abs_create_dataset"] = (lambda: n.create_dataset("/zz_l3", data=1), True)
        ops["abs_setitem"] = (lambda: n.__setitem__("/zz_l2", 1), True)
        ops["abs_delitem"] = (lambda: n.__delitem__("/d"), True)
        ops["abs_move_src"] = (lambda: n.move("/d", "zz_m"), True)
        ops["abs_copy_src"] = (lambda: n.copy("/d", "zz_c"), True)
        if ctx["child"] is not None:
            ch = ctx["child"]
            ops["abs_move_dst"] = (lambda: n.move(ch, "/zz_m2"), True)
            ops["abs_copy_dst"] = (lambda: n.copy(ch, "/zz_c2"), True)
    return ops


MUTATING_UP = {"abs_create_group", "abs_create_dataset", "abs_setitem", "abs_delitem", "abs_move_src", "abs_copy_src", "abs_move_dst", "abs_copy_dst", "abs_require_group", "abs_require_dataset"}


def call(thunk, timeout=10):
    try:
        with L.watchdog(timeout):
            v = thunk()
        return "ok", v
    except OpTimeout:
        return "hang", None
    except Exception as e:  # noqa
        return "raised", type(e).__name__


# ------------------------------------------------------------------ driver


class Ctl:
    """Controls: does an operation have the effect on the *unrestricted* node at the same path?

    Controls only decide whether a case counts as non-trivial, so they are deferred: `pending` collects
    (case key, control key) and `settle` evaluates the controls after the exploration (within a time limit; cases whose
    control was not evaluated are counted as trivial).
    """

    def __init__(self, env):
        self.env = env
        self.cache = {}
        self.pending = []

    def later(self, casekey, suite, path, cls, opname):
        self.pending.append((casekey, (suite, path, cls, opname)))

    def settle(self, rec, deadline):
        todo = {}
        for casekey, ck in self.pending:
            todo.setdefault(ck, []).append(casekey)
        skipped = 0
        for ck, casekeys in sorted(todo.items(), key=lambda kv: -len(kv[1])):
            if ck not in self.cache and time.time() > deadline:
                skipped += 1
                for k in casekeys:
                    rec.case(k, nontrivial=False)
                continue
            eff = True if ck[3] in ("parent", "file") and ck[0] == "up" else self.effective(*ck)
            for k in casekeys:
                rec.case(k, nontrivial=eff)
        self.pending = []
        return skipped

    def effective(self, suite, path, cls, opname):
        key = (suite, path, cls, opname)
        if key in self.cache:
            return self.cache[key]
        env = self.env
        box = env.get()
        try:
            n = box.c if path == "container" else box.c[path]
            ctx = _ctx(n)
            if suite == "mut":
                th = mutating_ops(n, ctx, False).get(opname)
            elif suite == "read":
                th = reading_ops(n, ctx).get(opname)
            else:
                th = (upward_ops(n, ctx, True).get(opname) or (None,))[0]
            may_mutate = suite == "mut" or (suite == "up" and opname in MUTATING_UP)
            if th is None:
                res = False
            else:
                st, v = call(th)
                if suite == "mut":
                    res = st == "ok" and env.changed()
                    may_mutate = True
                elif suite == "up":
                    res = st == "ok"
                else:
                    res = st == "ok" and v is not None
        except Exception:  # noqa
            res = False
            may_mutate = True
        if may_mutate and (res or env.changed()):
            env.fresh()
        self.cache[key] = res
        return res


class _ExpSet:
    """View of a shared set with a fixed key prefix."""

    def __init__(self, shared, prefix):
        self.s, self.p = shared, prefix

    def __contains__(self, x):
        return (self.p, x) in self.s

    def add(self, x):
        self.s.add((self.p, x))


def explore(rec, env, ctl, start, flags, max_depth, deadline, stats, seen_suites):
    kind = env.kind
    flags = list(flags)
    spec0 = {"start": start, "flags": flags, "steps": []}
    local_root = None
    box = env.get()
    try:
        n0 = resolve(box, spec0)
    except Exception as e:  # noqa
        stats["unresolved"] += 1
        return
    if "local_only" in flags:
        local_root = n0.name
    # ---- restrict / acl laws on the start node
    _acl_laws(rec, env, spec0, stats)
    frontier = [(spec0, node_state(n0))]
    # expansion of an abstract state (incl. local root and lp chain) happens once per driver, across all start nodes
    seen_states = _ExpSet(stats["expanded"], (kind, local_root))
    if node_state(n0) in seen_states:
        frontier = []
    seen_states.add(node_state(n0))

    def run_suites(spec, state, prim):
        # dedupe: abstract state (lp chain cut to 1) x producing primitive
        skey = (kind, state[0], state[1], state[2], state[3][:1], local_root, prim)
        if skey not in seen_suites:
            seen_suites.add(skey)
            akey = ("acl",) + skey[:-1]
            if spec["steps"] and akey not in seen_suites:
                seen_suites.add(akey)
                _acl_laws(rec, env, spec, stats)  # restrict()/acl laws hold on derived wrappers as well
            suites(rec, env, ctl, spec, state, local_root, stats)

    run_suites(spec0, node_state(n0), "start")
    for depth in range(1, max_depth + 1):
        nxt = []
        for spec, state in frontier:
            if time.time() > deadline or rec.full:
                return
            box = env.get()
            try:
                n = resolve(box, spec)
                steps = possible_steps(n, kind)
            except Exception:  # noqa
                stats["unresolved"] += 1
                continue
            for st in steps:
                if time.time() > deadline or rec.full:
                    return
                box = env.get()
                try:
                    n = resolve(box, spec)
                except Exception:  # noqa
                    break
                case = {"kind": kind, "what": "nav", "spec": spec, "step": st}
                try:
                    r = apply_step(box, n, st)
                except OpTimeout:
                    rec.check(False, f"c15:nav:hang:{st[0]}", f"navigation {st} from {spec} does not terminate ({kind})", case=case)
                    continue
                except Exception:  # noqa
                    stats["nav_refused"] += 1
                    r = None
                stats["edges"] += 1
                if r is None:
                    rec.evaluations += 1  # refused navigation: nothing reachable through it
                else:
                    rec.case((kind, "nav", state[1], state[2], st[0], digest(st)), nontrivial=True, sample={"kind": kind, "start": start, "flags": flags, "chain": spec["steps"] + [st]} if stats["edges"] % 97 == 1 else None)
                    if not isinstance(r, MetadorNode):
                        rec.check(False, f"c15:nav:unwrapped:{st[0]}", f"{st} from a {flags} node returned a raw {type(r).__name__}, not a Metador wrapper ({kind})", case=case, fns=["container/wrappers.py:MetadorNode._wrap_if_node"])
                        continue
                    rst = node_state(r)
                    missing = [f for f in state[2] if f not in rst[2]]
                    rec.check(not missing, f"c15:nav:flag-lost:{st[0]}:{'+'.join(missing)}", f"node reached by {st} from a node with flags {state[2]} at {state[1]} has flags {rst[2]} ({kind}); chain {spec['steps']}", case=case, fns=["container/wrappers.py:MetadorNode._child_node_kwargs"])
                    if local_root is not None:
                        rec.check(under(rst[1], local_root), f"c15:nav:above-local-root:{st[0]}", f"{st} from local_only subtree {local_root} reached {rst[1]} ({kind}); chain {spec['steps']}", case=case, fns=["container/wrappers.py:MetadorNode.parent", "container/wrappers.py:MetadorNode._guard_path"])
                    nspec = {"start": start, "flags": flags, "steps": spec["steps"] + [st]}
                    run_suites(nspec, rst, st[0])
                    if rst not in seen_states:
                        seen_states.add(rst)
                        nxt.append((nspec, rst))
                if st[0] in ("require_group", "require_dataset") and env.changed():
                    if "read_only" in state[2]:
                        rec.check(False, f"c15:nav:mutates:{st[0]}", f"navigation {st} from a read_only node changed the container: {env.diff()} ({kind})", case=case)
                    env.fresh()
            # the remaining (pure lookup) navigation of this node must not have changed anything either
            if env.changed():
                rec.check("read_only" not in state[2], "c15:nav:mutates:lookup", f"lookups/listings from read_only node {state[1]} changed the container: {env.diff()} ({kind})", case={"kind": kind, "what": "nav", "spec": spec, "step": None})
                env.fresh()
            elif "read_only" in state[2]:
                rec.evaluations += 1
        frontier = nxt
        stats["depth_reached"] = max(stats["depth_reached"], depth)
        if not frontier:
            stats["closed"] += 1
            break


def _acl_laws(rec, env, spec, stats):
    kind = env.kind
    box = env.get()
    n = resolve(box, spec)
    before = dict(n.acl)
    case = {"kind": kind, "what": "acl", "spec": spec}
    want = set(spec["flags"])
    got = {f.name for f, v in before.items() if v}
    rec.case((kind, "acl", spec["start"], tuple(spec["flags"])), True)
    rec.check(want <= got, "c15:acl:restrict-not-applied", f"restrict({spec['flags']}) gave acl {sorted(got)} ({kind})", case=case, fns=["container/wrappers.py:MetadorNode.restrict"])
    a = n.acl
    for k in list(a):
        a[k] = False
    a.clear()
    rec.check(dict(n.acl) == before, "c15:acl:acl-not-a-copy", f"mutating the dict returned by .acl changed the node's flags: {before} -> {dict(n.acl)} ({kind})", case=case, fns=["container/wrappers.py:MetadorNode.acl"])
    for kw in ({f: False for f in FLAGS}, {}, {"read_only": False}, {"read_only": None, "skel_only": 0, "local_only": ""}):
        try:
            r = n.restrict(**kw)
        except Exception:  # noqa
            r = n
        rec.check(dict(r.acl) == before and dict(n.acl) == before, "c15:acl:restrict-removed-flag", f"restrict({kw}) changed flags {before} -> {dict(n.acl)} ({kind})", case=case, fns=["container/wrappers.py:MetadorNode.restrict"])
    try:
        n.restrict(bogus=True)
        raised = False
    except Exception:  # noqa
        raised = True
    rec.check(all(n.acl[f] for f, v in before.items() if v), "c15:acl:restrict-removed-flag", f"restrict(bogus=True) removed flags ({kind})", case=case)
    stats["bogus_kw_raises"] = raised
    for f in FLAGS:
        m = resolve(box, spec)
        m.restrict(**{f: True})
        now = {x.name for x, v in m.acl.items() if v}
        rec.check(got | {f} <= now, "c15:acl:restrict-add-lost-flag", f"restrict({f}=True) on {sorted(got)} gave {sorted(now)} ({kind})", case=case, fns=["container/wrappers.py:MetadorNode.restrict"])


def suites(rec, env, ctl, spec, state, local_root, stats):
    kind = env.kind
    cls, path, flags, lp = state
    fn_w = "container/wrappers.py:"
    prim = spec["steps"][-1][0] if spec["steps"] else "start"
    local = "local_only" in flags

    def node():
        return resolve(env.get(), spec)

    def tally(suite, st, v, nm=""):
        if st == "raised":
            k = f"{suite}:{v}" if v in ("UnsupportedOperationError", "ValueError") else f"{suite}:{v}:{nm}"
        else:
            k = f"{suite}:{st}:{nm}"
        stats["exc"][k] = stats["exc"].get(k, 0) + 1

    # ---------- read_only: every mutating op raises, raw dump unchanged
    if "read_only" in flags:
        n = node()
        ops = mutating_ops(n, _ctx(n), local)
        accepted = []
        for nm in list(ops):
            st, v = call(ops[nm])
            stats["mut_calls"] += 1
            tally("mut", st, v, nm)
            ctl.later((kind, "mut", nm, cls, flags, prim, path), "mut", path, cls, nm)
            case = {"kind": kind, "what": "mut", "spec": spec, "op": nm}
            if st != "raised":
                accepted.append(nm)
                changed = env.changed()
                if changed:
                    env.fresh()
                eff = ctl.effective("mut", path, cls, nm)  # (may replace the working clone)
                # returning without raising is a violation iff the op mutates on an unrestricted node, or it changed something here
                rec.check(not (eff or changed), f"c15:read_only:accepted:{nm}", f"{nm} on a read_only {cls}-node {path} (flags {flags}, chain {spec['steps']}) did not raise ({st}); container changed: {changed} ({kind})", case=case, fns=[fn_w + "MetadorGroup", fn_w + "MetadorDataset", fn_w + "WrappedAttributeManager", "container/interface.py:MetadorMeta"])
                n = node()
                ops = mutating_ops(n, _ctx(n), local)
            else:
                rec.evaluations += 1
        if env.changed():  # raised, but with effect -> localise
            d_ = env.diff()
            env.fresh()
            culprit = None
            for nm in list(ops):
                if nm in accepted:
                    continue
                n = node()
                th = mutating_ops(n, _ctx(n), local).get(nm)
                if th is None:
                    continue
                call(th)
                if env.changed():
                    culprit = nm
                    d_ = env.diff()
                    env.fresh()
                    rec.check(False, f"c15:read_only:raised-with-effect:{nm}", f"{nm} on a read_only {cls}-node {path} (flags {flags}, chain {spec['steps']}) raised but changed the container: {d_} ({kind})", case={"kind": kind, "what": "mut", "spec": spec, "op": nm})
            if culprit is None:
                rec.check(False, "c15:read_only:batch-effect", f"mutating-op batch on read_only node {path} changed the container ({d_}) but no single op reproduces it ({kind})", case={"kind": kind, "what": "mut", "spec": spec, "op": None})
        else:
            rec.evaluations += 1  # raw dump unchanged after the whole batch
            stats["unchanged_checks"] += 1
    # ---------- nodes derived by creating primitives (only possible without read_only) inherit the flags too
    ckey = (kind, path, flags, lp[:1], local_root)
    if "read_only" not in flags and cls == "g" and flags and ckey not in stats.setdefault("seen_create", set()):
        stats["seen_create"].add(ckey)
        n = node()
        for nm, th in (("create_group", lambda: n.create_group("zz_cg")), ("create_dataset", lambda: n.create_dataset("zz_cd", data=1)), ("require_group_new", lambda: n.require_group("zz_rg")), ("require_dataset_new", lambda: n.require_dataset("zz_rd", shape=(), dtype="int64"))):
            st, r = call(th)
            stats["create_calls"] = stats.get("create_calls", 0) + 1
            if st != "ok":
                rec.evaluations += 1
                continue
            rec.case((kind, "create", nm, flags, prim, path), nontrivial=True)
            case = {"kind": kind, "what": "create", "spec": spec, "op": nm}
            if not isinstance(r, MetadorNode):
                rec.check(False, f"c15:nav:unwrapped:{nm}", f"{nm} on a {flags} node returned a raw {type(r).__name__} ({kind})", case=case)
                continue
            rst = node_state(r)
            missing = [f for f in flags if f not in rst[2]]
            rec.check(not missing, f"c15:nav:flag-lost:{nm}:{'+'.join(missing)}", f"node created by {nm} on a node with flags {flags} at {path} has flags {rst[2]} ({kind})", case=case, fns=[fn_w + "_wrap_method"])
            if local_root is not None:
                rec.check(under(rst[1], local_root), f"c15:nav:above-local-root:{nm}", f"{nm} on local_only subtree {local_root} produced {rst[1]} ({kind})", case=case)
        env.fresh()
    # ---------- skel_only: reading ops never yield
    if "skel_only" in flags:
        n = node()
        ops = reading_ops(n, _ctx(n))
        for nm, th in ops.items():
            st, v = call(th)
            stats["read_calls"] += 1
            tally("read", st, v, nm)
            ctl.later((kind, "read", nm, cls, flags, prim, path), "read", path, cls, nm)
            yields = st == "ok" and v is not None and not (isinstance(v, (list, dict)) and len(v) == 0)
            rec.check(not yields, f"c15:skel_only:yields:{nm}", f"{nm} on a skel_only {cls}-node {path} (flags {flags}, chain {spec['steps']}) returned {repr(v)[:80]} ({kind})", case={"kind": kind, "what": "read", "spec": spec, "op": nm}, fns=[fn_w + "MetadorDataset.__getitem__", fn_w + "WrappedAttributeManager", "container/interface.py:MetadorMeta.get"])
    # ---------- local_only: upward ops raise (and have no effect)
    if local:
        n = node()
        is_root = len(lp) == 0
        ops = upward_ops(n, _ctx(n), is_root)
        for nm in list(ops):
            th, mut = ops[nm]
            st, v = call(th)
            stats["up_calls"] += 1
            tally("up", st, v, nm)
            ctl.later((kind, "up", nm, cls, flags, prim, path), "up", path, cls, nm)
            escaped = st != "raised" and not (nm == "abs_contains" and v is None)
            if escaped and isinstance(v, MetadorNode) and local_root is not None and nm != "file":
                try:
                    escaped = not under(v.name, local_root)  # something inside the local subtree is not 'above itself'
                except Exception:  # noqa
                    pass
            case = {"kind": kind, "what": "up", "spec": spec, "op": nm}
            rec.check(not escaped, f"c15:local_only:escaped:{nm}", f"{nm} on a local_only {cls}-node {path} (local root {local_root}, lp chain {lp}, flags {flags}, chain {spec['steps']}) did not raise: {st} {repr(v)[:60]} ({kind})", case=case, fns=[fn_w + "MetadorNode._guard_path", fn_w + "MetadorNode.parent", fn_w + "MetadorNode.file"])
            if st != "raised" and mut and env.changed():
                env.fresh()
                n = node()
                ops = upward_ops(n, _ctx(n), is_root)
        if env.changed():
            d_ = env.diff()
            env.fresh()
            rec.check(False, "c15:local_only:raised-with-effect", f"upward-op batch on local_only node {path} (flags {flags}) raised but changed the container: {d_} ({kind})", case={"kind": kind, "what": "up", "spec": spec, "op": None})
        else:
            rec.evaluations += 1


def probe_notes(env):
    """Informational probes outside the property's quantifier (not claimed)."""
    notes = []
    box = env.fresh()
    c = box.c
    try:
        n = c["/g"].restrict(read_only=True)
        f = n.file
        notes.append(f".file of a read_only (not local_only) node returns the container with acl {sorted(k.name for k, v in f.acl.items() if v)} (unrestricted) — `.file` is not among the property's navigation primitives; not claimed")
    except Exception as e:  # noqa
        notes.append(f".file of a read_only node raised {type(e).__name__}")
    if env.kind == "h5":
        try:
            ds = c["/g/x"].restrict(skel_only=True)
            leaks = []
            for nm, th in (("numpy.asarray(node)", lambda: np.asarray(ds)), ("node.asstr/astype", lambda: ds.astype("int64")[()]), ("node.read_direct", lambda: ds.read_direct(np.zeros((), dtype="int64")) or "filled"), ("node.__wrapped__[()]", lambda: ds.__wrapped__[()])):
                try:
                    th()
                    leaks.append(nm)
                except Exception:  # noqa
                    pass
            if leaks:
                notes.append(f"h5py-specific members outside the H5DatasetLike protocol still read a skel_only dataset: {leaks} (soft restriction by design; not claimed)")
        except Exception:  # noqa
            pass
    return notes


def run(tier: str, seed: int) -> dict:
    rec = Recorder(PID, DRV)
    quick = tier == "quick"
    total = 52.0 if quick else 540.0
    max_depth = 3 if quick else 4
    plan = [("h5", 0.45), ("ih5", 0.55)] if quick else [("h5", 0.4), ("ih5", 0.6)]
    t0 = time.time()
    reached = {}
    with tmpdir(prefix=TMP_PREFIX) as d:
        t_kind = t0
        for kind, share in plan:
            t_end = (t0 + total) if kind == plan[-1][0] else min(t_kind, time.time()) + total * share
            t_kind = t_end
            t_k0 = time.time()
            env = Env(kind, d)
            ctl = Ctl(env)
            stats = {"edges": 0, "nav_refused": 0, "mut_calls": 0, "read_calls": 0, "up_calls": 0, "unchanged_checks": 0, "exc": {}, "depth_reached": 0, "closed": 0, "unresolved": 0, "starts_done": 0, "expanded": set()}
            seen_suites = set()
            try:
                env.fresh()
                # controls: unrestricted nodes at every start accept the same suites (sanity of the fixture)
                order = [(s, COMBOS[(r + si) % len(COMBOS)]) for r in range(len(COMBOS)) for si, s in enumerate(STARTS)]
                t_explore = t_k0 + (t_end - t_k0) * 0.7  # the rest is for the deferred controls
                for start, flags in order:
                    if time.time() > t_explore or rec.full:
                        break
                    explore(rec, env, ctl, start, flags, max_depth, t_explore, stats, seen_suites)
                    stats["starts_done"] += 1
                env.fresh()
                stats["controls_skipped"] = ctl.settle(rec, t_end)
                rec.notes += [f"{kind}: {n}" for n in probe_notes(env)]
            finally:
                env.close()
            stats["time_s"] = round(time.time() - t_k0, 1)
            stats["starts_total"] = len(COMBOS) * len(STARTS)
            stats["suite_states"] = sum(1 for k in seen_suites if k[0] != "acl")
            stats["clones"] = env.clones
            stats.pop("seen_create", None)
            stats["expanded"] = len(stats["expanded"])
            stats["effective_controls"] = sum(1 for v in ctl.cache.values() if v)
            stats["controls"] = len(ctl.cache)
            reached[kind] = stats
            rec.notes.append(f"{kind}: exception classes seen {stats['exc']}")
    bound = "; ".join(
        f"{k}: {v['starts_done']}/{v['starts_total']} (start node x flag combination) explorations, chains up to depth {v['depth_reached']} (limit {max_depth}; {v['closed']} explorations reached a fixpoint of abstract states before the limit), "
        f"{v['edges']} navigation edges ({v['nav_refused']} refused), {v['suite_states']} distinct (wrapper state x producing primitive) followed by the op suites: {v['mut_calls']} mutating, {v['read_calls']} reading, {v['up_calls']} upward calls; "
        f"{v['effective_controls']}/{v['controls']} controls effective on the unrestricted node ({v.get('controls_skipped', 0)} controls not evaluated in time: their cases count as trivial)"
        for k, v in reached.items()
    )
    return rec.result(
        rule="case = (driver, suite, operation, node class, flags, producing navigation primitive, path) resp. (driver, source path, flags, navigation step); "
        "non-trivial iff the operation has the effect (changes the raw dump / returns contents / succeeds) on the unrestricted node at the same path",
        bound=bound,
        exhaustive=False,
        assumptions=[
            "a wrapper's behaviour is determined by (class, path, flags, local-parent chain); the suites are run once per such abstract state (chain cut to the immediate local parent) and producing primitive",
            "refusal = any exception; mutating ops must additionally leave the raw dump unchanged (checked once per node after the whole batch, localised per op on mismatch)",
            "skel_only: a call that raises, returns None or an empty list/dict does not yield contents",
            "`.file` of a read_only node and h5py-specific members outside util/types.py protocols are not navigation primitives of the property (see notes)",
        ],
        trusted=["rac/contlib2.py raw_dump", "observation of wrapper state via node.acl and node._self_local_parent"],
        extra={"reached": reached},
    )


def replay(case: dict):
    with tmpdir(prefix=TMP_PREFIX) as d:
        env = Env(case["kind"], d)
        try:
            env.fresh()
            rec = Recorder(PID, DRV)
            spec = case["spec"]
            stats = {"edges": 0, "nav_refused": 0, "mut_calls": 0, "read_calls": 0, "up_calls": 0, "unchanged_checks": 0, "exc": {}, "depth_reached": 0, "closed": 0, "unresolved": 0, "bogus_kw_raises": None, "expanded": set()}
            if case["what"] == "acl":
                _acl_laws(rec, env, spec, stats)
            elif case["what"] == "nav":
                n = resolve(env.get(), spec)
                st0 = node_state(n)
                local_root = None
                if "local_only" in spec["flags"]:
                    local_root = start_node(env.get(), spec["start"], spec["flags"]).name
                try:
                    r = apply_step(env.get(), n, case["step"])
                except Exception as e:  # noqa
                    return False, f"navigation refused: {type(e).__name__}"
                if not isinstance(r, MetadorNode):
                    return True, f"raw {type(r).__name__} returned"
                rst = node_state(r)
                missing = [f for f in st0[2] if f not in rst[2]]
                if missing:
                    return True, f"flags lost {missing}: {st0} -> {rst}"
                if local_root is not None and not under(rst[1], local_root):
                    return True, f"reached {rst[1]} above local root {local_root}"
                if env.changed() and "read_only" in st0[2]:
                    return True, f"navigation changed the container: {env.diff()}"
                return False, f"{st0} -> {rst}: flags inherited, contained"
            else:
                n = resolve(env.get(), spec)
                state = node_state(n)
                local_root = start_node(env.get(), spec["start"], spec["flags"]).name if "local_only" in spec["flags"] else None
                suites(rec, env, Ctl(env), spec, state, local_root, stats)
            hits = [v for v in rec.violations if case.get("op") is None or v["replay"]["case"].get("op") == case.get("op") or case["what"] == "acl"]
            return bool(hits), ("; ".join(v["what"] for v in hits)[:700] if hits else "all operations refused / nothing yielded / flags preserved")
        finally:
            env.close()
