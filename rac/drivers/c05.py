"""C05 bounded driver: merge materialises the overlay view and continues the patch chain.

For source records produced by histories of the C01 enumerator (rac.ih5hist: curated multi-container scenarios + BFS
states with >= 1 patch), for IH5Record and IH5MFRecord:
 (a) merge_files(target) opened as a record: single container, dump_tree(merged) == dump_tree(source view at that moment)
 (b) same record uuid; newest user block has the source's newest patch_uuid / patch_index; prev_patch of the source base
 (c) source unchanged: sha256 of every source file, and through the still-open object ih5_meta (.dict()), dump, ih5_files
 (d) refused (exception) while a patch is uncommitted - without effect on the source; IH5MFRecord: refused with a stub
 (e) chain continuation: a follow-up patch created on the SOURCE opens on top of the merged container
     ([merged, patch]) and shows the same tree as [all source files..., patch].
"""
from __future__ import annotations

import hashlib
import time
from pathlib import Path

from rac import base  # noqa: F401  (numpy shim first)
from rac.base import Recorder, digest, tmpdir
from rac import ih5hist as H
from rac.ih5lib import dump_tree, new_ref

QUICK_BUDGET_S = 52.0
THOROUGH_BUDGET_S = 540.0
MERGE_TIMEOUT_S = 30.0
N_FOLLOWUP = 3


def _classes():
    from metador_core.ih5.manifest import IH5MFRecord
    from metador_core.ih5.record import IH5Record

    return {"IH5Record": IH5Record, "IH5MFRecord": IH5MFRecord}


def _sha_dir(d: Path, skip=()):
    return {p.name: hashlib.sha256(p.read_bytes()).hexdigest() for p in sorted(Path(d).iterdir()) if p.is_file() and p.name not in skip}


def _meta(rec):
    return [ub.dict() for ub in rec.ih5_meta]


class Unreadable(Exception):
    """The overlay view of a record cannot be read (crash inside the overlay: C01's subject, not C05's)."""


def _snapshot(rec, d: Path, skip=()):
    dump, _, err = H.safe_dump(rec)
    if err is not None:
        raise Unreadable(err)
    return {"sha": _sha_dir(d, skip), "meta": _meta(rec), "dump": dump, "files": [str(p) for p in rec.ih5_files], "uuid": rec.ih5_uuid}


def _meta_diff(a, b):
    if len(a) != len(b):
        return [f"number of user blocks {len(a)} -> {len(b)}"]
    out = []
    for i, (x, y) in enumerate(zip(a, b)):
        for k in sorted(set(x) | set(y)):
            if x.get(k) != y.get(k):
                out.append(f"block {i} {k}: {x.get(k)!r} -> {y.get(k)!r}")
    return out


def _guarded(fn, timeout=H.OP_TIMEOUT_S):
    """Run fn() under both watchdogs. Returns ('ok', value) | ('err', exc) | ('hang', None)."""
    try:
        with H.hard_watchdog(timeout), base.watchdog(timeout):
            return "ok", fn()
    except base.OpTimeout:
        return "hang", None
    except Exception as e:  # noqa
        return "err", e


def _close(r):
    if r is not None:
        H._safe_close(r, commit=False)


def _followups(view_dump, rnd, keys, cidx, selfcopy, k=N_FOLLOWUP):
    """A few operations for the follow-up patch, chosen relative to the source view (kinds balanced)."""
    ops = [op for op in H.gen_ops(view_dump, keys, cidx, False, level=1, selfcopy=selfcopy, fails=False) if op[0] != "commit"]
    if not ops:
        return []
    kinds = sorted({o[0] for o in ops})
    k0 = rnd.choice(kinds)
    return [rnd.choice([o for o in ops if o[0] == k0])]


def LC_patch_index(p):
    from rac.lifecycle import patch_index

    return patch_index(p)


def _merge_case(args):
    """Worker: all C05 checks for ONE (class, source history, follow-up ops). Returns dict(evals, fails=[{kind, what}], ...)."""
    clsname, history, followup = args["cls"], args["history"], args.get("followup")
    root, seed, keys, selfcopy = Path(args["root"]), args["seed"], args["keys"], args["selfcopy"]
    reopened_variant = args.get("reopened", False)
    out = {"cls": clsname, "history": history, "followup": followup, "evals": 0, "fails": [], "skipped": None, "notes": [], "containers": 0}
    if time.time() > args.get("deadline", float("inf")):
        out["skipped"] = "deadline"
        return out
    cls = _classes()[clsname]
    d = H.fresh_dir(root)
    sdir, tdir, stubdir = d / "src", d / "tgt", d / "stub"
    for x in (sdir, tdir, stubdir):
        x.mkdir()
    opened = []

    def ev(cond, kind, what):
        out["evals"] += 1
        if not cond:
            out["fails"].append({"kind": kind, "what": what})
        return cond

    src = None
    try:
        # ---- build the source (uncommitted newest container)
        src = cls(sdir / "rec", "x")
        opened.append(src)
        for op in history:
            st = H.apply(src, op, is_ih5=True)
            if st[0] != "ok":
                out["skipped"] = f"source history op {op} -> {st}"
                return out
        # ---- (d) refused while uncommitted, no effect
        writable = Path(src.ih5_files[-1]).name
        before = _snapshot(src, sdir, skip=(writable,))
        st, val = _guarded(lambda: src.merge_files(tdir / "m0"), MERGE_TIMEOUT_S)
        ev(st == "err", "not-refused:uncommitted", f"merge_files with an uncommitted patch returned {st} ({val!r}) instead of raising")
        after = _snapshot(src, sdir, skip=(writable,))
        eff = [k for k in ("sha", "meta", "dump", "files") if before[k] != after[k]]
        ev(not eff, "refused-with-effect:uncommitted", f"refused merge changed the source: {eff} {_meta_diff(before['meta'], after['meta'])[:3]}")
        if any(tdir.iterdir()):
            out["notes"].append(f"refused merge left files in the target dir: {[p.name for p in tdir.iterdir()]}")
            for p in tdir.iterdir():
                p.unlink()
        # ---- commit -> fully committed source
        st, val = _guarded(src.commit_patch)
        if st != "ok":
            out["skipped"] = f"commit of source failed: {st} {val!r}"
            return out
        if reopened_variant:  # merge from a freshly opened read-only object instead of the creating one
            src.close()
            files_now = sorted(sdir.glob("rec*.ih5"))
            mfs = [Path(str(p) + "mf.json") for p in files_now]
            if clsname == "IH5MFRecord" and len(history) % 2 == 0 and mfs and all(m.is_file() for m in mfs):
                # manifests kept elsewhere: the record is opened from an explicit file list with manifest_file=
                elsewhere = d / "manifests"
                elsewhere.mkdir()
                newest = max(files_now, key=lambda p: LC_patch_index(p))
                moved = elsewhere / (newest.name + "mf.json")
                Path(str(newest) + "mf.json").rename(moved)
                st, val = _guarded(lambda: cls(list(files_now), "r", manifest_file=moved))
                out["notes"].append("manifest-elsewhere")
            else:
                st, val = _guarded(lambda: cls(sdir / "rec", "r"))
            if st != "ok":
                out["skipped"] = f"reopen of source failed: {st} {val!r}"
                return out
            src = val
            opened.append(src)
        out["containers"] = len(src.ih5_files)
        before = _snapshot(src, sdir)
        newest, oldest = before["meta"][-1], before["meta"][0]
        # ---- merge
        st, val = _guarded(lambda: src.merge_files(tdir / "merged"), MERGE_TIMEOUT_S)
        if not ev(st == "ok", "merge-failed" if st == "err" else "merge-hang", f"merge_files of a committed stub-free record: {st} {type(val).__name__ if st == 'err' else ''}: {val}"):
            return out
        merged_file = Path(val)
        # ---- (c) source unchanged
        after = _snapshot(src, sdir)
        chg = sorted(k for k in set(before["sha"]) | set(after["sha"]) if before["sha"].get(k) != after["sha"].get(k))
        ev(not chg, "source-changed:bytes", f"source files changed on disk by merge: {chg}")
        md = _meta_diff(before["meta"], after["meta"])
        ev(not md, "source-changed:ih5_meta", f"source.ih5_meta differs after merge_files: {md[:4]}")
        ev(before["dump"] == after["dump"], "source-changed:view", f"source view differs after merge_files: {H.classify_diff(after['dump'], before['dump'])[1]}")
        ev(before["files"] == after["files"], "source-changed:files", f"source.ih5_files {before['files']} -> {after['files']}")
        # ---- (a) merged: single container, same tree
        tfiles = sorted(p.name for p in tdir.iterdir())
        ih5s = [n for n in tfiles if n.endswith(".ih5")]
        ev(ih5s == ["merged.ih5"] and merged_file == tdir / "merged.ih5", "merged-not-single-container", f"target dir holds {tfiles}, merge_files returned {merged_file}")
        st, m = _guarded(lambda: cls(tdir / "merged", "r"))
        if ev(st == "ok", "merged-open-failed", f"opening the merged container as {clsname} failed: {type(m).__name__ if st == 'err' else st}: {m}"):
            opened.append(m)
            ev(len(m.ih5_files) == 1, "merged-not-single-container", f"merged record consists of {len(m.ih5_files)} containers")
            dm, _, err = H.safe_dump(m)
            if err is not None:
                ev(False, "merged-tree-mismatch:read-crash", f"reading the merged record failed: {err}")
            else:
                c, txt = H.classify_diff(dm, before["dump"]) if dm != before["dump"] else ("", "")
                ev(dm == before["dump"], f"merged-tree-mismatch:{c}", f"merged tree differs from the source view ({txt})")
            # ---- (b) identity
            mm = _meta(m)[-1]
            ev(m.ih5_uuid == before["uuid"], "identity:record_uuid", f"merged record uuid {m.ih5_uuid} != source {before['uuid']}")
            ev(mm["patch_uuid"] == newest["patch_uuid"], "identity:patch_uuid", f"merged patch_uuid {mm['patch_uuid']} != source newest {newest['patch_uuid']}")
            ev(mm["patch_index"] == newest["patch_index"], "identity:patch_index", f"merged patch_index {mm['patch_index']} != source newest {newest['patch_index']}")
            ev(mm["prev_patch"] == oldest["prev_patch"], "identity:prev_patch", f"merged prev_patch {mm['prev_patch']} != source base's {oldest['prev_patch']}")
            _close(m)
        # ---- (d') IH5MFRecord: refused when the set contains a stub
        if clsname == "IH5MFRecord" and args.get("stub", True):
            mf_file = Path(str(before["files"][-1]) + "mf.json")
            st, stub = _guarded(lambda: cls.create_stub(stubdir / "rec", mf_file))
            if st != "ok":
                out["notes"].append(f"create_stub failed ({stub!r}); stub refusal not evaluated")
            else:
                opened.append(stub)
                st, val = _guarded(lambda: stub.merge_files(tdir / "ms1"), MERGE_TIMEOUT_S)
                ev(st == "err", "not-refused:stub:base", f"merge_files on a stub base returned {st} ({val!r}) instead of raising")
                _close(stub)
                st, s2 = _guarded(lambda: cls(stubdir / "rec", "r+"))
                if st != "ok":
                    out["notes"].append(f"opening stub r+ failed ({s2!r}); stub+patch refusal not evaluated")
                else:
                    opened.append(s2)
                    H.apply(s2, ["set", "zz-stubpatch", 1], is_ih5=True)
                    st, val = _guarded(s2.commit_patch)
                    if st == "ok":
                        b2 = _snapshot(s2, stubdir)
                        st, val = _guarded(lambda: s2.merge_files(tdir / "ms2"), MERGE_TIMEOUT_S)
                        ev(st == "err", "not-refused:stub:patched", f"merge_files on stub + patch returned {st} ({val!r}) instead of raising")
                        a2 = _snapshot(s2, stubdir)
                        eff = [k for k in ("sha", "meta", "dump", "files") if b2[k] != a2[k]]
                        ev(not eff, "refused-with-effect:stub", f"refused merge changed the stub-based record: {eff}")
                    _close(s2)
        # ---- (e) chain continuation
        src.close()
        st, s2 = _guarded(lambda: cls(sdir / "rec", "r+"))
        if st != "ok":
            out["notes"].append(f"reopening the source r+ failed: {s2!r}; continuation not evaluated")
            return out
        opened.append(s2)
        cidx = len(s2.ih5_files) - 1
        used, ok_ops = [], []
        if followup is None:
            rnd = base.rng(seed, "c05-followup-" + digest(history))
            for _ in range(N_FOLLOWUP):
                dv, _, err = H.safe_dump(s2)
                if err is not None:
                    break
                for op in _followups(dv, rnd, keys, cidx, selfcopy):
                    stt = H.apply(s2, op, is_ih5=True)
                    used.append(op)
                    ok_ops.append(op) if stt[0] == "ok" else None
                    if stt[0] == "hang":
                        out["skipped"] = f"follow-up op {op} hangs"
                        return out
        else:
            for op in followup:
                stt = H.apply(s2, op, is_ih5=True)
                used.append(op)
                ok_ops.append(op) if stt[0] == "ok" else None
                if stt[0] == "hang":
                    out["skipped"] = f"follow-up op {op} hangs"
                    return out
        out["followup"] = used
        st, val = _guarded(s2.commit_patch)
        if st != "ok":
            out["notes"].append(f"commit of follow-up patch failed: {val!r}")
            return out
        all_files = [Path(p) for p in s2.ih5_files]
        patch_file = all_files[-1]
        s2.close()
        st, b = _guarded(lambda: cls(list(all_files), "r"))
        if st != "ok":
            out["notes"].append(f"opening [source files..., patch] failed: {b!r}; continuation not evaluated")
            return out
        opened.append(b)
        st, a = _guarded(lambda: cls([merged_file, patch_file], "r"))
        if ev(st == "ok", "continuation-open-failed", f"opening [merged, follow-up patch] failed although [source files..., patch] opens: {type(a).__name__ if st == 'err' else st}: {a}"):
            opened.append(a)
            da, _, ea = H.safe_dump(a)
            db, _, eb = H.safe_dump(b)
            if ea is not None or eb is not None:
                ev(ea == eb, "continuation-mismatch:read-crash", f"reading [merged, patch]: {ea}; reading [source..., patch]: {eb}")
            elif da != db:
                # attribution only: which side deviates from the single-tree reference of history + follow-up
                ref = new_ref()
                try:
                    for op in list(history) + ok_ops:  # the follow-up operations that IH5 accepted
                        H.apply(ref, op, is_ih5=False)
                    dr = dump_tree(ref)
                finally:
                    ref.close()
                # overlay-side: [merged, patch] equals the single tree, the multi-container overlay view does not (C01's subject)
                side = "overlay-side" if da == dr else ("merged-side" if db == dr else "undetermined-side")
                ev(False, "continuation-mismatch", f"[{side}] [merged, patch] vs [source files..., patch]: {H.classify_diff(da, db)[1]} ({side}: compared with the single tree for history + accepted follow-up ops); follow-up patch {used}")
            else:
                ev(True, "continuation-mismatch", "")
        return out
    except Unreadable as e:
        if out["evals"] == 0 or not out["fails"]:
            out["skipped"] = f"overlay view unreadable ({e}); C01's subject"
        return out
    finally:
        for r in opened:
            _close(r)
        H._rm(d)


def merge_case(args):
    """Crash-safe wrapper: a crash of the harness itself becomes a note, never a violation."""
    try:
        return _merge_case(args)
    except Exception:  # noqa
        import traceback

        return {"cls": args["cls"], "history": args["history"], "followup": args.get("followup"), "evals": 0, "fails": [], "skipped": "harness crash: " + traceback.format_exc()[-600:], "notes": [], "containers": 0}


# ---------------------------------------------------------------------------------------------------------------------

FNS = {
    "source-changed:ih5_meta": ["ih5/record.py:IH5Record.merge_files"],
    "source-changed": ["ih5/record.py:IH5Record.merge_files"],
    "merged-tree-mismatch": ["ih5/record.py:IH5Record.merge_files", "ih5/overlay.py:h5_copy_from_to"],
    "identity": ["ih5/record.py:IH5Record.merge_files"],
    "not-refused:uncommitted": ["ih5/record.py:IH5Record.merge_files"],
    "not-refused:stub": ["ih5/manifest.py:IH5MFRecord.merge_files"],
    "merged-open-failed": ["ih5/record.py:IH5Record.merge_files", "ih5/manifest.py:IH5MFRecord._fixes_after_merge"],
    "continuation-open-failed": ["ih5/record.py:IH5Record.merge_files", "ih5/record.py:IH5Record._check_ublock"],
    "continuation-mismatch": ["ih5/record.py:IH5Record.merge_files", H.FN_CHILDREN, H.FN["mkgrp"]],
    "merge-failed": ["ih5/record.py:IH5Record.merge_files", "ih5/overlay.py:h5_copy_from_to"],
    "merge-hang": ["ih5/record.py:IH5Record.merge_files", "ih5/overlay.py:h5_copy_from_to"],
}


def _fns(kind):
    best = ""
    for k in FNS:
        if kind.startswith(k) and len(k) > len(best):
            best = k
    return FNS.get(best, ["ih5/record.py:IH5Record.merge_files"])


# failure kinds whose signature does not depend on the history (the whole class of sources is affected)
HISTORY_INDEPENDENT = ("source-changed:ih5_meta", "not-refused", "identity", "merged-not-single-container")


class Collector:
    def __init__(self, rec, root, seed, keys, selfcopy):
        self.rec, self.root, self.seed, self.keys, self.selfcopy = rec, root, seed, keys, selfcopy
        self.by_kind = {}
        self.n_fail = 0

    def _task(self, cls, history, followup, reopened=False, stub=True):
        return {"cls": cls, "history": history, "followup": followup, "root": str(self.root), "seed": self.seed, "keys": self.keys, "selfcopy": self.selfcopy, "reopened": reopened, "stub": stub}

    def minimise(self, res, kind, reopened):
        """Greedy drop of source-history ops, then follow-up ops, while a failure of the same kind persists."""
        h, fu = list(res["history"]), list(res["followup"] or [])
        what = next(f["what"] for f in res["fails"] if f["kind"] == kind)
        needs_fu = kind.startswith("continuation")
        runs = 0

        def still(hh, ff):
            nonlocal runs
            runs += 1
            r = merge_case(self._task(res["cls"], hh, ff if needs_fu else [], reopened, stub="stub" in kind))
            return next((f["what"] for f in r["fails"] if f["kind"] == kind), None)

        changed = True
        while changed and runs < 60:
            changed = False
            for i in reversed(range(len(h))):
                w = still(h[:i] + h[i + 1 :], fu)
                if w is not None:
                    h, what, changed = h[:i] + h[i + 1 :], w, True
                    break
            if changed or not needs_fu:
                continue
            for i in reversed(range(len(fu))):
                w = still(h, fu[:i] + fu[i + 1 :])
                if w is not None:
                    fu, what, changed = fu[:i] + fu[i + 1 :], w, True
                    break
        return h, (fu if needs_fu else []), what

    def handle(self, res, reopened):
        rec = self.rec
        rec.evaluations += res["evals"] - len(res["fails"])
        for f in res["fails"]:
            self.n_fail += 1
            kind = f["kind"]
            ck = (kind, res["cls"])
            sigs = self.by_kind.setdefault(ck, [])
            case = {"cls": res["cls"], "history": res["history"], "followup": res["followup"], "kind": kind, "reopened": reopened}
            if sigs or rec.full:
                rec.check(False, sigs[0] if sigs else f"c05:{kind}:{res['cls']}:unminimised", f["what"], case=case, fns=_fns(kind))
                continue
            h, fu, what = self.minimise(res, kind, reopened)
            if kind.startswith(HISTORY_INDEPENDENT):
                sig = f"c05:{kind}:{res['cls']}"
            elif kind == "continuation-mismatch" and what.startswith("["):
                side = what[1 : what.index("]")]  # attribution of the minimal case (see merge_case)
                sig = f"c05:{kind}:{side}:{res['cls']}:{digest([h, fu])}"
            else:
                sig = f"c05:{kind}:{res['cls']}:{digest([h, fu])}"
            sigs.append(sig)
            case = {"cls": res["cls"], "history": h, "followup": fu, "kind": kind, "reopened": reopened}
            fns = _fns(kind)
            if ":overlay-side:" in sig:
                fns = [H.FN["mkgrp"], H.FN_CHILDREN]
            elif ":merged-side:" in sig:
                fns = ["ih5/record.py:IH5Record.merge_files", "ih5/overlay.py:h5_copy_from_to"]
            rec.check(False, sig, f"[{res['cls']}{', source reopened r' if reopened else ''}] source history {h}" + (f", follow-up patch {fu}" if fu else "") + f": {what}", case=case, fns=fns)


def _priority(h):
    """Sources with deletions / replacements after a patch boundary first."""
    seen_commit, score = False, 0
    for op in h:
        if op[0] == "commit":
            seen_commit = True
        elif seen_commit and op[0] in ("del", "move", "delattr"):
            score += 2
        elif seen_commit:
            score += 1
    return -score


def run(tier: str, seed: int) -> dict:
    rec = Recorder("C05", "c05", max_violations=16)
    t0 = time.time()
    quick = tier != "thorough"
    budget = QUICK_BUDGET_S if quick else THOROUGH_BUDGET_S
    pool = H.Pool()
    bound_parts = []
    keys = H.KEYS_AB if quick else H.KEYS_ALL
    try:
        with tmpdir() as root, pool:  # the pool is terminated before the temp dir is removed
            # does copying a group into its own subtree terminate on this tree?  (C01's finding; only decides
            # whether such operations may occur in source histories / follow-up patches here)
            r = H.run_history([["mkgrp", "a"], ["copy", "a", "a/b"]], root, timeout=3.0, reopen=False)
            selfcopy = not any(f["kind"] == "hang" for f in r["fails"])
            if not selfcopy:
                rec.notes.append("copy of a group into its own subtree hangs on this tree (reported by C01): such operations are left out of source histories and follow-up patches")
            col = Collector(rec, root, seed, keys, selfcopy)
            # ---- sources 1: curated scenarios (multi-container, deletions / replacements)
            scn = [(n, h) for n, h in H.SCENARIOS.items() if selfcopy or n not in H.SELFCOPY_SCENARIOS]
            sources = [h for _, h in scn]
            # ---- sources 2: BFS states of the same enumerator (unchecked exploration, only successful operations)
            bfs_share = 0.35 if quick else 0.3
            rb = H.bfs(pool, root, H.KEYS_AB, 0 if quick else 1, 4 if quick else 5, 3 if quick else 4, t0 + budget * bfs_share, check=False, selfcopy=selfcopy, seed=seed)
            if rb["crashes"]:
                rec.notes.append(f"source enumeration: {len(rb['crashes'])} harness task crashes, first: {rb['crashes'][0][-400:]}")
            cand = [h for h in rb["states"].values() if H.n_commits(h) >= 1 and h[-1][0] != "commit"]
            rnd = base.rng(seed, "c05-sources")
            rnd.shuffle(cand)
            cand.sort(key=_priority)
            with_del = sum(1 for h in cand if _priority(h) <= -3)
            sources += cand
            lv = "; ".join(f"len {x['len']}: {x['expanded_states']}/{x['of']} states" for x in rb["levels"])
            n_done = {"IH5Record": 0, "IH5MFRecord": 0}
            n_skipped = 0
            max_cont = 0
            tasks = []
            for i, h in enumerate(sources):
                for cls in ("IH5Record", "IH5MFRecord"):
                    t = col._task(cls, h, None, reopened=(i % 2 == 1))
                    t["deadline"] = t0 + budget
                    tasks.append(t)
            for t, res in zip(tasks, pool.imap(merge_case, tasks)):
                if res["skipped"]:
                    n_skipped += res["skipped"] != "deadline"
                    if res["skipped"] != "deadline" and len(rec.notes) < 6:
                        rec.notes.append(f"skipped source {res['history']}: {res['skipped']}")
                    if res["skipped"] == "deadline":
                        continue
                if res["evals"]:
                    n_done[res["cls"]] += 1
                    max_cont = max(max_cont, res["containers"])
                    rec.case((res["cls"], digest(res["history"]), t["reopened"]), nontrivial=res["containers"] >= 2, sample={"cls": res["cls"], "history": res["history"], "followup": res["followup"], "containers": res["containers"]} if n_done[res["cls"]] in (3, 40) else None)
                for n in res["notes"][:2]:
                    if len(rec.notes) < 10 and n not in rec.notes:
                        rec.notes.append(n)
                col.handle(res, t["reopened"])
            bound_parts.append(
                f"sources: {len(scn)} curated multi-container histories + states of the C01 enumerator (BFS keys ['a','b'], level {0 if quick else 1}, [{lv}]; {len(cand)} states with >= 1 patch, {with_del} of them with deletion/replacement after a patch boundary, ordered by that priority, seeded shuffle); "
                f"evaluated {n_done['IH5Record']} IH5Record + {n_done['IH5MFRecord']} IH5MFRecord cases of {len(sources)} candidate sources (<= {max_cont} containers, time budget), every other source merged from a reopened read-only object; "
                f"one follow-up patch of <= {N_FOLLOWUP} seeded operations per case; stub refusal (stub base alone, stub + patch) per IH5MFRecord case; {n_skipped} sources skipped (history not applicable)"
            )
            rec.notes.append(f"wall {time.time() - t0:.1f}s; workers {pool.n}; failed evaluations {col.n_fail}")
    finally:
        pool.close()
    return rec.result(
        rule="case = (record class, source history from the C01 enumerator, merged-from-creator|reopened); distinct by history digest; non-trivial = source has >= 2 containers; "
        "per case: refusal while uncommitted, merge, source frame (bytes, ih5_meta, view, files), merged tree / single container / identity, stub refusal (MF), chain continuation with a seeded follow-up patch",
        bound="; ".join(bound_parts),
        exhaustive=False,
        assumptions=[
            "source histories consist of operations that succeed on IH5 (others are skipped)",
            "the uncommitted (writable) container is excluded from the byte comparison of the refused merge (HDF5 may flush it at any time); all committed files and sidecars are compared",
            "operations exceeding the watchdog (10 s, merge 30 s) count as non-terminating",
        ],
        trusted=["h5py/HDF5", "rac/ih5lib.py dump_tree", "sha256 of file bytes as on-disk identity"],
    )


def replay(case: dict):
    with tmpdir() as root:
        r = H.run_history([["mkgrp", "a"], ["copy", "a", "a/b"]], root, timeout=3.0, reopen=False)
        selfcopy = not any(f["kind"] == "hang" for f in r["fails"])
        t = {"cls": case["cls"], "history": case["history"], "followup": case.get("followup"), "root": str(root), "seed": 0, "keys": H.KEYS_ALL, "selfcopy": selfcopy, "reopened": case.get("reopened", False), "stub": True}
        res = merge_case(t)
    want = case.get("kind")
    hit = [f for f in res["fails"] if want is None or f["kind"] == want] or res["fails"]
    if hit:
        return True, f"{hit[0]['kind']}: {hit[0]['what']}"
    if res["skipped"]:
        return False, f"case not applicable on this tree: {res['skipped']}"
    return False, f"{res['evals']} contract evaluations passed for {case['cls']} source history of {len(case['history'])} ops"
