"""C19 - directory hashsums identify directory content (bounded tier driver).

Real code: metador_core.util.hashsums.{hashsum, qualified_hashsum, file_hashsum, rel_symlink, dir_hashsums},
metador_core.ih5.record.hashsum_file, on real directories generated in a temporary directory.

Directory *models* (JSON-able) are nested dicts: dict = directory, "f:hex:<hex>" / "f:gen:<size>:<salt>" = regular file
with those bytes, "l:<target>" = symlink created with exactly that target string.

Oracles (independent of the code under test):
  * spec walker over os.scandir: regular file -> "sha256:" + hashlib digest of its bytes; symlink (whatever it
    points to) -> "symlink:" + target relative to the base directory, lexically normalised; directory -> dict
    (possibly empty).  A second, model-derived expectation must agree with the walker (driver self-check).
  * two directories have EQUAL trees  <=>  same names, same file bytes, same normalised in-directory symlink
    targets, same (possibly empty) sub-directories (the `canon` of the models); checked for all pairs of a small
    exhaustive family and for every single edit of generated directories.
  * creation order / timestamps / path spelling of the base do not matter.
  * hashsum == hashlib digest whatever the chunking of the stream; hashsum_file skips exactly skip_bytes.
  * a symlink leading outside the directory is rejected with ValueError.
Generated models never contain symlink chains, links through symlinked directories or links to the base
itself (there "the target" is ambiguous: lexical vs. resolved); those are only probed for notes.
"""
from __future__ import annotations

import rac.base as base  # noqa: F401
from rac.base import Recorder, digest, rng, tmpdir, watchdog

import copy
import hashlib
import io
import itertools
import os
import random
import shutil
import time
from pathlib import Path

from metador_core.util import hashsums as hs
from metador_core.ih5.record import hashsum_file

F_DH = "util/hashsums.py:dir_hashsums"
F_RS = "util/hashsums.py:rel_symlink"
F_HS = "util/hashsums.py:hashsum"
F_HF = "ih5/record.py:hashsum_file"

# ------------------------------------------------------------------ models


def F(size, salt="s"):
    return f"f:gen:{size}:{salt}"


def FX(b: bytes):
    return "f:hex:" + b.hex()


def L(t):
    return "l:" + t


def content(spec: str) -> bytes:
    _, kind, rest = spec.split(":", 2)
    if kind == "hex":
        return bytes.fromhex(rest)
    size, salt = rest.split(":", 1)
    return random.Random(f"c19:{salt}").randbytes(int(size))


def kind(v):
    return "d" if isinstance(v, dict) else "f" if v.startswith("f:") else "l"


def entries(model, prefix=()):
    for k, v in model.items():
        yield prefix + (k,), v
        if isinstance(v, dict):
            yield from entries(v, prefix + (k,))


def lookup(model, path):
    cur = model
    for seg in path:
        if not isinstance(cur, dict) or seg not in cur:
            return None
        cur = cur[seg]
    return cur


def link_target_path(link_path, target):
    """Lexical location (tuple of names below the base) of a relative link target; None if absolute or leaving the base."""
    if target.startswith("/"):
        return None
    parts = list(link_path[:-1])
    for seg in target.split("/"):
        if seg in ("", "."):
            continue
        if seg == "..":
            if not parts:
                return None
            parts.pop()
        else:
            parts.append(seg)
    return tuple(parts)


def model_ok(model) -> bool:
    """Only unambiguous in-directory links: no chains, nothing through a symlinked directory, not the base itself."""
    for path, v in entries(model):
        if kind(v) != "l":
            continue
        tp = link_target_path(path, v[2:])
        if not tp:
            return False
        for i in range(1, len(tp) + 1):
            e = lookup(model, tp[:i])
            if e is not None and kind(e) == "l":
                return False
            if e is not None and kind(e) == "f" and i < len(tp):
                return False
        # the raw target string must be traversable the way the kernel does it: ".." only out of existing real
        # directories, never through a symlink (otherwise lexical and resolved target disagree)
        cur = list(path[:-1])
        for seg in v[2:].split("/"):
            if seg in ("", "."):
                continue
            if seg == "..":
                if not cur or not isinstance(lookup(model, tuple(cur)), dict):
                    return False
                cur.pop()
            else:
                cur.append(seg)
                e = lookup(model, tuple(cur))
                if e is not None and kind(e) == "l":
                    return False
    return True


def model_tree(model, prefix=()):
    out = {}
    for k, v in model.items():
        if isinstance(v, dict):
            out[k] = model_tree(v, prefix + (k,))
        elif kind(v) == "f":
            out[k] = "sha256:" + hashlib.sha256(content(v)).hexdigest()
        else:
            out[k] = "symlink:" + "/".join(link_target_path(prefix + (k,), v[2:]))
    return out


def canon(model, prefix=()):
    """Content identity of a directory per the property statement."""
    out = {}
    for k, v in model.items():
        if isinstance(v, dict):
            out[k] = canon(v, prefix + (k,))
        elif kind(v) == "f":
            out[k] = ("file", content(v))
        else:
            out[k] = ("symlink", link_target_path(prefix + (k,), v[2:]))
    return out


def materialise(model, d: Path, R=None):
    """Create the directory; with R: creation order and timestamps are permuted."""
    d.mkdir(parents=True, exist_ok=True)
    items = list(entries(model))
    if R is not None:
        R.shuffle(items)
    for path, v in items:
        p = d.joinpath(*path)
        p.parent.mkdir(parents=True, exist_ok=True)
        if isinstance(v, dict):
            p.mkdir(exist_ok=True)
        elif kind(v) == "f":
            p.write_bytes(content(v))
        else:
            os.symlink(v[2:], p)
    if R is not None:
        R.shuffle(items)
        for path, v in items:
            t = R.randrange(0, 2_000_000_000)
            os.utime(d.joinpath(*path), (t, R.randrange(0, 2_000_000_000)), follow_symlinks=False)
        os.utime(d, (1, 2))
    return d


# ------------------------------------------------------------------ spec walker


class Outside(Exception):
    pass


def spec_tree(base_dir: str, d=None):
    d = d or base_dir
    out = {}
    with os.scandir(d) as it:
        for e in it:
            if e.is_symlink():
                tgt = os.readlink(e.path)
                # where the link LEADS: the directories on the way are followed physically ('x/..' through a directory link x is not a no-op),
                # the last component is taken by name (which in-directory entry the link names)
                joined = os.path.join(os.path.dirname(e.path), tgt).rstrip("/") or "/"
                if os.path.basename(joined) in ("..", ".", ""):
                    absolute = os.path.realpath(joined)
                else:
                    absolute = os.path.join(os.path.realpath(os.path.dirname(joined)), os.path.basename(joined))
                rel = os.path.relpath(absolute, base_dir)
                if rel == ".." or rel.startswith("../"):
                    raise Outside(e.path)
                out[e.name] = "symlink:" + rel
            elif e.is_dir(follow_symlinks=False):
                out[e.name] = spec_tree(base_dir, e.path)
            elif e.is_file(follow_symlinks=False):
                with open(e.path, "rb") as f:
                    out[e.name] = "sha256:" + hashlib.sha256(f.read()).hexdigest()
    return out


def first_diff(exp, got, prefix=()):
    if isinstance(exp, dict) and isinstance(got, dict):
        for k in sorted(set(exp) | set(got)):
            if k not in exp:
                return prefix + (k,), None, got[k]
            if k not in got:
                return prefix + (k,), exp[k], None
            r = first_diff(exp[k], got[k], prefix + (k,))
            if r:
                return r
        return None
    return None if exp == got else (prefix, exp, got)


def vkind(v, d=None, path=None):
    if v is None:
        return "absent"
    if isinstance(v, dict):
        return "directory"
    if v.startswith("symlink:"):
        if d is not None:
            p = os.path.join(d, *path)
            return "symlink-to-file" if os.path.isfile(p) else "symlink-to-dir" if os.path.isdir(p) else "symlink-dangling"
        return "symlink"
    return "file-hash"


def run_dh(d):
    with watchdog(20):
        return hs.dir_hashsums(Path(d))


def check_tree(rec, model, d, what="tree"):
    """dir_hashsums(d) == spec walker (== model-derived expectation). Returns the real tree or None."""
    case = {"kind": "tree", "model": model}
    exp = spec_tree(str(d))
    exp_m = model_tree(model)
    if exp != exp_m:  # driver self-check, not a finding about the code
        rec.notes.append(f"driver self-check failed (walker vs model) on {digest(model)}: {first_diff(exp_m, exp)}")
        return None
    try:
        got = run_dh(d)
    except Exception as e:  # noqa
        rec.violated(f"c19:tree:raises:{type(e).__name__}", f"dir_hashsums raised {type(e).__name__}: {e}", case, [F_DH])
        return None
    if got != exp:
        path, ev, gv = first_diff(exp, got)
        ek, gk = vkind(ev, str(d), path), vkind(gv)
        sig = f"c19:tree:{ek}-recorded-as-{gk}" if ek != gk else f"c19:tree:wrong-value-for-{ek}"
        rec.violated(sig, f"dir_hashsums differs from the spec walker at {'/'.join(path)}: expected {ev!r}, got {gv!r}", case, [F_DH])
    else:
        rec.check(True, "", "")
    return got


# ------------------------------------------------------------------ edits


def set_at(model, path, v):
    lookup(model, path[:-1])[path[-1]] = v


def del_at(model, path):
    del lookup(model, path[:-1])[path[-1]]


def has_links(v):
    return kind(v) == "l" if not isinstance(v, dict) else any(kind(x) == "l" for _, x in entries(v))


def relative_target(link_path, target_path):
    return os.path.relpath("/" + "/".join(target_path), "/" + "/".join(link_path[:-1]))


def single_edits(model):
    """All single edits of the model: list of (label, edited model)."""
    out = []

    def ed(label, fn):
        m = copy.deepcopy(model)
        try:
            fn(m)
        except Exception:  # noqa  (edit not applicable)
            return
        if model_ok(m):
            out.append((label, m))

    NEW = "zz_new"
    for path, v in list(entries(model)):
        parent = path[:-1]
        k = kind(v)
        if k == "f":
            data = content(v)
            if data:
                for pos, nm in ((0, "first"), (len(data) - 1, "last"), (64, "at-64"), (4095, "at-4095")):
                    if pos < len(data) and (nm in ("first", "last") or pos not in (0, len(data) - 1)):
                        nd = bytearray(data)
                        nd[pos] ^= 0x01
                        ed(f"flip-content-byte-{nm}", lambda m, nd=nd: set_at(m, path, FX(bytes(nd))))
                ed("truncate-last-byte", lambda m: set_at(m, path, FX(data[:-1])))
            ed("append-byte", lambda m: set_at(m, path, FX(data + b"\x00")))
            ed("remove-file", lambda m: del_at(m, path))
            ed("rename-file", lambda m: (del_at(m, path), set_at(m, parent + (NEW,), v)))
            ed("file->empty-dir", lambda m: set_at(m, path, {}))
            sib = [n for n, x in lookup(model, parent).items() if n != path[-1] and kind(x) == "f" and content(x) == data]
            if sib:
                ed("file->symlink-to-equal-content-sibling", lambda m: set_at(m, path, L(sib[0])))
            subdirs = [n for n, x in lookup(model, parent).items() if isinstance(x, dict) and path[-1] not in x]
            if subdirs:
                ed("move-file-into-subdir", lambda m: (del_at(m, path), set_at(m, parent + (subdirs[0], path[-1]), v)))
        elif k == "l":
            tp = link_target_path(path, v[2:])
            te = lookup(model, tp)
            ed("remove-symlink", lambda m: del_at(m, path))
            ed("rename-symlink", lambda m: (del_at(m, path), set_at(m, parent + (NEW,), v)))
            ed("symlink->empty-file", lambda m: set_at(m, path, FX(b"")))
            ed("symlink-retarget-dangling", lambda m: set_at(m, path, L(relative_target(path, parent + ("nope2",)))))
            others = [q for q, x in entries(model) if q != tp and q != path and kind(x) != "l" and q[: len(path)] != path]
            for q in others[:2]:
                ed("symlink-retarget", lambda m, q=q: set_at(m, path, L(relative_target(path, q))))
            if te is not None and kind(te) == "f":
                ed("symlink-to-file->regular-file-same-content", lambda m: set_at(m, path, te))
            if isinstance(te, dict) and not has_links(te):
                ed("symlink-to-dir->real-dir-copy", lambda m: set_at(m, path, copy.deepcopy(te)))
            ed("symlink-respell-same-target", lambda m: set_at(m, path, L("./" + v[2:])))
        else:
            ed("remove-dir", lambda m: del_at(m, path))
            ed("rename-dir", lambda m: (del_at(m, path), set_at(m, parent + (NEW,), v)))
            ed("dir->file", lambda m: set_at(m, path, FX(b"d")))
            if not v:
                ed("empty-dir->empty-file", lambda m: set_at(m, path, FX(b"")))
            if NEW not in v:
                ed("add-file-in-dir", lambda m: set_at(m, path + (NEW,), FX(b"n")))
                ed("add-empty-file-in-dir", lambda m: set_at(m, path + (NEW,), FX(b"")))
                ed("add-empty-dir-in-dir", lambda m: set_at(m, path + (NEW,), {}))
    if NEW not in model:
        ed("add-file", lambda m: m.__setitem__(NEW, FX(b"n")))
        ed("add-empty-file", lambda m: m.__setitem__(NEW, FX(b"")))
        ed("add-empty-dir", lambda m: m.__setitem__(NEW, {}))
        firstfile = [q for q, x in entries(model) if kind(x) == "f"]
        if firstfile:
            ed("add-symlink", lambda m: m.__setitem__(NEW, L("/".join(firstfile[0]))))
    return out


def canon_diff_kind(ca, cb):
    """Kinds of the first differing entry of two canons (for signatures)."""
    def k(v):
        return "absent" if v is None else "directory" if isinstance(v, dict) else v[0]
    if isinstance(ca, dict) and isinstance(cb, dict):
        for key in sorted(set(ca) | set(cb)):
            a, b = ca.get(key), cb.get(key)
            if a != b:
                if isinstance(a, dict) and isinstance(b, dict):
                    return canon_diff_kind(a, b)
                ka, kb = sorted([k(a), k(b)])
                return f"{ka}-vs-{kb}"
    return "same"


# ------------------------------------------------------------------ model families

SIZES = [0, 1, 63, 64, 65, 4095, 4096, 4097]


def rich_model():
    m = {f"s{n}": F(n, f"size{n}") for n in SIZES}
    m.update({
        "same_a": FX(b"equal content"), "same_b": FX(b"equal content"), "same_l": L("same_a"),
        "emptydir": {}, ".hidden": FX(b"h"), "sp ace": FX(b"s"), "ünï": FX(b"u"),
        "sub": {
            "x": F(100, "subx"), "deep": {"deeper": {"y": F(64, "y"), "up": L("../../x"), "top": L("../../../s1")}, "empty": {}},
            "ldir": L("deep"), "lup": L("../s1"), "ldot": L("./x"), "lrt": L("deep/../x"), ".hd": {"f": FX(b"")},
        },
        "ltodir": L("sub"), "ltoempty": L("emptydir"), "dangling": L("nope"), "lnested": L("sub/deep/deeper/y"), "ldangling-nested": L("sub/nope/nope"),
    })
    assert model_ok(m)
    return m


def small_family():
    subs = [{}, {"a": FX(b"x")}, {"a": FX(b"y")}, {"a": L("../b")}, {"b": FX(b"x")}, {"a": FX(b"x"), "b": FX(b"x")}]

    def opts(other):
        return [None, FX(b""), FX(b"x"), L(other)] + subs

    fam = []
    for va in opts("b"):
        for vb in opts("a"):
            m = {}
            if va is not None:
                m["a"] = copy.deepcopy(va)
            if vb is not None:
                m["b"] = copy.deepcopy(vb)
            if model_ok(m):
                fam.append(m)
    return fam


RN = ["a", "b", "c", "dd", "e.f", "g h"]


def rand_model(R, depth=3):
    def gen(dep):
        m = {}
        for n in R.sample(RN, R.randint(0, 4)):
            x = R.random()
            if dep > 0 and x < 0.35:
                m[n] = gen(dep - 1)
            else:
                m[n] = F(R.choice(SIZES + [2, 3, 100]), str(R.randrange(3)))
        return m

    m = gen(depth)
    # add some links to existing non-link entries / dangling
    ents = [q for q, _ in entries(m)]
    for _ in range(R.randint(0, 4)):
        dirs = [()] + [q for q, v in entries(m) if isinstance(v, dict)]
        dpath = R.choice(dirs)
        name = "l" + str(R.randrange(100))
        tgt = R.choice(ents) if ents and R.random() < 0.85 else dpath + ("nope",)
        if tgt[: len(dpath) + 1] == dpath + (name,):
            continue
        m2 = copy.deepcopy(m)
        lookup(m2, dpath)[name] = L(relative_target(dpath + (name,), tgt))
        if model_ok(m2):
            m = m2
    return m


# ------------------------------------------------------------------ stream checks


class ChunkyStream:
    """Binary stream whose read(n) returns between 1 and n bytes following a schedule (short reads)."""

    def __init__(self, data: bytes, schedule):
        self.data, self.pos, self.schedule, self.i = data, 0, schedule, 0

    def read(self, n=-1):
        if n is None or n < 0:
            n = len(self.data) - self.pos
        s = self.schedule[self.i % len(self.schedule)]
        self.i += 1
        k = max(1, min(n, s)) if n > 0 else 0
        chunk = self.data[self.pos:self.pos + k]
        self.pos += len(chunk)
        return chunk


def part_streams(rec, tier, seed, td: Path):
    sizes = [0, 1, 63, 64, 65, 127, 128, 129, 4095, 4096, 4097, 65537] + ([1 << 20] if tier == "thorough" else [])
    R = rng(seed, "c19-streams")
    n = 0
    for size in sizes:
        data = R.randbytes(size)
        fpath = td / f"blob{size}"
        fpath.write_bytes(data)
        for alg in ("sha256", "sha512"):
            exp = hashlib.new(alg, data).hexdigest()
            streams = {
                "bytes": lambda: data,
                "bytesio": lambda: io.BytesIO(data),
                "file-buffered": lambda: open(fpath, "rb"),
                "file-unbuffered": lambda: open(fpath, "rb", buffering=0),
                "short-reads-1": lambda: ChunkyStream(data, [1]),
                "short-reads-mixed": lambda: ChunkyStream(data, [7, 64, 1, 63, 65, 4096]),
                "short-reads-random": lambda: ChunkyStream(data, [R.randint(1, 200) for _ in range(50)]),
            }
            for sname, mk in streams.items():
                if size > 70000 and sname == "short-reads-1":
                    continue
                case = {"kind": "hashsum", "size": size, "alg": alg, "stream": sname, "seed": seed}
                s = mk()
                try:
                    with watchdog(30):
                        got = hs.hashsum(s, alg)
                    rec.check(got == exp, f"c19:hashsum:{sname}:wrong-digest", f"hashsum({sname}, {alg}) of {size} bytes = {got}, hashlib says {exp}", case, [F_HS])
                except Exception as e:  # noqa
                    rec.violated(f"c19:hashsum:{sname}:raises:{type(e).__name__}", f"hashsum raised {type(e).__name__}: {e}", case, [F_HS])
                finally:
                    if hasattr(s, "close"):
                        s.close()
                rec.case(("hashsum", size, alg, sname))
                n += 1
            q = hs.qualified_hashsum(data, alg)
            rec.check(q == f"{alg}:{exp}", "c19:qualified_hashsum:format", f"qualified_hashsum = {q!r}, expected {alg}:{exp}", {"kind": "hashsum", "size": size, "alg": alg, "stream": "bytes", "seed": seed}, ["util/hashsums.py:qualified_hashsum"])
            rec.check(hs.file_hashsum(fpath, alg) == f"{alg}:{exp}", "c19:file_hashsum", "file_hashsum != alg:hashlib digest", {"kind": "hashsum", "size": size, "alg": alg, "stream": "file-buffered", "seed": seed}, ["util/hashsums.py:file_hashsum"])
        rec.check(hs.file_hashsum(fpath) == "sha256:" + hashlib.sha256(data).hexdigest(), "c19:file_hashsum:default-alg", "file_hashsum default is not sha256:<hashlib digest>", {"kind": "hashsum", "size": size, "alg": "sha256", "stream": "file-buffered", "seed": seed}, ["util/hashsums.py:file_hashsum"])
        # stream positioned in the middle: digest of the remaining bytes
        if size:
            b = io.BytesIO(data)
            b.seek(size // 2)
            rec.check(hs.hashsum(b, "sha256") == hashlib.sha256(data[size // 2:]).hexdigest(), "c19:hashsum:from-current-position", "hashsum of a positioned stream is not the digest of the remaining bytes", {"kind": "hashsum", "size": size, "alg": "sha256", "stream": "bytesio", "seed": seed}, [F_HS])
        for skip in sorted({0, 1, 63, 64, 65, 512, 1024, max(size - 1, 0), size, size + 1}):
            case = {"kind": "hashsum_file", "size": size, "skip": skip, "seed": seed}
            try:
                got = hashsum_file(fpath, skip)
                rec.check(got == "sha256:" + hashlib.sha256(data[skip:]).hexdigest(), "c19:hashsum_file:wrong-digest", f"hashsum_file(size {size}, skip {skip}) = {got}", case, [F_HF])
            except Exception as e:  # noqa
                rec.violated(f"c19:hashsum_file:raises:{type(e).__name__}", f"hashsum_file raised {type(e).__name__}: {e}", case, [F_HF])
            rec.case(("hashsum_file", size, skip))
            n += 1
    try:
        hs.hashsum(b"x", "md5")
        rec.violated("c19:hashsum:unsupported-alg-accepted", "hashsum(..., 'md5') accepted", {"kind": "hashsum", "size": 1, "alg": "md5", "stream": "bytes", "seed": seed}, [F_HS])
    except ValueError:
        rec.check(True, "", "")
    return f"streams: {n} hashsum / hashsum_file evaluations over sizes {sizes}, 2 algorithms, 7 stream behaviours, skips around block borders"


# ------------------------------------------------------------------ outside links

OUTSIDE_VARIANTS = ["abs-file", "abs-dir", "abs-etc-hostname", "abs-tmp", "rel-file", "rel-dir", "rel-dangling", "abs-dangling", "parent-dir",
                    "prefix-sibling", "down-then-up", "nested-rel-file", "nested-abs-file", "nested-abs-dir", "up-through-a-directory-link"]


def outside_setup(variant, td: Path):
    """Returns (base dir, description)."""
    root = td / f"o_{variant}"
    bd = root / "base"
    (bd / "sub" / "inner").mkdir(parents=True)
    (bd / "keep").write_bytes(b"inside")
    (bd / "sub" / "f").write_bytes(b"inside2")
    (root / "outside_file").write_bytes(b"secret")
    (root / "outside_dir").mkdir()
    (root / "outside_dir" / "g").write_bytes(b"g")
    (root / "base2").mkdir()
    (root / "base2" / "f").write_bytes(b"inside")
    t = {
        "abs-file": ("lnk", str(root / "outside_file")), "abs-dir": ("lnk", str(root / "outside_dir")),
        "abs-etc-hostname": ("lnk", "/etc/hostname"), "abs-tmp": ("lnk", "/tmp"),
        "rel-file": ("lnk", "../outside_file"), "rel-dir": ("lnk", "../outside_dir"), "rel-dangling": ("lnk", "../nonexistent_c19"),
        "abs-dangling": ("lnk", "/nonexistent_c19_xyz/q"), "parent-dir": ("lnk", ".."), "prefix-sibling": ("lnk", "../base2/f"),
        "down-then-up": ("lnk", "sub/../../outside_file"), "nested-rel-file": ("sub/inner/lnk", "../../../outside_file"),
        "nested-abs-file": ("sub/inner/lnk", str(root / "outside_file")), "nested-abs-dir": ("sub/lnk", str(root / "outside_dir")),
        "up-through-a-directory-link": ("sub/inner/lnk", "top/../outside_file"),  # top -> ../.. is the directory: top/.. is its PARENT
    }[variant]
    if variant == "up-through-a-directory-link":
        os.symlink("../..", bd / "sub" / "inner" / "top")  # an in-directory link to the directory itself
    os.symlink(t[1], bd / t[0])
    return bd, f"{t[0]} -> {t[1]}"


def check_outside(rec, variant, td: Path):
    case = {"kind": "outside", "variant": variant}
    if variant == "abs-etc-hostname" and not os.path.isfile("/etc/hostname"):
        return False
    bd, desc = outside_setup(variant, td)
    try:
        spec_tree(str(bd))
        rec.notes.append(f"driver self-check: walker does not see {variant} as outside")
        return False
    except Outside:
        pass
    try:
        got = run_dh(bd)
        tk = "dangling" if "dangling" in variant else "directory" if ("dir" in variant or variant == "abs-tmp") else "file"
        rec.violated(f"c19:outside:link-to-outside-{tk}:accepted", f"[{variant}] symlink {desc} leads outside the directory but dir_hashsums returned {got!r}", case, [F_DH, F_RS])
    except ValueError:
        rec.check(True, "", "")
    except Exception as e:  # noqa
        rec.violated(f"c19:outside:wrong-exception:{type(e).__name__}", f"[{variant}] symlink {desc}: {type(e).__name__}: {e} instead of ValueError", case, [F_DH, F_RS])
    return True


# ------------------------------------------------------------------ main parts


def check_edit(rec, model, label, edited, tree_a, d_b):
    case = {"kind": "edit", "label": label, "model": model, "edited": edited}
    tree_b = check_tree(rec, edited, d_b)
    if tree_a is None or tree_b is None:
        return
    same_content = canon(model) == canon(edited)
    if same_content:
        rec.check(tree_a == tree_b, f"c19:edit:{label}:trees-differ-for-equal-content", f"edit {label} keeps the content but the trees differ: {first_diff(tree_a, tree_b)}", case, [F_DH])
    else:
        rec.check(tree_a != tree_b, f"c19:edit:{label}:trees-equal-for-different-content", f"edit {label} changes the content ({canon_diff_kind(canon(model), canon(edited))}) but the hashsum trees are equal", case, [F_DH])


def run(tier: str, seed: int) -> dict:
    rec = Recorder("C19", "c19", max_violations=40)
    t0 = time.time()
    quick = tier == "quick"
    total = 45 if quick else 480
    bounds = []
    complete = True
    with tmpdir() as td0:
        td = Path(os.path.realpath(td0))
        R = rng(seed, "c19-order")
        counter = itertools.count()

        def fresh():
            return td / f"d{next(counter)}"

        # (1) small exhaustive family: spec equality, order/timestamp independence, all pairs
        fam = small_family()
        trees = []
        for m in fam:
            d1 = materialise(m, fresh())
            t1 = check_tree(rec, m, d1)
            d2 = materialise(m, fresh(), R)
            try:
                t2 = run_dh(d2)
                if t1 is not None:
                    rec.check(t1 == t2, "c19:order-timestamps:trees-differ", f"same content, other creation order/timestamps: trees differ at {first_diff(t1, t2)}", {"kind": "tree", "model": m, "permute": True}, [F_DH])
            except Exception as e:  # noqa
                rec.violated(f"c19:tree:raises:{type(e).__name__}", f"dir_hashsums raised {type(e).__name__}: {e}", {"kind": "tree", "model": m}, [F_DH])
            trees.append(t1)
            rec.case(("tree", digest(m)), nontrivial=bool(m), sample={"model": m} if len(trees) == 30 else None)
        cans = [canon(m) for m in fam]
        npairs = 0
        for i, j in itertools.product(range(len(fam)), repeat=2):
            if trees[i] is None or trees[j] is None:
                continue
            same = cans[i] == cans[j]
            eq = trees[i] == trees[j]
            if eq != same:
                sig = f"c19:pairs:equal-trees-for-different-content:{canon_diff_kind(cans[i], cans[j])}" if eq else "c19:pairs:different-trees-for-equal-content"
                rec.violated(sig, f"models {fam[i]} and {fam[j]}: same content={same}, equal trees={eq}", {"kind": "pair", "a": fam[i], "b": fam[j]}, [F_DH])
            else:
                rec.check(True, "", "")
            rec.case(("pair", i, j), nontrivial=i != j)
            npairs += 1
        bounds.append(f"family: {len(fam)} directories (names {{a,b}}, depth <= 2, files/symlinks/empty+nested dirs) each built twice (permuted order + timestamps), all {npairs} ordered pairs")

        # (2) single edits
        # small family members first (minimal reproducers), then the rich boundary-size tree, then random trees
        bases = [(f"fam{i}", m) for i, m in enumerate(fam) if i % (3 if quick else 1) == 0] + [("rich", rich_model())]
        Rm = rng(seed, "c19-models")
        n_rand_models = 25 if quick else 200
        bases += [(f"rand{i}", rand_model(Rm)) for i in range(n_rand_models)]
        n_edits, labels, stopped = 0, set(), False
        for bname, m in bases:
            if time.time() > t0 + total * 0.8:
                stopped = True
                break
            da = materialise(m, fresh(), R)
            ta = check_tree(rec, m, da)
            if bname == "rich" or bname.startswith("rand"):
                # same content, different creation order / timestamps / spelling of the base path
                for rep in range(3):
                    dx = materialise(m, fresh(), R)
                    tx = run_dh(dx)
                    rec.check(ta is None or tx == ta, "c19:order-timestamps:trees-differ", f"same content, other creation order/timestamps: trees differ at {first_diff(ta, tx) if ta else None}", {"kind": "tree", "model": m, "permute": True}, [F_DH])
                (td / "other").mkdir(exist_ok=True)
                lnk = td / f"lnk_{next(counter)}"
                os.symlink(da, lnk)
                for spelled, nm in ((td / "other" / ".." / da.name, "dotdot"), (lnk, "via-symlinked-path"), (Path(str(da) + "/"), "trailing-slash")):
                    try:
                        tx = run_dh(spelled)
                        rec.check(ta is None or tx == ta, f"c19:base-spelling:{nm}:trees-differ", f"same directory addressed as {nm}: trees differ at {first_diff(ta, tx) if ta else None}", {"kind": "tree", "model": m, "spelling": nm}, [F_DH])
                    except Exception as e:  # noqa
                        rec.violated(f"c19:base-spelling:{nm}:raises:{type(e).__name__}", f"dir_hashsums({nm}) raised {type(e).__name__}: {e}", {"kind": "tree", "model": m, "spelling": nm}, [F_DH, F_RS])
            rec.case(("tree", digest(m)), sample={"model": m} if bname == "rand0" else None)
            for label, em in single_edits(m):
                db = materialise(em, fresh(), R if n_edits % 2 else None)
                check_edit(rec, m, label, em, ta, db)
                shutil.rmtree(db, ignore_errors=True)
                rec.case(("edit", digest(m), label, digest(em)), nontrivial=True)
                labels.add(label)
                n_edits += 1
        complete = complete and not stopped
        bounds.append(f"edits: {n_edits} single edits ({len(labels)} kinds) of {len(bases)} base directories (rich boundary-size tree, {'every 3rd' if quick else 'every'} family member, {n_rand_models} seeded random trees){' - budget stop' if stopped else ''}")

        # (2b) in-place content edit of the SAME directory with size and timestamps kept identical (same process, same paths):
        #      "equal trees exactly when same contents ... independent of timestamps"
        import hashlib as _hl

        dsame = materialise(rich_model(), fresh(), R)
        t_before = run_dh(dsame)
        n_inplace = 0
        for fp in sorted(p_ for p_ in dsame.rglob("*") if p_.is_file() and not p_.is_symlink() and p_.stat().st_size > 0)[: (6 if quick else 40)]:
            st = fp.stat()
            data = bytearray(fp.read_bytes())
            data[len(data) // 2] ^= 0x01
            with open(fp, "r+b") as fh:
                fh.write(bytes(data))
            os.utime(fp, ns=(st.st_atime_ns, st.st_mtime_ns))
            t_after = run_dh(dsame)
            rel = fp.relative_to(dsame).parts
            node = t_after
            for seg in rel:
                node = node.get(seg) if isinstance(node, dict) else None
            ok = t_after != t_before and node == "sha256:" + _hl.sha256(bytes(data)).hexdigest()
            rec.check(ok, "c19:edit:in-place-same-size-same-mtime:stale-hash", f"{'/'.join(rel)}: one content byte changed in place (size and mtime preserved): tree {'unchanged' if t_after == t_before else 'changed'}, entry {node}", {"kind": "inplace", "file": "/".join(rel)}, [F_DH, "util/hashsums.py:file_hashsum"])
            rec.case(("inplace", "/".join(rel)), nontrivial=True)
            t_before = t_after
            n_inplace += 1
        bounds.append(f"in-place: {n_inplace} same-size same-mtime content edits of one directory re-hashed in the same process")

        # (3) outside links
        no = 0
        for variant in OUTSIDE_VARIANTS:
            try:
                no += bool(check_outside(rec, variant, td))
            except Exception as e:  # noqa
                rec.notes.append(f"outside variant {variant}: driver error {type(e).__name__}: {e}")
            rec.case(("outside", variant))
        bounds.append(f"outside: {no} kinds of symlinks leaving the directory")

        # in-directory absolute link and notes about ambiguous shapes (not checked)
        bd = td / "absin"
        (bd / "sub").mkdir(parents=True)
        (bd / "sub" / "x").write_bytes(b"x")
        os.symlink(str(bd / "sub" / "x"), bd / "labs")
        os.symlink(str(bd / "sub"), bd / "sub" / "labsdir")
        try:
            got = run_dh(bd)
            exp = spec_tree(str(bd))
            rec.check(got == exp, "c19:tree:absolute-in-directory-link", f"absolute in-directory links: expected {exp}, got {got}", {"kind": "absin"}, [F_DH, F_RS])
        except Exception as e:  # noqa
            rec.violated(f"c19:tree:absolute-in-directory-link:raises:{type(e).__name__}", f"{type(e).__name__}: {e}", {"kind": "absin"}, [F_DH, F_RS])
        rec.case(("absin",))
        try:
            ch = td / "chain"
            ch.mkdir()
            (ch / "f").write_bytes(b"f")
            os.symlink("f", ch / "l2")
            os.symlink("l2", ch / "l1")
            rec.notes.append(f"observation (not checked, target of a link chain is ambiguous): l1->l2->f gives {hs.dir_hashsums(ch)}")
        except Exception as e:  # noqa
            rec.notes.append(f"observation: link chain raises {type(e).__name__}: {e}")
        try:
            lp = td / "loop"
            lp.mkdir()
            os.symlink("l2", lp / "l1")
            os.symlink("l1", lp / "l2")
            rec.notes.append(f"observation (not checked): in-directory symlink loop gives {hs.dir_hashsums(lp)}")
        except Exception as e:  # noqa
            rec.notes.append(f"observation (not checked): in-directory symlink loop raises {type(e).__name__}")

        # (4) streams
        bounds.append(part_streams(rec, tier, seed, td))

    return rec.result(
        rule="a case is one generated directory (distinct by model), one ordered pair of family directories, one (directory, single edit), one outside-link shape, "
             "or one (size, algorithm, stream behaviour / skip); non-trivial = non-empty directory, i != j, every edit",
        bound=" | ".join(bounds),
        exhaustive=complete,
        assumptions=["generated links are unambiguous (no chains, not through symlinked directories, not to the base itself)", "only regular files, directories and symlinks (no devices/fifos)"],
        trusted=["hashlib digests; sha256 collision freedom on the generated contents", "os.scandir/os.readlink/os.path.normpath for the spec walker"],
    )


def replay(case: dict):
    rec = Recorder("C19", "c19", max_violations=50)
    k = case.get("kind")
    with tmpdir() as td0:
        td = Path(os.path.realpath(td0))
        if k == "tree":
            R = rng(0, "replay") if case.get("permute") else None
            d = materialise(case["model"], td / "a", R)
            t = check_tree(rec, case["model"], d)
            if case.get("permute"):
                d2 = materialise(case["model"], td / "b")
                rec.check(run_dh(d2) == t, "c19:order-timestamps:trees-differ", "trees differ for permuted creation")
            if case.get("spelling"):
                os.symlink(d, td / "lnk")
                (td / "other").mkdir()
                sp = {"dotdot": td / "other" / ".." / "a", "via-symlinked-path": td / "lnk", "trailing-slash": Path(str(d) + "/")}[case["spelling"]]
                try:
                    rec.check(run_dh(sp) == t, "c19:base-spelling", "trees differ for another spelling of the base path")
                except Exception as e:  # noqa
                    rec.violated("c19:base-spelling:raises", f"{type(e).__name__}: {e}")
        elif k == "edit":
            da = materialise(case["model"], td / "a")
            ta = check_tree(rec, case["model"], da)
            db = materialise(case["edited"], td / "b")
            check_edit(rec, case["model"], case["label"], case["edited"], ta, db)
        elif k == "pair":
            ta = run_dh(materialise(case["a"], td / "a"))
            tb = run_dh(materialise(case["b"], td / "b"))
            same = canon(case["a"]) == canon(case["b"])
            rec.check((ta == tb) == same, "c19:pairs", f"same content={same}, equal trees={ta == tb}")
        elif k == "inplace":
            import hashlib as _hl

            dsame = materialise(rich_model(), td / "a")
            t_before = run_dh(dsame)
            fp = dsame.joinpath(*case["file"].split("/"))
            st = fp.stat()
            data = bytearray(fp.read_bytes())
            data[len(data) // 2] ^= 0x01
            with open(fp, "r+b") as fh:
                fh.write(bytes(data))
            os.utime(fp, ns=(st.st_atime_ns, st.st_mtime_ns))
            t_after = run_dh(dsame)
            node = t_after
            for seg in case["file"].split("/"):
                node = node.get(seg) if isinstance(node, dict) else None
            rec.check(t_after != t_before and node == "sha256:" + _hl.sha256(bytes(data)).hexdigest(), "c19:edit:in-place-same-size-same-mtime:stale-hash", f"entry {node} after an in-place edit with preserved size and mtime")
        elif k == "outside":
            check_outside(rec, case["variant"], td)
        elif k == "absin":
            bd = td / "absin"
            (bd / "sub").mkdir(parents=True)
            (bd / "sub" / "x").write_bytes(b"x")
            os.symlink(str(bd / "sub" / "x"), bd / "labs")
            try:
                rec.check(run_dh(bd) == spec_tree(str(bd)), "c19:tree:absolute-in-directory-link", "absolute in-directory link")
            except Exception as e:  # noqa
                rec.violated("c19:absin:raises", f"{type(e).__name__}: {e}")
        elif k == "hashsum":
            data = rng(case.get("seed", 0), "replay-stream").randbytes(case["size"])
            sname, alg = case["stream"], case["alg"]
            f = td / "blob"
            f.write_bytes(data)
            s = {"bytes": lambda: data, "bytesio": lambda: io.BytesIO(data), "file-buffered": lambda: open(f, "rb"), "file-unbuffered": lambda: open(f, "rb", buffering=0),
                 "short-reads-1": lambda: ChunkyStream(data, [1]), "short-reads-mixed": lambda: ChunkyStream(data, [7, 64, 1, 63, 65, 4096]),
                 "short-reads-random": lambda: ChunkyStream(data, [3, 199, 20, 1, 77])}[sname]()
            try:
                got = hs.hashsum(s, alg)
                rec.check(got == hashlib.new(alg, data).hexdigest(), "c19:hashsum", f"hashsum {got}")
            except ValueError as e:
                rec.check(alg not in ("sha256", "sha512"), "c19:hashsum:raises", f"ValueError {e}")
        elif k == "hashsum_file":
            data = rng(case.get("seed", 0), "replay-stream").randbytes(case["size"])
            f = td / "blob"
            f.write_bytes(data)
            rec.check(hashsum_file(f, case["skip"]) == "sha256:" + hashlib.sha256(data[case["skip"]:]).hexdigest(), "c19:hashsum_file", "wrong digest")
        else:
            return False, f"unknown case {case!r}"
    if rec.violations:
        return True, "; ".join(f"{v['signature']}: {v['what']}" for v in rec.violations[:3])
    return False, f"{rec.evaluations} contract evaluations hold"
