"""C16 - plugin references order, match and resolve by semantic version (bounded tier driver).

Parts (each has its own oracle, written from the property statement, not from the code):
  order     exhaustive pairs / triples of PluginRef over groups {g,h} x names {aa,aa.bb} x versions {0..2}^3:
            <,<=,>,>= return exactly the Python bool of the comparison of the keys (group, name, version),
            ==/!=/hash/set membership consistent, trichotomy, transitivity, sorted()/min/max, supports().
  group     a *fresh synthetic* PluginGroup subclass instance (global groups untouched); all subsets (<= 4 or 5)
            of a version pool in all registration orders, optionally interleaved with a second plugin name, through
            the constructor, `_add_ep`, `register_in_group(violently=True)` and a mix of the last two:
            versions(name) / versions(name, v) / resolve(name[, v]) / `in` / keys() / get() against the set model.
  epname    to_ep_name / from_ep_name round trips for every string over a small alphabet classified by an
            independent hand-written recogniser of QUAL_NAME, seeded long names, small and huge versions; invalid
            names are rejected with TypeError; `_add_ep` rejects invalid / un-namespaced names with ValueError.
  subclass  a class obtained without a version (group.get(name), group[name]) cannot be used as a base
            (TypeError at class creation), alone or next to other bases; the one obtained with a version can.
            On the installed `schemas` group and on the synthetic group with several versions.
"""
from __future__ import annotations

import rac.base as base  # noqa: F401  (numpy shim first)
from rac.base import Recorder, digest, rng, watchdog, budget_left

import itertools
import operator
import sys
import time
import types

from importlib_metadata import EntryPoint

from metador_core.plugin import types as ptypes
from metador_core.plugin import util as putil
from metador_core.plugin.interface import PluginGroup
from metador_core.plugin.metaclass import PluginMetaclassMixin, UndefVersion
from metador_core.schema.plugins import PluginRef

F_REF = "schema/plugins.py:PluginRef"
F_ADD = "plugin/interface.py:PluginGroup._add_ep"
F_REG = "plugin/util.py:register_in_group"
F_VER = "plugin/interface.py:PluginGroup.versions"
F_RES = "plugin/interface.py:PluginGroup.resolve"
F_GET = "plugin/interface.py:PluginGroup.get"
F_EPN = "plugin/types.py:to_ep_name/from_ep_name"
F_META = "plugin/metaclass.py:PluginMetaclassMixin.__new__"

# ---------------------------------------------------------------------------------------------
# part: order


def key(t):
    return (t[0], t[1], tuple(t[2]))


_SUBCLS = {}


def mkref(t, sub=False):
    """Build the reference for triple t=(group, name, version); sub: through the per-group subclass."""
    if sub:
        if t[0] not in _SUBCLS:
            _SUBCLS[t[0]] = PluginRef._subclass_for(t[0])
        return _SUBCLS[t[0]](name=t[1], version=tuple(t[2]))
    return PluginRef(group=t[0], name=t[1], version=tuple(t[2]))


def ref_universe(vals):
    return [(g, n, v) for g in ("g", "h") for n in ("aa", "aa.bb") for v in itertools.product(vals, repeat=3)]


OPS = {"lt": operator.lt, "le": operator.le, "gt": operator.gt, "ge": operator.ge}


def relation(ka, kb):
    if ka == kb:
        return "equal-keys"
    d = "group" if ka[0] != kb[0] else "name" if ka[1] != kb[1] else "version"
    return f"differ-by-{d}-{'lt' if ka < kb else 'gt'}"


def spec_supports(ka, kb):
    return ka[0] == kb[0] and ka[1] == kb[1] and ka[2][0] == kb[2][0] and ka[2][1] >= kb[2][1]


def _call(f, *a):
    try:
        return ("ok", f(*a))
    except Exception as e:  # noqa
        return ("exc", f"{type(e).__name__}: {e}")


def _kind(r, exp):
    if r[0] == "exc":
        return "raises"
    v = r[1]
    if v is None:
        return "returns-None"
    if not isinstance(v, bool):
        return "returns-nonbool"
    return "wrong-bool" if v is not exp else "ok"


def check_pair(rec, ta, tb, sub=(False, False)):
    ka, kb = key(ta), key(tb)
    a, b = mkref(ta, sub[0]), mkref(tb, sub[1])  # two distinct objects also for equal keys
    case = {"part": "order", "a": list(ta), "b": list(tb), "sub": list(sub)}
    rel = relation(ka, kb)
    cls = ""  # same signatures whether or not the per-group subclass is involved (same defect)
    for name, f in OPS.items():
        r = _call(f, a, b)
        exp = f(ka, kb)
        rec.check(r[0] == "ok" and r[1] is exp, f"c16:order:{name}:{rel}:{_kind(r, exp)}{cls}",
                  f"PluginRef {ka} {name} {kb}: expected {exp!r} (bool of key comparison), got {r[1]!r}", case, [F_REF + ".__ge__"])
    r = _call(operator.eq, a, b)
    rec.check(r[0] == "ok" and r[1] is (ka == kb), f"c16:order:eq:{rel}:{_kind(r, ka == kb)}{cls}",
              f"PluginRef {ka} == {kb}: expected {ka == kb}, got {r[1]!r}", case, [F_REF + ".__eq__"])
    r = _call(operator.ne, a, b)
    rec.check(r[0] == "ok" and r[1] is (ka != kb), f"c16:order:ne:{rel}:{_kind(r, ka != kb)}{cls}",
              f"PluginRef {ka} != {kb}: expected {ka != kb}, got {r[1]!r}", case, [F_REF + ".__eq__"])
    if ka == kb:
        r = _call(lambda: hash(a) == hash(b))
        rec.check(r == ("ok", True), f"c16:order:hash:{rel}{cls}", f"equal refs {ka} have different hashes ({r[1]!r})", case, [F_REF + ".__hash__"])
    r = _call(lambda: b in {a})
    rec.check(r[0] == "ok" and r[1] is (ka == kb), f"c16:order:set-membership:{rel}{cls}",
              f"{kb} in {{{ka}}}: expected {ka == kb}, got {r[1]!r}", case, [F_REF + ".__hash__", F_REF + ".__eq__"])
    r = _call(lambda: [bool(a < b), bool(a == b), bool(a > b)])
    rec.check(r[0] == "ok" and sum(r[1]) == 1, f"c16:order:trichotomy:{rel}{cls}",
              f"exactly one of a<b, a==b, a>b must hold for {ka}, {kb}; got {r[1]!r}", case, [F_REF + ".__ge__"])
    if not sub[0] and not sub[1]:
        # a reference derived from another one that was already hashed (pydantic copy(update=...)) is the same value as a fresh one
        def derived():
            src = mkref(tb)
            hash(src)
            d = src.copy(update={"group": ta[0], "name": ta[1], "version": tuple(ta[2])})
            return [bool(d == a), hash(d) == hash(a), d in {a}, a in {d}]

        r = _call(derived)
        rec.check(r[0] == "ok" and all(r[1]), f"c16:order:derived-ref:{rel}", f"ref {ka} derived by copy(update=...) from the hashed ref {kb} vs a fresh one: [==, hash==, in-set, fresh-in-set-of-derived] = {r[1]!r}", case, [F_REF + ".__hash__", F_REF + ".__eq__"])
    r = _call(lambda: a.supports(b))
    exp = spec_supports(ka, kb)
    rec.check(r[0] == "ok" and r[1] is exp, f"c16:order:supports:{rel}:{_kind(r, exp)}{cls}",
              f"{ka}.supports({kb}): expected {exp}, got {r[1]!r}", case, [F_REF + ".supports"])


def check_triple(rec, refs, keys, i, j, k):
    a, b, c = refs[i], refs[j], refs[k]
    case = {"part": "order3", "a": list(keys[i]), "b": list(keys[j]), "c": list(keys[k])}
    nontrivial = False
    for name, f in OPS.items():
        try:
            if f(a, b) and f(b, c):
                nontrivial = True
                r = f(a, c)
                rec.check(r is True, f"c16:order:transitive:{name}:{relation(keys[i], keys[k])}",
                          f"a {name} b and b {name} c but a {name} c is {r!r} for {keys[i]}, {keys[j]}, {keys[k]}", case, [F_REF + ".__ge__"])
        except Exception as e:  # noqa
            rec.violated(f"c16:order:transitive:{name}:raises", f"comparison raised {type(e).__name__}: {e}", case, [F_REF])
    return nontrivial


def check_sorted(rec, tl, what="sorted"):
    """tl: list of (group,name,version) triples (may contain duplicates)."""
    case = {"part": "sorted", "list": [list(t) for t in tl]}
    ks = [key(t) for t in tl]
    refs = [mkref(t) for t in tl]
    r = _call(lambda: [(x.group, x.name, tuple(x.version)) for x in sorted(refs)])
    rec.check(r == ("ok", sorted(ks)), "c16:order:sorted", f"sorted() of {len(tl)} refs is not in key order: {r[1]!r}", case, [F_REF + ".__ge__"])
    if refs:
        r = _call(lambda: ((lambda m: (m.group, m.name, tuple(m.version)))(min(refs)), (lambda m: (m.group, m.name, tuple(m.version)))(max(refs))))
        rec.check(r == ("ok", (min(ks), max(ks))), "c16:order:minmax", f"min/max of refs {r[1]!r} != {(min(ks), max(ks))}", case, [F_REF + ".__ge__"])
    r = _call(lambda: len(set(refs)))
    rec.check(r == ("ok", len(set(ks))), "c16:order:set-size", f"set of refs has {r[1]!r} elements, {len(set(ks))} distinct keys", case, [F_REF + ".__hash__"])


def part_order(rec, tier, seed, t_end):
    U = ref_universe((0, 1, 2))
    n_pairs = 0
    for ta in U:
        for tb in U:
            check_pair(rec, ta, tb)
            rec.case(("pair", key(ta), key(tb)), sample={"pair": [list(ta), list(tb)]} if n_pairs == 1 else None)
            n_pairs += 1
    # mixed classes: per-group subclass (as handed out by plugin groups) against the base class
    U1 = ref_universe((0, 1))
    n_sub = 0
    for ta in U1:
        for tb in U1:
            for sub in ((True, False), (False, True), (True, True)):
                check_pair(rec, ta, tb, sub)
                n_sub += 1
            rec.case(("pair-sub", key(ta), key(tb)))
    # triples
    UT = U if tier == "thorough" else U1
    refs = [mkref(t) for t in UT]
    keys = [key(t) for t in UT]
    n_tr, done = 0, True
    N = len(UT)
    for i in range(N):
        if time.time() > t_end:
            done = False
            break
        for j in range(N):
            for k in range(N):
                nt = check_triple(rec, refs, keys, i, j, k)
                rec.case(("triple", i, j, k, N), nontrivial=nt)
                n_tr += 1
    # sorted(): all permutations of all <=4-subsets of a 6 element set (+ a duplicate), seeded shuffles of U with duplicates
    S6 = [("g", "aa", (0, 1, 0)), ("g", "aa", (0, 0, 2)), ("g", "aa.bb", (0, 0, 0)), ("h", "aa", (0, 0, 0)), ("g", "aa", (1, 0, 0)), ("g", "aa", (0, 1, 0))]
    n_sorted = 0
    for r_ in range(0, 5):
        for perm in itertools.permutations(S6, r_):
            check_sorted(rec, list(perm))
            rec.case(("sorted", perm))
            n_sorted += 1
    R = rng(seed, "c16-sorted")
    for _ in range(40 if tier == "quick" else 400):
        tl = [R.choice(U) for _ in range(R.randint(2, 150))]
        check_sorted(rec, tl)
        rec.case(("sorted-rand", digest(tl)))
        n_sorted += 1
    return f"order: {n_pairs} pairs over {len(U)} refs (versions {{0,1,2}}^3) + {n_sub} mixed-subclass pairs over {len(U1)} refs; " \
           f"{n_tr} triples over {N} refs ({'complete' if done else 'budget stop'}); {n_sorted} sorted lists", done


# ---------------------------------------------------------------------------------------------
# part: group


class VtGroup(PluginGroup):
    """Synthetic plugin group; never registered anywhere, instances are thrown away."""

    class Plugin:
        name = "vtgroup"
        version = (0, 1, 0)
        plugin_class = object

    def check_plugin(self, ep_name, plugin):  # trivial group-specific check
        pass


SYNTH_MOD = "rac_c16_synth"
_mod = types.ModuleType(SYNTH_MOD)
sys.modules[SYNTH_MOD] = _mod
_counter = itertools.count()


class VtBase(metaclass=PluginMetaclassMixin):
    pass


def mk_plugin_class(name, version):
    info = type("Plugin", (), {"name": name, "version": tuple(version)})
    attr = f"P{next(_counter)}"
    cls = PluginMetaclassMixin(attr, (VtBase,), {"Plugin": info})
    setattr(_mod, attr, cls)
    return attr, cls


def mk_ep(name, version):
    attr, _ = mk_plugin_class(name, version)
    epn = f"{name}__{version[0]}.{version[1]}.{version[2]}"
    return epn, EntryPoint(epn, f"{SYNTH_MOD}:{attr}", "metador_vtgroup"), attr


def build_group(path, regs, touch=False):
    """regs: list of (name, version) in registration order. Returns (group, attrs to clean up).
    touch: issue version-less requests (get / []) for the names registered so far after every registration step,
    so that requests and registrations are interleaved (any history, not only register-all-then-ask)."""
    attrs = []
    if path == "ctor":
        eps = {}
        for n, v in regs:
            epn, ep, attr = mk_ep(n, v)
            eps[epn] = ep
            attrs.append(attr)
        return VtGroup(eps), attrs
    g = VtGroup({})
    for idx, (n, v) in enumerate(regs):
        use_reg = path == "register" or (path == "mixed" and idx % 2 == 1) or (path == "mixed2" and idx % 2 == 0)
        if use_reg:
            attr, cls = mk_plugin_class(n, v)
            attrs.append(attr)
            putil.register_in_group(g, cls, violently=True)
        else:
            epn, ep, attr = mk_ep(n, v)
            attrs.append(attr)
            g._add_ep(epn, ep)
        if touch:
            for nn in {x for x, _ in regs[: idx + 1]}:
                try:
                    g.get(nn)
                    g[nn]
                except Exception:  # noqa  (judged by the final checks)
                    pass
    return g, attrs


def cleanup(attrs):
    for a in attrs:
        if hasattr(_mod, a):
            delattr(_mod, a)


def rk(r):
    return (r.group, r.name, tuple(r.version))


REQS = [(a, b, c) for a in (0, 1, 2) for b in (0, 1, 2, 3) for c in (0, 9)]
REQS_SMALL = [(0, 0, 0), (0, 1, 5), (0, 2, 0), (0, 3, 0), (1, 0, 0), (1, 1, 0), (2, 0, 0)]


SIG_PATH = {"ctor": "add_ep", "add_ep": "add_ep", "register": "register", "mixed": "mixed", "mixed2": "mixed"}  # coarse signature label


def path_fns(path):
    return {"ctor": [F_ADD], "add_ep": [F_ADD], "register": [F_REG], "mixed": [F_ADD, F_REG], "mixed2": [F_ADD, F_REG]}[path]


def check_group(rec, path, regs, with_get=False, reqs=REQS):
    regs = [(n, tuple(v)) for n, v in regs]
    case = {"part": "group", "path": path, "regs": [[n, list(v)] for n, v in regs], "with_get": with_get}
    fns = path_fns(path)
    sp = SIG_PATH[path]
    attrs = []
    try:
        with watchdog(10):
            g, attrs = build_group(path, regs, touch=with_get and path != "ctor")
    except Exception as e:  # noqa
        rec.violated(f"c16:group:{sp}:registration-raises:{type(e).__name__}", f"registering {regs} raised {type(e).__name__}: {e}", case, fns)
        cleanup(attrs)
        return
    try:
        model = {}
        for n, v in regs:
            model.setdefault(n, set()).add(v)
        G = "vtgroup"
        # looking at the group (the overview texts) is an observation: it must not change what the group lists or resolves afterwards
        for show in (str, repr):
            try:
                show(g)
            except Exception:  # noqa
                pass
        for n in list(model) + ["vt.zz"]:
            S = sorted(model.get(n, ()))
            exp_all = [(G, n, v) for v in S]
            got = [rk(r) for r in g.versions(n)]
            if got != exp_all:
                if set(exp_all) - set(got):
                    kind = "registered-version-missing"
                elif len(got) != len(set(got)) or set(got) - set(exp_all):
                    kind = "extra-or-duplicate"
                else:
                    kind = "not-ascending"
                rec.violated(f"c16:group:{sp}:versions:{kind}", f"versions({n!r}) after registering {regs} via {path}: expected {exp_all}, got {got}", case, fns + [F_VER])
            else:
                rec.check(True, "", "")
            r = g.resolve(n)
            exp = exp_all[-1] if exp_all else None
            rec.check((rk(r) if r is not None else None) == exp, f"c16:group:{sp}:resolve:" + ("none-although-compatible-registered" if r is None else "spurious" if exp is None else "not-newest"), f"resolve({n!r}) expected {exp}, got {r!r} (registered {regs})", case, fns + [F_RES])
            rec.check((n in g) is bool(S), f"c16:group:{sp}:contains-name", f"({n!r} in group) is {(n in g)!r}, registered versions {S}", case, fns + ["plugin/interface.py:PluginGroup.__contains__"])
            for v in set(POOL5) | set(S):
                got_in = (n, v) in g
                rec.check(got_in is (v in S), f"c16:group:{sp}:versions:{'registered-version-missing' if v in S else 'extra-or-duplicate'}",
                          f"(({n!r}, {v}) in group) is {got_in!r}, registered versions {S}", case, fns + ["plugin/interface.py:PluginGroup.__contains__"])
            for q in (reqs if n != "vt.zz" else REQS_SMALL):
                exp_q = [(G, n, v) for v in S if v[0] == q[0] and v[1] >= q[1]]
                got_q = [rk(r) for r in g.versions(n, q)]
                if got_q != exp_q:
                    kind = "registered-version-missing" if set(exp_q) - set(got_q) else "extra-or-duplicate" if (set(got_q) - set(exp_q) or len(got_q) != len(set(got_q))) else "not-ascending"
                    rec.violated(f"c16:group:{sp}:versions:{kind}", f"versions({n!r}, {q}) expected {exp_q}, got {got_q} (registered {regs})", case, fns + [F_VER])
                else:
                    rec.check(True, "", "")
                r = g.resolve(n, q)
                got_r = rk(r) if r is not None else None
                exp_r = exp_q[-1] if exp_q else None
                if got_r != exp_r:
                    kind = "none-although-compatible-registered" if got_r is None else "spurious" if exp_r is None else "incompatible" if got_r not in exp_q else "not-newest"
                    rec.violated(f"c16:group:{sp}:resolve:{kind}", f"resolve({n!r}, {q}) expected {exp_r}, got {got_r} (registered {regs})", case, fns + [F_RES])
                else:
                    rec.check(True, "", "")
        exp_keys = sorted((G, n, v) for n, S in model.items() for v in S)
        got_keys = [rk(r) for r in g.keys()]
        rec.check(sorted(got_keys) == exp_keys, f"c16:group:{sp}:versions:" + ("registered-version-missing" if set(exp_keys) - set(got_keys) else "extra-or-duplicate"), f"keys() expected {exp_keys}, got {got_keys}", case, fns + ["plugin/interface.py:PluginGroup.keys"])
        for n, S in model.items():
            mine = [k for k in got_keys if k[1] == n]
            rec.check(mine == sorted(mine), f"c16:group:{sp}:versions:not-ascending", f"keys() lists the versions of {n!r} as {[k[2] for k in mine]} (registered {regs})", case, fns + ["plugin/interface.py:PluginGroup.keys"])
        if with_get:
            check_group_get(rec, g, sp, regs, model, case, fns)
    except Exception as e:  # noqa
        rec.violated(f"c16:group:{sp}:query-raises:{type(e).__name__}", f"query on group with {regs} raised {type(e).__name__}: {e}", case, fns)
    finally:
        cleanup(attrs)


class VtPickyGroup(PluginGroup):
    """like VtGroup, but its group-specific check refuses plugin classes marked `refuse_me`"""

    class Plugin:
        name = "vtgroup"
        version = (0, 1, 0)
        plugin_class = object

    def check_plugin(self, ep_name, plugin):
        if getattr(plugin, "refuse_me", False):
            raise TypeError(f"{ep_name}: refused by the group")


def check_group_with_refusal(rec, regs, bad_pos, bad_v):
    """register_in_group of the versions `regs` (one name, in that order) with one REFUSED registration of version `bad_v`
    (not among regs) before position `bad_pos`. Whatever happens to the refused one: every accepted version stays listed,
    in ascending order, and a request resolves to the newest listed version that supports it."""
    regs = [tuple(v) for v in regs]
    case = {"part": "group_refusal", "regs": [list(v) for v in regs], "bad_pos": bad_pos, "bad_v": list(bad_v)}
    attrs = []
    g = VtPickyGroup({})
    try:
        for idx in range(len(regs) + 1):
            if idx == bad_pos:
                attr, cls = mk_plugin_class(NAME_A, bad_v)
                attrs.append(attr)
                cls.refuse_me = True
                try:
                    putil.register_in_group(g, cls, violently=True)
                    rec.violated("c16:group:register:refused-plugin-accepted", f"a plugin the group's check refuses was registered without an error ({bad_v})", case, [F_REG])
                except Exception:  # noqa  (expected)
                    rec.check(True, "", "")
            if idx < len(regs):
                attr, cls = mk_plugin_class(NAME_A, regs[idx])
                attrs.append(attr)
                try:
                    putil.register_in_group(g, cls, violently=True)
                except Exception as e:  # noqa
                    rec.violated(f"c16:group:register:registration-raises:{type(e).__name__}", f"registering {regs[idx]} (after {regs[:idx]}, refused {bad_v} before position {bad_pos}) raised {type(e).__name__}: {e}", case, [F_REG])
                    return
        G = "vtgroup"
        got = [rk(r) for r in g.versions(NAME_A)]
        accepted = [(G, NAME_A, v) for v in sorted(regs)]
        judged = [x for x in got if x[2] != tuple(bad_v)]  # whether the refused version stays listed is not claimed
        if judged != accepted or got != sorted(got):
            kind = "registered-version-missing" if set(accepted) - set(got) else "not-ascending" if got != sorted(got) else "extra-or-duplicate"
            rec.violated(f"c16:group:register:versions:{kind}", f"versions({NAME_A!r}) after registering {regs} with a refused registration of {tuple(bad_v)} before position {bad_pos}: accepted {accepted}, listed {got}", case, [F_REG, F_VER])
        else:
            rec.check(True, "", "")
        for v in regs:
            rec.check((NAME_A, v) in g, "c16:group:register:versions:registered-version-missing", f"(({NAME_A!r}, {v}) in group) is False although it was registered (refused {tuple(bad_v)} before position {bad_pos})", case, [F_REG, "plugin/interface.py:PluginGroup.__contains__"])
        for q in REQS_SMALL:
            sup = [x for x in got if x[2][0] == q[0] and x[2][1] >= q[1]]
            r = g.resolve(NAME_A, q)
            got_r = rk(r) if r is not None else None
            exp_r = sup[-1] if sup else None
            rec.check(got_r == exp_r, "c16:group:register:resolve:" + ("none-although-compatible-registered" if got_r is None else "spurious" if exp_r is None else "not-newest"), f"resolve({NAME_A!r}, {q}) expected {exp_r}, got {got_r} (listed {got})", case, [F_REG, F_RES])
    except Exception as e:  # noqa
        rec.violated(f"c16:group:register:query-raises:{type(e).__name__}", f"query on group with {regs} and refused {bad_v} raised {type(e).__name__}: {e}", case, [F_REG])
    finally:
        cleanup(attrs)


class _PlainMixin:
    pass


def can_subclass(bases, body=None):
    """Try to create a class with the given bases (and class body entries). Returns (created?, exception-or-None)."""
    try:
        types.new_class("Derived", tuple(bases), exec_body=(lambda ns: ns.update(body)) if body else None)
        return True, None
    except Exception as e:  # noqa
        return False, e


def check_group_get(rec, g, path, regs, model, case, fns):
    for n, Sset in model.items():
        S = sorted(Sset)
        with watchdog(10):
            m = g.get(n)
        ok = m is not None and UndefVersion._is_marked(m) and tuple(m.Plugin.version) == S[-1] and m.Plugin.name == n
        rec.check(ok, f"c16:group:{path}:resolve:" + ("not-newest" if (m is not None and UndefVersion._is_marked(m)) else "get-versionless-unmarked-or-None"), f"get({n!r}) should be the marked newest version {S[-1]}, got {getattr(getattr(m, 'Plugin', None), 'version', None)!r} marked={m is not None and UndefVersion._is_marked(m)}", case, fns + [F_GET])
        if m is not None:
            newest = g.get(n, S[-1])
            for shape, bases in (("marked", [m]), ("plain+marked", [_PlainMixin, m]), ("marked+plain", [m, _PlainMixin]), ("versioned+marked", [newest, m]), ("base+marked", [VtBase, m])):
                if any(b is None for b in bases):
                    continue
                created, e = can_subclass(bases)
                rec.check((not created) and isinstance(e, TypeError), f"c16:group:{path}:subclass-of-versionless:{shape}", f"class with bases {shape} from get({n!r}) (no version): created={created}, exc={e!r}; expected TypeError", case, [F_GET, F_META])
        for q in REQS_SMALL:
            comp = [v for v in S if v[0] == q[0] and v[1] >= q[1]]
            with watchdog(10):
                c = g.get(n, q)
            if not comp:
                rec.check(c is None, f"c16:group:{path}:resolve:spurious", f"get({n!r}, {q}) expected None, got version {getattr(getattr(c, 'Plugin', None), 'version', None)!r} (registered {S})", case, fns + [F_GET])
                continue
            gotv = tuple(c.Plugin.version) if c is not None else None
            if gotv != comp[-1]:
                kind = "none-although-compatible-registered" if c is None else "not-newest"
                rec.violated(f"c16:group:{path}:resolve:{kind}", f"get({n!r}, {q}) expected class of version {comp[-1]}, got {gotv} (registered {S})", case, fns + [F_GET, F_RES])
                continue
            rec.check(not UndefVersion._is_marked(c), f"c16:group:{path}:get-version:marked", f"get({n!r}, {q}) with version is marked as version-less", case, [F_GET])
            for shape, bases in (("versioned", [c]), ("versioned+plain", [c, _PlainMixin]), ("plain+versioned", [_PlainMixin, c])):
                created, e = can_subclass(bases)
                rec.check(created, f"c16:group:{path}:subclass-of-versioned:{shape}", f"class with bases {shape} from get({n!r}, {q}) could not be created: {e!r}", case, [F_GET, F_META])


POOL5 = [(0, 1, 0), (0, 1, 1), (0, 2, 0), (1, 0, 0), (1, 1, 0)]
NAME_A = "vt.aa"
NAME_B = "vt.aa.bb"  # prefix-related second name
B_VERS = [(0, 1, 0), (2, 0, 0)]


def interleavings(xs, ys):
    """All merges of sequences xs and ys keeping their internal orders."""
    if not xs:
        yield list(ys)
        return
    if not ys:
        yield list(xs)
        return
    for rest in interleavings(xs[1:], ys):
        yield [xs[0]] + rest
    for rest in interleavings(xs, ys[1:]):
        yield [ys[0]] + rest


def part_group(rec, tier, seed, t_end):
    maxk = 5 if tier == "thorough" else 4
    orders = [list(p) for k in range(1, maxk + 1) for sub in itertools.combinations(POOL5, k) for p in itertools.permutations(sub)]
    n = {"single": 0, "interleaved": 0, "get": 0}
    done = True
    # (1) one plugin name, every subset, every order, every registration path
    for path in ("add_ep", "ctor", "register", "mixed", "mixed2"):
        for o in orders:
            if time.time() > t_end:
                done = False
                break
            regs = [(NAME_A, v) for v in o]
            if path in ("mixed", "mixed2") and len(o) < 2:
                continue
            with_get = path in ("add_ep", "register") and len(o) <= 3
            check_group(rec, path, regs, with_get=with_get, reqs=REQS)
            rec.case(("group", path, tuple(regs)), nontrivial=len(o) >= 2, sample={"path": path, "regs": [[a, list(b)] for a, b in regs]} if n["single"] == 7 else None)
            n["single"] += 1
            n["get"] += with_get
    # (2) second plugin name interleaved
    b_seqs = [[(NAME_B, B_VERS[0])]]
    if tier == "thorough":
        b_seqs += [[(NAME_B, B_VERS[0]), (NAME_B, B_VERS[1])], [(NAME_B, B_VERS[1]), (NAME_B, B_VERS[0])]]
    for path in ("add_ep", "register", "mixed"):
        for o in orders:
            if len(o) > 4:
                continue
            for bs in (b_seqs if (tier == "thorough" or len(o) <= 3 or path == "add_ep") else []):
                for regs in interleavings([(NAME_A, v) for v in o], bs):
                    if time.time() > t_end:
                        done = False
                        break
                    check_group(rec, path, regs, with_get=False, reqs=REQS_SMALL)
                    rec.case(("group", path, tuple(regs)))
                    n["interleaved"] += 1
    if tier == "quick":
        # two versions of the second name as well, on the short orders
        for o in orders:
            if len(o) > 2:
                continue
            for bs in ([(NAME_B, B_VERS[1]), (NAME_B, B_VERS[0])], [(NAME_B, B_VERS[0]), (NAME_B, B_VERS[1])]):
                for regs in interleavings([(NAME_A, v) for v in o], bs):
                    check_group(rec, "add_ep", regs, with_get=False, reqs=REQS_SMALL)
                    rec.case(("group", "add_ep", tuple(regs)))
                    n["interleaved"] += 1
    # (2b) one registration refused by the group's own check at every position of every short order
    n_ref = 0
    for o in orders:
        if len(o) > 3:
            continue
        for bad_v in [v for v in POOL5 if v not in o]:
            for bad_pos in range(len(o) + 1):
                check_group_with_refusal(rec, o, bad_pos, bad_v)
                rec.case(("group_refusal", tuple(o), bad_pos, bad_v), nontrivial=True)
                n_ref += 1
    n["refusal"] = n_ref
    # (3) seeded random deeper: three names, up to 8 registrations, random path
    R = rng(seed, "c16-group")
    names3 = [NAME_A, NAME_B, "vt.a0_b-c"]
    pool = [(a, b, c) for a in (0, 1, 2) for b in (0, 1, 2) for c in (0, 1)]
    n_rand = 0
    for _ in range(60 if tier == "quick" else 1500):
        if time.time() > t_end:
            done = False
            break
        cand = [(nm, v) for nm in names3 for v in pool]
        regs = R.sample(cand, R.randint(2, 8))
        path = R.choice(["add_ep", "register", "mixed", "mixed2", "ctor"])
        check_group(rec, path, regs, with_get=R.random() < 0.3, reqs=REQS_SMALL)
        rec.case(("group", path, tuple(regs)))
        n_rand += 1
    return (f"group: all permutations of all subsets (1..{maxk}) of {POOL5} for one name x paths ctor/_add_ep/register_in_group/mixed/mixed2 = {n['single']} groups "
            f"({n['get']} with get()/subclass checks); {n['interleaved']} groups with a second name interleaved; {n['refusal']} histories (<= 3 accepted versions) with one registration refused by the group check at every position; {n_rand} seeded random groups (3 names, <= 8 registrations); "
            f"requests {len(REQS)} versions per name; {'complete' if done else 'budget stop'}"), done


# ---------------------------------------------------------------------------------------------
# part: epname

_LET = "abcdefghijklmnopqrstuvwxyz"
_DIG = "0123456789"


def spec_is_name(seg: str) -> bool:
    """Hand-written recogniser for NAME: letter, alnum, then groups of (optional single _ or -) + alnum."""
    if len(seg) < 2 or seg[0] not in _LET or (seg[1] not in _LET and seg[1] not in _DIG):
        return False
    i = 2
    while i < len(seg):
        if seg[i] in "_-":
            i += 1
            if i >= len(seg):
                return False
        if seg[i] not in _LET and seg[i] not in _DIG:
            return False
        i += 1
    return True


def spec_is_qualname(s: str) -> bool:
    return all(spec_is_name(x) for x in s.split("."))


def invalid_class(s: str) -> str:
    if s == "":
        return "empty"
    if any(ch not in _LET + _DIG + "_-." for ch in s):
        return "foreign-char"
    if ".." in s or s.startswith(".") or s.endswith("."):
        return "empty-segment"
    if any(len(x) == 1 for x in s.split(".")):
        return "one-char-segment"
    if any(x[0] not in _LET for x in s.split(".")):
        return "segment-not-starting-with-letter"
    if any(x[1] in "_-" for x in s.split(".")):
        return "separator-second"
    if any(x[-1] in "_-" for x in s.split(".")):
        return "trailing-separator"
    return "double-separator"


VERS_SMALL = [(0, 0, 0), (0, 1, 0), (1, 0, 2), (2, 2, 2)]
VERS_BIG = [(10, 0, 0), (0, 99, 100), (2**31, 2**32, 2**63), (2**64, 10**30, 7), (123456789, 0, 987654321)]


def check_name(rec, n, versions):
    valid = spec_is_qualname(n)
    for v in versions:
        case = {"part": "epname", "name": n, "version": list(v)}
        if valid:
            try:
                e = ptypes.to_ep_name(n, v)
                back = ptypes.from_ep_name(e)
            except Exception as ex:  # noqa
                rec.violated(f"c16:epname:valid-name-raises:{type(ex).__name__}", f"to/from_ep_name({n!r}, {v}) raised {type(ex).__name__}: {ex}", case, [F_EPN])
                continue
            ok = isinstance(back, tuple) and len(back) == 2 and back[0] == n and isinstance(back[1], tuple) and back[1] == v and all(type(x) is int for x in back[1])
            rec.check(ok, "c16:epname:roundtrip-name-version", f"from_ep_name(to_ep_name({n!r}, {v})) == {back!r}", case, [F_EPN])
            e0 = f"{n}__{v[0]}.{v[1]}.{v[2]}"  # canonical entry point name, built independently
            try:
                e1 = ptypes.to_ep_name(*ptypes.from_ep_name(ptypes.EPName(e0)))
                rec.check(e1 == e0 and isinstance(e1, str), "c16:epname:roundtrip-epname", f"to_ep_name(*from_ep_name({e0!r})) == {e1!r}", case, [F_EPN])
            except Exception as ex:  # noqa
                rec.violated(f"c16:epname:canonical-epname-raises:{type(ex).__name__}", f"canonical {e0!r} raised {type(ex).__name__}: {ex}", case, [F_EPN])
        else:
            try:
                e = ptypes.to_ep_name(n, v)
                rec.violated(f"c16:epname:invalid-name-accepted:{invalid_class(n)}", f"to_ep_name({n!r}, {v}) accepted an invalid qualified name -> {e!r}", case, ["plugin/types.py:EPName"])
            except TypeError:
                rec.check(True, "", "")
            except Exception as ex:  # noqa
                rec.violated(f"c16:epname:invalid-name-wrong-exception:{type(ex).__name__}", f"to_ep_name({n!r}, {v}) raised {type(ex).__name__} instead of TypeError", case, ["plugin/types.py:EPName"])
    return valid


HAND_INVALID = ["", "a", "aa.b", "a.bb", "Aa", "aA", "aa.Bb", "aa__bb", "a__b", "aa--bb", "aa-_bb", "aa_-bb", "aa_", "aa-", "_aa", "-aa", "1aa", "aa.1b", "a_a", "a-a",
                "aa..bb", ".aa", "aa.", "aa bb", "aa\n", "\naa", "aa.bb\n", "aä", "aa١", "aa/bb", "aa:bb", "aa__1.0.0", "a__b__1.0.0"]
HAND_VALID = ["aa", "a0", "aa.bb", "a0.b1.c2.d3", "core.file", "example.matsci.info", "aa_bb-cc_dd", "a0_1-2", "ab-c.d0_e.ff", "zz9.a1-1", "aa_b.cc-d.ee_f.gg-h.ii"]
BAD_EPNAMES = ["aa__0.1.0", "vt.a__0.1.0", "vt.aa__0.1", "vt.aa_0.1.0", "Vt.aa__0.1.0", "vt.aa__0.1.0.0", "vt.aa__-1.0.0", "vt.aa__0.1.x", "vt.aa__0.1.0 ", "vt..aa__0.1.0", "vt.aa__bb__0.1.0", "vt.aa"]


def random_name(R):
    segs = []
    for _ in range(R.randint(1, 5)):
        s = R.choice(_LET) + R.choice(_LET + _DIG)
        for _ in range(R.randint(0, 6)):
            s += R.choice(["", "_", "-"]) + R.choice(_LET + _DIG)
        segs.append(s)
    return ".".join(segs)


def check_add_ep_rejects(rec, bad):
    case = {"part": "add_ep_reject", "epname": bad}
    g = VtGroup({})
    epn, ep, attr = mk_ep(NAME_A, (0, 1, 0))
    g._add_ep(epn, ep)
    before = ([rk(r) for r in g.keys()], sorted(g._ENTRY_POINTS))
    try:
        g._add_ep(bad, ep)
        rec.violated("c16:group:add_ep:invalid-epname-accepted", f"_add_ep({bad!r}) accepted", case, [F_ADD])
    except ValueError:
        after = ([rk(r) for r in g.keys()], sorted(g._ENTRY_POINTS))
        rec.check(before == after, "c16:group:add_ep:rejected-with-effect", f"_add_ep({bad!r}) rejected but group changed: {before} -> {after}", case, [F_ADD])
    except Exception as ex:  # noqa
        rec.violated(f"c16:group:add_ep:invalid-epname-wrong-exception:{type(ex).__name__}", f"_add_ep({bad!r}) raised {type(ex).__name__}: {ex}", case, [F_ADD])
    finally:
        cleanup([attr])


def part_epname(rec, tier, seed, t_end):
    maxlen = 5 if tier == "quick" else 7
    alphabet = "ab0_-."
    n_valid = n_invalid = 0
    done = True
    for L in range(0, maxlen + 1):
        for tup in itertools.product(alphabet, repeat=L):
            if L >= 6 and time.time() > t_end:
                done = False
                break
            s = "".join(tup)
            v = check_name(rec, s, VERS_SMALL[:2] if L >= 5 else VERS_SMALL)
            rec.case(("name", s), nontrivial=True)
            n_valid += v
            n_invalid += not v
    for s in HAND_INVALID:
        assert not spec_is_qualname(s), s
        check_name(rec, s, VERS_SMALL[:2])
        rec.case(("name", s))
        n_invalid += 1
    for s in HAND_VALID:
        assert spec_is_qualname(s), s
        check_name(rec, s, VERS_SMALL + VERS_BIG)
        rec.case(("name", s), sample={"name": s, "versions": [list(x) for x in VERS_BIG[:2]]} if s == "ab-c.d0_e.ff" else None)
        n_valid += 1
    R = rng(seed, "c16-epname")
    n_rand = 0
    for _ in range(300 if tier == "quick" else 5000):
        s = random_name(R)
        vs = [(R.randrange(0, 4), R.randrange(0, 50), R.randrange(0, 10**R.randint(1, 25)))] + [R.choice(VERS_BIG)]
        check_name(rec, s, vs)
        rec.case(("name", s))
        n_rand += 1
    # a version-number space on one name
    for v in itertools.product((0, 1, 2, 9, 10, 11, 99, 100), repeat=3):
        check_name(rec, "vt.aa", [v])
    for bad in BAD_EPNAMES:
        check_add_ep_rejects(rec, bad)
        rec.case(("add_ep_reject", bad))
    return (f"epname: every string over {alphabet!r} up to length {maxlen} ({n_valid} valid / {n_invalid} invalid incl. hand-picked), {n_rand} seeded long names, "
            f"versions {len(VERS_SMALL)} small + {len(VERS_BIG)} huge + {{0,1,2,9,10,11,99,100}}^3 on one name; {len(BAD_EPNAMES)} bad entry-point names on _add_ep; "
            f"{'complete' if done else 'budget stop'}"), done


# ---------------------------------------------------------------------------------------------
# part: subclass (installed schemas group)


# NB: schemas allow only ONE parent schema, so "versioned + plain mixin" is legitimately refused there; the
# multi-base *positive* shape is exercised on the synthetic group (check_group_get) instead.
SHAPES = ["marked", "getitem-marked", "plain+marked", "marked+plain", "versioned+marked", "versioned", "sub-of-versioned+marked", "marked+own-Plugin", "marked+Plugin-None"]


def check_subclass(rec, name, shape):
    from metador_core.plugins import schemas

    case = {"part": "subclass", "name": name, "shape": shape}
    ref = schemas.resolve(name)
    if ref is None:
        rec.notes.append(f"subclass: schema {name} not installed")
        return
    ver = tuple(ref.version)
    with watchdog(20):
        A = schemas.get(name)
        B = schemas.get(name, ver)
    rec.check(A is not None and UndefVersion._is_marked(A) and UndefVersion._unwrap(A) is B and not UndefVersion._is_marked(B),
              "c16:subclass:marking", f"schemas.get({name!r}) must be a marked view of schemas.get({name!r}, {ver})", case, [F_GET])
    must_fail = "marked" in shape
    with watchdog(20):
        if shape == "marked":
            bases = [A]
        elif shape == "getitem-marked":
            bases = [schemas[name]]
        elif shape == "plain+marked":
            bases = [_PlainMixin, A]
        elif shape == "marked+plain":
            bases = [A, _PlainMixin]
        elif shape == "versioned+marked":
            bases = [B, A]
        elif shape == "versioned":
            bases = [B]
        elif shape == "versioned+plain":
            bases = [B, _PlainMixin]
        elif shape == "sub-of-versioned+marked":
            sub = types.new_class("Sub", (B,))
            bases = [sub, A]
        elif shape in ("marked+own-Plugin", "marked+Plugin-None"):
            bases = [A]  # the subclass body defines its own Plugin section (a new plugin / next version derived from the marked class)
        else:
            raise ValueError(shape)
        body = None
        if shape == "marked+own-Plugin":
            body = {"Plugin": type("Plugin", (), {"name": "zz.derived", "version": (0, 1, 0)})}
        elif shape == "marked+Plugin-None":
            body = {"Plugin": None}
        created, e = can_subclass(bases, body)
    if must_fail:
        rec.check((not created) and isinstance(e, TypeError), f"c16:subclass:{shape}:{'created' if created else 'wrong-exception'}",
                  f"class with bases {shape} of {name!r}: created={created}, exc={e!r}; expected TypeError", case, [F_GET, F_META])
    else:
        rec.check(created, f"c16:subclass:{shape}:refused", f"class with bases {shape} of {name!r} (version stated) refused: {e!r}", case, [F_GET, F_META])


def part_subclass(rec, tier, seed, t_end):
    from metador_core.plugins import schemas

    names = sorted({r.name for r in schemas.keys()})
    n = 0
    for name in names:
        for shape in SHAPES:
            if time.time() > t_end + 20:
                return f"subclass: budget stop after {n}", False
            try:
                check_subclass(rec, name, shape)
            except Exception as e:  # noqa
                rec.violated(f"c16:subclass:{shape}:driver-exception:{type(e).__name__}", f"{name}: {type(e).__name__}: {e}", {"part": "subclass", "name": name, "shape": shape}, [F_GET])
            rec.case(("subclass", name, shape))
            n += 1
    return f"subclass: {len(names)} installed schemas x {len(SHAPES)} base-list shapes = {n} class creations (+ synthetic multi-version group in part group)", True


# ---------------------------------------------------------------------------------------------


def run(tier: str, seed: int) -> dict:
    rec = Recorder("C16", "c16", max_violations=40)
    t0 = time.time()
    total = 50 if tier == "quick" else 540
    shares = {"order": 0.30, "group": 0.80, "epname": 0.93, "subclass": 1.0}
    bounds, complete = [], True
    for part, fn in (("order", part_order), ("group", part_group), ("epname", part_epname), ("subclass", part_subclass)):
        b, done = fn(rec, tier, seed, t0 + total * shares[part])
        bounds.append(b)
        complete = complete and done
    return rec.result(
        rule="a case is one pair / triple / list of references (distinct by keys), one (registration path, ordered registration list) of a fresh synthetic group, "
             "one candidate name string, or one (schema, base-list shape); non-trivial = the contract's antecedent held (triples: some a op b and b op c; groups: >= 2 registrations)",
        bound=" | ".join(bounds),
        exhaustive=complete,
        assumptions=["the synthetic group overrides check_plugin trivially and uses plugin_class=object", "duplicate registration of the same (name, version) is outside the quantifier (sets of versions)"],
        trusted=["Python tuple/str comparison and sorted() on plain tuples as the order oracle", "importlib_metadata.EntryPoint.load for the synthetic module"],
    )


def replay(case: dict):
    rec = Recorder("C16", "c16", max_violations=50)
    part = case.get("part")
    if part == "order":
        check_pair(rec, tuple(case["a"][:2]) + (tuple(case["a"][2]),), tuple(case["b"][:2]) + (tuple(case["b"][2]),), tuple(case.get("sub", (False, False))))
    elif part == "order3":
        ts = [tuple(case[x][:2]) + (tuple(case[x][2]),) for x in "abc"]
        check_triple(rec, [mkref(t) for t in ts], [key(t) for t in ts], 0, 1, 2)
    elif part == "sorted":
        check_sorted(rec, [tuple(t[:2]) + (tuple(t[2]),) for t in case["list"]])
    elif part == "group":
        check_group(rec, case["path"], [(n, tuple(v)) for n, v in case["regs"]], with_get=case.get("with_get", False))
    elif part == "group_refusal":
        check_group_with_refusal(rec, [tuple(v) for v in case["regs"]], case["bad_pos"], tuple(case["bad_v"]))
    elif part == "epname":
        check_name(rec, case["name"], [tuple(case["version"])])
    elif part == "add_ep_reject":
        check_add_ep_rejects(rec, case["epname"])
    elif part == "subclass":
        check_subclass(rec, case["name"], case["shape"])
    else:
        return False, f"unknown case {case!r}"
    if rec.violations:
        return True, "; ".join(f"{v['signature']}: {v['what']}" for v in rec.violations[:3])
    return False, f"{rec.evaluations} contract evaluations hold"
