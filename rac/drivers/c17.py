"""C17 -- embedded file bytes and their file metadata are exact (bounded tier).

For a family of byte strings (boundary lengths, NUL-rich, trailing NULs, high bytes, marker-like) the driver
writes a source file, embeds it with packer.utils.pack_file into a MetadorContainer over h5py.File and over
IH5Record (thorough: also IH5MFRecord) and checks, after the embedding and after every step of a container
history (patch boundary, copy, move, close+reopen, merge), that
  * node[()] gives back exactly the source bytes (np.void -> tobytes(), h5py.Empty -> b""),
  * the attached core.file metadata has contentSize == len(bytes) and sha256 == hashlib.sha256(bytes).
The single reserved value (np.void(b"\\x7f"), the IH5 deletion marker) must be rejected loudly on IH5 and leave
nothing behind, by whatever route of the IH5 API it arrives; every other value must be accepted.
util.hashsums.{hashsum,qualified_hashsum,file_hashsum} are cross-checked against hashlib.
"""
from __future__ import annotations

import hashlib
import io
import itertools
import time
from pathlib import Path

from rac import base  # noqa: F401  (numpy shim first)
from rac.base import Recorder, budget_left, digest, rng, tmpdir
from rac import ih5lib
from rac.stublib import guarded

import h5py  # noqa: E402
import numpy as np  # noqa: E402

from metador_core.container import MetadorContainer  # noqa: E402
from metador_core.ih5.container import IH5Record  # noqa: E402
from metador_core.ih5.manifest import IH5MFRecord  # noqa: E402
from metador_core.ih5.overlay import h5_copy_from_to  # noqa: E402
from metador_core.util import hashsums as HS  # noqa: E402

SCHEMA_NOTE = None
try:
    from metador_core.packer.utils import pack_file  # noqa: E402
    from metador_core.plugins import schemas  # noqa: E402

    schemas.get("core.file", (0, 1, 0))
except Exception as e:  # noqa  (would mean: numpy shim / pint import made core.file unavailable)
    pack_file = None
    SCHEMA_NOTE = f"core.file schema / pack_file unavailable: {type(e).__name__}: {e}"

FN_PACK = ["packer/utils.py:pack_file", "packer/utils.py:_h5_wrap_bytes"]
FN_META = ["harvester/common.py:FileMetaHarvester.run", "util/hashsums.py:hashsum"]
FN_GUARD = ["ih5/overlay.py:IH5Node._guard_value", "ih5/overlay.py:_is_del_mark"]
FN_COPY = ["ih5/overlay.py:h5_copy_from_to"]
RESERVED = b"\x7f"
DRIVERS = {"h5": None, "ih5": IH5Record, "mf": IH5MFRecord}


# ---------------------------------------------------------------------------------------------------------
# byte string family
# ---------------------------------------------------------------------------------------------------------
def pattern(n: int, a=31, b=7) -> bytes:
    return bytes((i * a + b) % 256 for i in range(n))


def byte_family(tier: str, seed: int):
    fam = []

    def add(label, bs):
        fam.append((label, bytes(bs)))

    for n in (0, 1, 63, 64, 65, 4095, 4096, 4097, 65537):
        add(f"len{n}", pattern(n))
    if tier == "thorough":
        add("len1MiB", pattern(1 << 20, 37, 11))
        add("len1MiB+1z", pattern((1 << 20) - 3) + b"\x00\x00\x00\x00")
    # NUL-rich / leading / trailing NULs
    add("nul1", b"\x00")
    add("nul2", b"\x00\x00")
    add("nul64", b"\x00" * 64)
    add("nul4096", b"\x00" * 4096)
    add("nulmix", b"a\x00b\x00\x00c")
    add("trail1", b"abc\x00")
    add("trail3", b"abc\x00\x00\x00")
    add("trail63", b"\x01" + b"\x00" * 63)
    add("trail4k", pattern(3996) + b"\x00" * 100)
    add("lead", b"\x00\x00abc")
    # high bytes
    add("ff", b"\xff")
    add("ff00", b"\xff\x00")
    add("b80", b"\x80")
    add("high", bytes(range(0x80, 0x100)))
    add("all256", bytes(range(256)))
    add("ffx65", b"\xff" * 65)
    # marker-like (b"\x7f" itself is the reserved value: handled apart)
    add("m7f00", b"\x7f\x00")
    add("m007f", b"\x00\x7f")
    add("m7f7f", b"\x7f\x7f")
    add("m7fx64", b"\x7f" * 64)
    add("m7fa", b"\x7fa")
    add("sub1a", b"\x1a")
    add("sub1a7f", b"\x1a\x7f")
    # text-like / format-like
    add("text", b"hello world\n")
    add("utf8", "äöü €".encode("utf-8"))
    add("nl", b"\n")
    add("sp", b" ")
    add("hdfsig", b"\x89HDF\r\n\x1a\n")
    add("ih5ub", b"ih5_v01\n1024\n{}\x00")
    add("json", b'{"a": 1}\n')
    if tier == "thorough":
        r = rng(seed, "c17-bytes")
        for i in range(12):
            n = r.choice([2, 3, 7, 100, 1000, 5000, 70000])
            add(f"rnd{i}", bytes(r.getrandbits(8) for _ in range(n)))
        for i in range(4):  # random with long NUL tails
            n = r.choice([5, 300])
            add(f"rndz{i}", bytes(r.getrandbits(8) for _ in range(n)) + b"\x00" * r.choice([1, 17, 4096]))
    return fam


QUICK_SMALL = ("len0", "trail3", "m7f00", "len4097")  # byte strings used for the exhaustive short histories


def bytes_of(v):
    """Bytes of a value read back with node[()] (None: not an opaque byte value)."""
    if isinstance(v, h5py.Empty):
        return b""
    if isinstance(v, np.void):
        return v.tobytes()
    return None


# ---------------------------------------------------------------------------------------------------------
# container sessions
# ---------------------------------------------------------------------------------------------------------
class Sess:
    def __init__(self, drv: str, d: Path):
        self.drv, self.d, self.n = drv, d, 0
        self.cls = DRIVERS[drv]
        d.mkdir(parents=True, exist_ok=True)
        if self.cls is None:
            self.path = d / "cont.h5"
            self.raw = h5py.File(self.path, "w")
        else:
            self.path = d / "rec"
            self.raw = self.cls(self.path, "w")
        self.mc = MetadorContainer(self.raw)

    def boundary(self):
        if self.cls is None:
            self.raw.flush()
        else:
            self.raw.commit_patch()
            self.raw.create_patch()
            self.mc = MetadorContainer(self.raw)

    def reopen(self, mode="r+"):
        self.mc.close()
        self.raw = h5py.File(self.path, mode) if self.cls is None else self.cls(self.path, mode)
        self.mc = MetadorContainer(self.raw)

    def merge(self):
        if self.cls is None:
            return
        if self.raw._has_writable:
            self.raw.commit_patch()
        self.n += 1
        tgt = self.d / f"merged{self.n}" / "rec"
        tgt.parent.mkdir()
        self.raw.merge_files(tgt)
        self.raw.close()
        self.path = tgt
        self.raw = self.cls(self.path, "r+")
        self.mc = MetadorContainer(self.raw)

    def close(self):
        try:
            self.mc.close()
        except Exception:  # noqa
            pass


class Embedded:
    """Model: label -> (bytes, live paths)."""

    def __init__(self):
        self.items = {}
        self.gen = 0

    def fresh_group(self, tag):
        self.gen += 1
        return f"{tag}{self.gen}"


def check_all(rec: Recorder, s: Sess, emb: Embedded, stage: str, case, with_meta=True):
    """Read back every live path of every embedded byte string."""
    ok_all = True
    for label, (bs, paths) in emb.items.items():
        for i, p in enumerate(paths):
            c = dict(case, label=label, stage=stage, path=p)
            st, node = guarded(lambda: s.mc[p])
            if not rec.check(st == "ok", f"c17:node-missing:{s.drv}:{stage}", f"embedded file {label} ({len(bs)} bytes) not found at {p} after {stage}: {node}", c, FN_PACK):
                ok_all = False
                continue
            st, v = guarded(lambda: node[()])
            got = bytes_of(v) if st == "ok" else None
            if not rec.check(st == "ok" and got is not None, f"c17:type:{s.drv}:{stage}", f"{label}: reading {p} gave {st} {type(v).__name__} {str(v)[:60]} (expected np.void/Empty)", c, FN_PACK):
                ok_all = False
                continue
            if not rec.check(got == bs, f"c17:bytes-differ:{s.drv}:{stage}",
                             f"{label}: {len(bs)} source bytes, read back {len(got)} bytes after {stage}; first difference at {_first_diff(bs, got)}", c, FN_PACK + FN_COPY):
                ok_all = False
            if not with_meta:
                continue
            st, m = guarded(lambda: node.meta.get("core.file"))
            if stage != "pack" and st == "ok" and m is None:
                continue  # after copies/moves the metadata is judged only where present (presence is C06's concern)
            if not rec.check(st == "ok" and m is not None, f"c17:meta-missing:{s.drv}:{stage}", f"{label}: no core.file metadata at {p} after {stage}: {st} {m}", c, FN_PACK):
                ok_all = False
                continue
            rec.check(m.contentSize == len(bs), f"c17:meta-size:{s.drv}:{stage}", f"{label}: contentSize {m.contentSize} != {len(bs)}", c, FN_META)
            want = hashlib.sha256(bs).hexdigest()
            got_h = str(m.sha256)
            rec.check(got_h in (want, "sha256:" + want), f"c17:meta-sha256:{s.drv}:{stage}", f"{label}: sha256 {got_h} != {want}", c, FN_META)
    return ok_all


def _first_diff(a: bytes, b: bytes):
    for i, (x, y) in enumerate(zip(a, b)):
        if x != y:
            return f"offset {i}: {x:#04x} vs {y:#04x}"
    return f"offset {min(len(a), len(b))} (length {len(a)} vs {len(b)})"


def raw_state(s: Sess):
    """Dump of the raw (unfiltered) container: everything incl. metador_* bookkeeping."""
    return ih5lib.dump_tree(s.raw)


def harvest_meta(path: Path):
    """File metadata exactly as pack_file harvests it when none is passed (real harvester, real schema)."""
    from metador_core.harvester import harvest
    from metador_core.plugins import harvesters

    return harvest(schemas.get("core.file", (0, 1, 0)), [harvesters["core.file.generic"](filepath=path)])


def run_history(rec: Recorder, d: Path, drv: str, fam, history: str, case_extra=None, md=None):
    """Embed all byte strings of `fam` into one container, then apply `history` (chars of BCMRG, U = delete + re-embed other
    content at the same path, A = write/delete attributes of every embedded node), checking after each step.
    md: optional {label: pre-harvested core.file metadata} handed to pack_file (else pack_file harvests itself).
    Returns number of (label, step) pairs on which the bytes were read back."""
    case = {"kind": "hist", "driver": drv, "history": history, "labels": [lb for lb, _ in fam]}
    case.update(case_extra or {})
    s = Sess(drv, d)
    emb = Embedded()
    src = d / "src"
    src.mkdir()
    try:
        for li, (label, bs) in enumerate(fam):
            f = src / f"{label}.bin"
            if li % 3 == 1:
                # the source is given as a symlink to the file (data directories managed by link farms): same bytes, same metadata
                real = src / f"{label}.content"
                real.write_bytes(bs)
                f.symlink_to(real.name)
            else:
                f.write_bytes(bs)
            tgt = f"f/{label}/data"  # one group per file: IH5 reads every sibling dataset on each lookup
            before = raw_state(s) if bs == RESERVED else None
            kw = {"metadata": md[label]} if md and label in md else {}
            st, val = guarded(lambda: pack_file(s.mc, f, target=tgt, **kw), timeout=60)
            c = dict(case, label=label, stage="pack")
            if bs == RESERVED and drv != "h5":
                rec.check(st == "err", f"c17:reserved-not-rejected:pack_file:{drv}", f"pack_file of a file with content b'\\x7f' on IH5 must raise; got {st} {val}", c, FN_PACK + FN_GUARD)
                after = raw_state(s)
                rec.check(before == after, f"c17:reserved-left-node:pack_file:{drv}", "rejected pack_file left something behind in the container", c, FN_PACK)
                st2, there = guarded(lambda: tgt in s.mc)
                rec.check(st2 == "ok" and not there, f"c17:reserved-left-node:pack_file:{drv}", f"{tgt} exists after the rejected pack_file", c, FN_PACK)
                continue
            if not rec.check(st == "ok", f"c17:pack-failed:{drv}", f"pack_file failed for {label} ({len(bs)} bytes): {val}", c, FN_PACK):
                continue
            emb.items[label] = (bs, [tgt])
        n = 0
        check_all(rec, s, emb, "pack", case)
        n += len(emb.items)
        for step, op in enumerate(history):
            stage = f"{op}"
            c = dict(case, stage=stage, step=step)
            if op == "B":
                st, val = guarded(s.boundary, 60)
            elif op == "R":
                st, val = guarded(s.reopen, 60)
            elif op == "G":
                st, val = guarded(s.merge, 120)
            elif op in "CM":
                grp = emb.fresh_group("c" if op == "C" else "m")
                st, val = "ok", None
                for label, (bs, paths) in emb.items.items():
                    srcp, dst = paths[-1], f"{grp}/{label}/data"
                    st1, v1 = guarded(lambda: (s.mc.copy if op == "C" else s.mc.move)(srcp, dst), 60)
                    if rec.check(st1 == "ok", f"c17:op-failed:{drv}:{op}", f"{'copy' if op == 'C' else 'move'} {srcp} -> {dst} of {label} failed: {v1}", dict(c, label=label), FN_COPY):
                        if op == "C":
                            paths.append(dst)
                        else:
                            paths[-1] = dst
            elif op == "U":
                # the packer's flow for a modified file: delete the node, embed the new content at the same path
                st, val = "ok", None
                for label, (bs, paths) in list(emb.items.items()):
                    if label.endswith("~u") or bs == RESERVED:
                        continue
                    p_ = paths[-1]
                    nb = (bs[::-1] + b"\x01v2") if len(bs) % 2 else bs[: len(bs) // 2]  # other bytes; for even lengths also another (maybe zero) length
                    if nb == RESERVED:
                        nb = bs + bs  # (the one value IH5 documents as not storable is not what this step is about)
                    f2 = src / f"{label}~u{step}.bin"
                    f2.write_bytes(nb)

                    def upd():
                        del s.mc[p_]
                        pack_file(s.mc, f2, target=p_)

                    st1, v1 = guarded(upd, 60)
                    if rec.check(st1 == "ok", f"c17:op-failed:{drv}:U", f"delete + re-embed at {p_} of {label} failed: {v1}", dict(c, label=label), FN_PACK):
                        paths.pop()
                        if not paths:
                            del emb.items[label]
                        emb.items[f"{label}~u"] = (nb, [p_])
            elif op == "A":
                # touch every embedded node: one attribute written, one deleted again
                st, val = "ok", None
                for label, (bs, paths) in emb.items.items():
                    for p_ in paths:
                        def touch():
                            s.mc[p_].attrs["note"] = step
                            s.mc[p_].attrs["tmp"] = 1
                            del s.mc[p_].attrs["tmp"]

                        st1, v1 = guarded(touch, 60)
                        rec.check(st1 == "ok", f"c17:op-failed:{drv}:A", f"writing an attribute of {p_} failed: {v1}", dict(c, label=label), [])
            else:
                raise ValueError(op)
            if op in "BRG" and not rec.check(st == "ok", f"c17:op-failed:{drv}:{op}", f"history step {op} failed: {val}", c, []):
                break
            check_all(rec, s, emb, stage, case)
            n += len(emb.items)
        # final: close, reopen read-only
        st, val = guarded(lambda: s.reopen("r"), 60)
        if rec.check(st == "ok", f"c17:op-failed:{drv}:final-r", f"close + reopen read-only failed: {val}", case, []):
            check_all(rec, s, emb, "final-r", case)
            n += len(emb.items)
        return n
    finally:
        s.close()


# ---------------------------------------------------------------------------------------------------------
# the reserved value and its neighbours on the raw IH5 API
# ---------------------------------------------------------------------------------------------------------
SPREAD = (0x00, 0x01, 0x0A, 0x1A, 0x20, 0x41, 0x7E, 0x7F, 0x80, 0x81, 0xC3, 0xF7, 0xFE, 0xFF)


def neighbours(full=True):
    """full=True: all 1-byte values and all 2-byte values containing 0x7f; full=False: all 1-byte values and a spread of
    2-byte values; full=None: only a spread of both; plus a few longer ones."""
    second = range(256) if full else SPREAD
    vals = [bytes([i]) for i in (SPREAD if full is None else range(256))]
    vals += [bytes([0x7F, i]) for i in second] + [bytes([i, 0x7F]) for i in second if i != 0x7F]
    vals += [b"\x7f" * n for n in (3, 4, 8, 64)] + [b"\x7f\x00\x00", b"\x00\x00\x7f"]
    return vals


ROUTES = {
    # route -> (function(rec_obj, name, void_value) performing the store, kind)
    "dataset:setitem": lambda r, k, v: r.__setitem__(k, v),
    "dataset:create_dataset": lambda r, k, v: r.create_dataset(k, data=v),
    "dataset:require_dataset": lambda r, k, v: r.require_dataset(k, data=v),
    "dataset:nested": lambda r, k, v: r.__setitem__(f"grp-{k}/sub/{k}", v),
    "attr:root": lambda r, k, v: r.attrs.__setitem__(k, v),
    "attr:node": lambda r, k, v: r["anchor"].attrs.__setitem__(k, v),
    "dataset:0d-array": lambda r, k, v: r.__setitem__(k, np.array(v)),
    "attr:0d-array": lambda r, k, v: r.attrs.__setitem__(k, np.array(v)),
    "dataset:write-in-place": lambda r, k, v: (r.__setitem__(k, np.void(b"\x00")), r[k].__setitem__((), v)),
}


def run_reserved(rec: Recorder, d: Path, cls, clsname: str, in_patch: bool, full=True):
    """Every route must reject np.void(b'\\x7f') loudly and leave nothing; must accept all neighbours faithfully."""
    where = "patch" if in_patch else "base"
    robj = cls(d / f"resv-{clsname}-{where}", "w")
    try:
        robj["anchor"] = 1
        if in_patch:
            robj.commit_patch()
            robj.create_patch()
        # the reserved value
        for route, fn in ROUTES.items():
            case = {"kind": "reserved", "cls": clsname, "in_patch": in_patch, "route": route}
            key = "r" + route.replace(":", "-")
            before = ih5lib.phys_state(robj)
            view_before = ih5lib.dump_tree(robj)
            st, val = guarded(lambda: fn(robj, key, np.void(RESERVED)))
            after = ih5lib.phys_state(robj)
            rec.case(("reserved", clsname, where, route), nontrivial=True)
            if route == "dataset:write-in-place":
                # the placeholder dataset legitimately exists; only the marker must not get in
                ok_rej = rec.check(st == "err", f"c17:reserved-not-rejected:{route}", f"writing np.void(b'\\x7f') via {route} ({where} container) must raise; got {st} {val!r}; "
                                   f"node visible afterwards: {key in robj.keys()} (a silently stored marker makes the node vanish)", case,
                                   FN_GUARD + ["ih5/overlay.py:IH5Dataset.__setitem__"])
                if ok_rej:
                    rec.check(key in robj.keys() and bytes_of(robj[key][()]) == b"\x00", f"c17:reserved-left-node:{route}", "rejected in-place write changed the value", case, FN_GUARD)
            else:
                rec.check(st == "err" and str(val).startswith("ValueError"), f"c17:reserved-not-rejected:{route}",
                          f"storing np.void(b'\\x7f') via {route} ({where} container) must raise ValueError; got {st} {val!r}; "
                          f"entry visible afterwards: {key in robj.keys() or key in robj.attrs.keys()} (a silently stored marker reads as 'deleted')", case, FN_GUARD)
                if st == "err":  # (if it was not rejected, the alarm above already says so)
                    rec.check(before == after and view_before == ih5lib.dump_tree(robj), f"c17:reserved-left-node:{route}",
                              f"the rejected store via {route} nevertheless changed the container files (something was stored)", case, FN_GUARD)
            # clean up on the raw level (placeholder / whatever a hole left behind) so that later routes start clean
            f = robj.__files__[-1]
            for holder, k in ((f, key), (f.attrs, key)):
                if k in holder:
                    del holder[k]
        # all neighbours: accepted, read back identical (dataset + attribute), also after patch boundary and reopen
        vals = neighbours(full)
        stored = {}
        for i, bs in enumerate(vals):
            if bs == RESERVED:
                continue
            case = {"kind": "neighbour", "cls": clsname, "in_patch": in_patch, "hex": bs.hex()}
            k = f"v{i}"
            st, val = guarded(lambda: robj.__setitem__(f"n{i // 16}/{k}", np.void(bs)))
            st2, val2 = guarded(lambda: robj[f"n{i // 16}/{k}"].attrs.__setitem__("a", np.void(bs)))  # attribute on the node itself
            rec.case(("neighbour", clsname, where, bs.hex()), nontrivial=True)
            if rec.check(st == "ok" and st2 == "ok", "c17:nonreserved-rejected", f"value {bs!r} (not the reserved marker) was refused: {val} / {val2}", case, FN_GUARD):
                stored[k] = (f"n{i // 16}", bs)
        for stage in ("same-patch", "after-boundary", "after-reopen"):
            if stage == "after-boundary":
                robj.commit_patch()
                robj.create_patch()
            elif stage == "after-reopen":
                files = robj.ih5_files
                robj.close()
                robj = cls(files[0].parent / files[0].name.split(".")[0], "r")
            bad = []
            dvals = {g: {k: (ds[()], dict(ds.attrs.items())) for k, ds in robj[g].items()} for g in sorted({g for g, _ in stored.values()})}
            for k, (g, bs) in stored.items():
                if k not in dvals[g] or bytes_of(dvals[g][k][0]) != bs:
                    bad.append(("dataset", bs.hex()))
                if k not in dvals[g] or bytes_of(dvals[g][k][1].get("a")) != bs:
                    bad.append(("attr", bs.hex()))
            rec.check(not bad, f"c17:neighbour-differs:{stage}", f"values near the marker not read back identically ({where}, {stage}): {bad[:5]}",
                      {"kind": "neighbours", "cls": clsname, "in_patch": in_patch}, FN_GUARD + ["ih5/overlay.py:IH5InnerNode._children"])
    finally:
        try:
            robj.close()
        except Exception:  # noqa
            pass


def run_cross_copy(rec: Recorder, d: Path):
    """A b'\\x7f' file embedded in plain HDF5 (legal there) must not slip into IH5 through the interop copy."""
    case = {"kind": "crosscopy"}
    with h5py.File(d / "plain7f.h5", "w") as f:
        f["x"] = np.void(RESERVED)
        f["g/y"] = np.void(RESERVED)
        f["ok"] = np.void(b"\x7f\x00")
        robj = IH5Record(d / "cross", "w")
        try:
            st, val = guarded(lambda: h5_copy_from_to(f["ok"], robj["/"], "ok"))
            rec.check(st == "ok" and bytes_of(robj["ok"][()]) == b"\x7f\x00", "c17:crosscopy:neighbour", f"copy of b'\\x7f\\x00' from HDF5 to IH5 failed: {val}", case, FN_COPY)
            before = ih5lib.phys_state(robj)
            st, val = guarded(lambda: h5_copy_from_to(f["x"], robj["/"], "x"))
            rec.check(st == "err", "c17:reserved-not-rejected:h5_copy_from_to", f"copying a dataset with value b'\\x7f' from HDF5 into IH5 must raise; got {st} {val}", case, FN_COPY + FN_GUARD)
            rec.check(before == ih5lib.phys_state(robj), "c17:reserved-left-node:h5_copy_from_to", "rejected copy of the reserved value changed the target", case, FN_COPY)
            rec.case(("crosscopy",), nontrivial=True)
            # a NODE of another container as copy source (CopySource includes h5py nodes and nodes of other records); the destination record
            # has nodes at the same paths with other bytes: the copy carries the bytes of the node that was passed
            f["data/raw.bin"] = np.void(b"\x00\x00A-run\x00\x7f\x00\xff\x00\x00")
            f["data/empty.bin"] = h5py.Empty("S1")
            robj["data/raw.bin"] = np.void(b"B-run: something completely different\x00")
            robj["data/empty.bin"] = np.void(b"not empty here")
            other = IH5Record(d / "cross-src", "w")
            try:
                other["data/raw.bin"] = np.void(b"\x00C-run\x00\x00")
                other.commit_patch()
                other.create_patch()
                other["data/more.bin"] = np.void(b"\x01\x00")
                want = {"from_h5/raw.bin": b"\x00\x00A-run\x00\x7f\x00\xff\x00\x00", "from_h5/empty.bin": b"", "h5_raw.bin": b"\x00\x00A-run\x00\x7f\x00\xff\x00\x00",
                        "from_ih5/raw.bin": b"\x00C-run\x00\x00", "from_ih5/more.bin": b"\x01\x00", "ih5_raw.bin": b"\x00C-run\x00\x00"}
                for src, dst in ((f["data"], "from_h5"), (f["data/raw.bin"], "h5_raw.bin"), (other["data"], "from_ih5"), (other["data/raw.bin"], "ih5_raw.bin")):
                    st, val = guarded(lambda: robj.copy(src, dst))
                    rec.check(st == "ok", "c17:crosscopy:node-source-failed", f"copy of a node of another container to {dst} failed: {val}", case, FN_COPY + ["ih5/overlay.py:IH5Group.copy"])
                robj.commit_patch()
                for k, bs in want.items():
                    st, val = guarded(lambda: bytes_of(robj[k][()]))
                    rec.check(st == "ok" and val == bs, "c17:crosscopy:node-source-bytes", f"{k} copied from a node of another container reads {val!r}, the source node holds {bs!r}", case, FN_COPY + ["ih5/overlay.py:IH5Group.copy"])
                rec.check(bytes_of(robj["data/raw.bin"][()]) == b"B-run: something completely different\x00", "c17:crosscopy:destination-own-node-changed", "the destination's own node changed", case, FN_COPY)
                rec.case(("crosscopy-node-source",), nontrivial=True)
            finally:
                other.close()
        finally:
            robj.close()


# ---------------------------------------------------------------------------------------------------------
# util.hashsums vs hashlib
# ---------------------------------------------------------------------------------------------------------
class Dribble(io.RawIOBase):
    """Binary stream that hands out fewer bytes than asked for (legal for BinaryIO.read)."""

    def __init__(self, data: bytes, step: int):
        self.data, self.pos, self.step = data, 0, step

    def read(self, n=-1):
        if n is None or n < 0:
            n = len(self.data)
        n = max(1, min(n, self.step))
        chunk = self.data[self.pos:self.pos + n]
        self.pos += len(chunk)
        return chunk


def run_hashsums(rec: Recorder, d: Path, fam):
    lens = set()
    for alg, blk in (("sha256", 64), ("sha512", 128)):
        for m in (1, 2, 3, 64, 1024):
            lens |= {m * blk - 1, m * blk, m * blk + 1}
    extra = [(f"blk{n}", pattern(n, 13, 5)) for n in sorted(lens | {0})]
    f = d / "hs.bin"
    for label, bs in list(fam) + extra:
        for alg in ("sha256", "sha512"):
            want = hashlib.new(alg, bs).hexdigest()
            case = {"kind": "hash", "label": label, "alg": alg, "hex": bs.hex() if len(bs) <= 256 else None, "len": len(bs)}
            rec.case(("hash", alg, digest(bs.hex()) if len(bs) < 5000 else (label, len(bs))), nontrivial=True)
            rec.check(HS.hashsum(bs, alg) == want, f"c17:hashsum:bytes:{alg}", f"hashsum(bytes[{len(bs)}], {alg}) != hashlib", case, ["util/hashsums.py:hashsum"])
            rec.check(HS.hashsum(io.BytesIO(bs), alg) == want, f"c17:hashsum:stream:{alg}", f"hashsum(BytesIO[{len(bs)}], {alg}) != hashlib", case, ["util/hashsums.py:hashsum"])
            rec.check(HS.qualified_hashsum(bs, alg) == f"{alg}:{want}", f"c17:hashsum:qualified:{alg}", "qualified_hashsum != '<alg>:<hex>'", case, ["util/hashsums.py:qualified_hashsum"])
            if len(bs) <= 8300:
                rec.check(HS.hashsum(Dribble(bs, 7), alg) == want, f"c17:hashsum:short-reads:{alg}", "hashsum over a stream with short reads != hashlib", case, ["util/hashsums.py:hashsum"])
            if len(bs) >= 3:  # from the current position
                st = io.BytesIO(bs)
                st.seek(len(bs) // 3)
                rec.check(HS.hashsum(st, alg) == hashlib.new(alg, bs[len(bs) // 3:]).hexdigest(), f"c17:hashsum:from-position:{alg}",
                          "hashsum of a stream positioned at k != hash of data[k:]", case, ["util/hashsums.py:hashsum"])
        f.write_bytes(bs)
        want = hashlib.sha256(bs).hexdigest()
        case = {"kind": "hash", "label": label, "alg": "file", "hex": bs.hex() if len(bs) <= 256 else None, "len": len(bs)}
        rec.check(HS.file_hashsum(f) == "sha256:" + want, "c17:hashsum:file:sha256", "file_hashsum(path) != 'sha256:' + hashlib", case, ["util/hashsums.py:file_hashsum"])
        rec.check(HS.file_hashsum(f, "sha512") == "sha512:" + hashlib.sha512(bs).hexdigest(), "c17:hashsum:file:sha512", "file_hashsum(path, sha512) != hashlib", case, ["util/hashsums.py:file_hashsum"])
    for alg in ("md5", "sha1", "", "SHA256"):
        st, val = guarded(lambda: HS.hashsum(b"abc", alg))
        rec.check(st == "err" and str(val).startswith("ValueError"), "c17:hashsum:unsupported-alg", f"hashsum(.., {alg!r}) must raise ValueError; got {st} {val}", {"kind": "hashalg", "alg": alg}, ["util/hashsums.py:hashsum"])


# ---------------------------------------------------------------------------------------------------------
# driver
# ---------------------------------------------------------------------------------------------------------
CANONICAL = {"h5": "CBCMR", "ih5": "CBCMBRGR", "mf": "CBCMBRGR"}
BATCH = 8


def alphabet(drv):
    return "CMR" if drv == "h5" else "BCMRG"


def harvest_all(rec: Recorder, d: Path, fam):
    """Harvest every byte string once with the real harvester (contract: size and SHA-256 of the source)."""
    md = {}
    sd = d / "harvest-src"
    sd.mkdir()
    for label, bs in fam:
        f = sd / f"{label}.bin"
        f.write_bytes(bs)
        case = {"kind": "harvest", "label": label, "len": len(bs), "hex": bs.hex() if len(bs) <= 256 else None}
        st, m = guarded(lambda: harvest_meta(f), 60)
        rec.case(("harvest", label, len(bs)), nontrivial=True)
        if not rec.check(st == "ok", "c17:harvest-failed", f"harvesting core.file metadata of {label} failed: {m}", case, FN_META):
            continue
        want = hashlib.sha256(bs).hexdigest()
        rec.check(m.contentSize == len(bs), "c17:harvest:size", f"{label}: contentSize {m.contentSize} != {len(bs)}", case, FN_META)
        rec.check(str(m.sha256) in (want, "sha256:" + want), "c17:harvest:sha256", f"{label}: sha256 {m.sha256} != {want}", case, FN_META)
        md[label] = m
    return md


def run(tier: str, seed: int) -> dict:
    rec = Recorder("C17", "c17")
    t0 = time.time()
    thorough = tier == "thorough"
    limit = 560 if thorough else 55
    fam = byte_family(tier, seed)
    fam_all = fam + [("reserved7f", RESERVED)]
    by_label = dict(fam_all)
    reached = {"bytes": len(fam_all), "canonical_batches": 0, "short_hist": 0, "allbytes_hist": 0, "single": 0, "random_hist": 0, "reads": 0}
    cut = []
    L = 3 if thorough else 2
    drivers = ("h5", "ih5", "mf") if thorough else ("h5", "ih5")
    exhaustive = True
    if pack_file is None:
        rec.notes.append(SCHEMA_NOTE)
    with tmpdir() as d:
        n_dir = itertools.count()

        def left(frac):
            return budget_left(t0, limit * frac)

        def hist(drv, fam_, history, md=None):
            n = run_history(rec, d / f"h{next(n_dir)}", drv, fam_, history, case_extra={"seed": seed, "preharvested": md is not None}, md=md)
            reached["reads"] += n
            for label, bs in fam_:
                rec.case(("emb", drv, history, label), nontrivial=True,
                         sample={"driver": drv, "history": history, "label": label, "len": len(bs)} if (len(rec.samples) < 6 and next(n_dir) % 7 == 0) else None)

        def batches(fam_):
            big = [x for x in fam_ if len(x[1]) > 100000]
            small = [x for x in fam_ if len(x[1]) <= 100000]
            return [small[i:i + BATCH] for i in range(0, len(small), BATCH)] + [[x] for x in big]

        # ---- util.hashsums ------------------------------------------------------------------------------
        run_hashsums(rec, d, fam_all)
        # ---- reserved value & neighbours on the raw IH5 API ----------------------------------------------
        for clsname in (("ih5", "mf") if thorough else ("ih5",)):
            for in_patch in (False, True):
                run_reserved(rec, d, DRIVERS[clsname], clsname, in_patch, full=(clsname == "ih5") if thorough else (False if in_patch else None))
        run_cross_copy(rec, d)
        if pack_file is not None:
            md = harvest_all(rec, d, fam_all)
            # ---- all byte strings, canonical long history, every driver; pack_file harvests itself -------
            for drv in drivers:
                for b in batches(fam_all):
                    if not left(0.62):
                        cut.append(f"canonical histories cut by the time budget (driver {drv})")
                        exhaustive = False
                        break
                    # quick: pack_file's own harvesting is exercised on h5 for every byte string; IH5 gets the same metadata pre-harvested
                    hist(drv, b, CANONICAL[drv], md=None if (thorough or drv == "h5") else md)
                    reached["canonical_batches"] += 1
            # ---- files modified later: re-embedded at the same path in one patch, touched (attributes) in a later one ----------
            upd_fam = [(lb, by_label[lb]) for lb in QUICK_SMALL]
            for drv in drivers:
                for h in (("BUBAR", "UBABGR", "BUABUR", "BBBBBBBBBBUBR") if drv != "h5" else ("UAR",)):  # (the last: re-embedded in the 11th container, reopened by name)
                    hist(drv, upd_fam, h, md=None)
                    reached["update_hist"] = reached.get("update_hist", 0) + 1
            # ---- all histories up to length L over the alphabet for a few representative byte strings --
            small = [(lb, by_label[lb]) for lb in QUICK_SMALL] + [("reserved7f", RESERVED)]
            done_short = True
            for n in range(1, L + 1):
                for drv in drivers:
                    if drv == "mf" and n > 1:
                        continue  # IH5MFRecord differs from IH5Record only by the manifest: lengths 2, 3 on h5 and ih5 only
                    for h in itertools.product(alphabet(drv), repeat=n):
                        if not left(0.58 if thorough else 0.97):
                            done_short = False
                            break
                        hist(drv, small, "".join(h), md=md)
                        reached["short_hist"] += 1
                    if not done_short:
                        break
                if not done_short:
                    cut.append(f"short histories cut by the time budget at length {n}, driver {drv}")
                    exhaustive = False
                    break
            if thorough:
                # ---- all byte strings x all histories of length <= 2 (batched per container), h5 and ih5 ----
                done2 = True
                base_labels = {lb for lb, _ in byte_family("quick", seed)} | {"reserved7f"}
                for drv in ("h5", "ih5"):
                    for n in (1, 2):
                        # IH5 length 2: the 40 strings of the base family (no random / MiB-sized ones), else all
                        fam_n = [x for x in fam_all if x[0] in base_labels] if (drv == "ih5" and n == 2) else fam_all
                        for h in itertools.product(alphabet(drv), repeat=n):
                            for b in batches(fam_n):
                                if not left(0.90):
                                    done2 = False
                                    break
                                hist(drv, b, "".join(h), md=md)
                            if done2:
                                reached["allbytes_hist"] += 1
                if not done2:
                    cut.append("all-bytes x |history|<=2 cut by the time budget")
                    exhaustive = False
                # ---- every byte string alone in its own container, pack_file harvesting ---------------------
                for label, bs in fam_all:
                    if not left(0.96):
                        cut.append("single-file containers cut by the time budget")
                        break
                    hist("ih5", [(label, bs)], "BCMBRG")
                    reached["single"] += 1
                # ---- random longer histories --------------------------------------------------------------
                r = rng(seed, "c17-hist")
                while left(0.99) and reached["random_hist"] < 60:
                    drv = r.choice(drivers)
                    h = "".join(r.choice(alphabet(drv)) for _ in range(r.randint(4, 7)))
                    sub = r.sample([x for x in fam_all if len(x[1]) < 100000], 6)
                    hist(drv, sub, h, md=md)
                    reached["random_hist"] += 1
        else:
            exhaustive = False
    rec.notes += cut
    return rec.result(
        rule="case = (byte string, driver, container history over B=patch boundary/flush, C=copy, M=move, R=close+reopen, G=merge) -- bytes and core.file "
             "metadata are re-read after every step; plus (route, container kind) for the reserved value, every 1-byte and 0x7f-containing 2-byte value "
             "as neighbours, (byte string) for the harvester and (byte string, algorithm) for util.hashsums",
        bound=f"{reached['bytes']} byte strings (lengths 0..{max(len(b) for _, b in fam_all)}); drivers {','.join(drivers)}; canonical histories "
              f"{ {k: v for k, v in CANONICAL.items() if k in drivers} } on all byte strings (containers of <= {BATCH} files): {reached['canonical_batches']} containers; "
              f"all histories of length <= {L}{' (mf: <= 1)' if thorough else ''} over {{C,M,R}} (h5) / {{B,C,M,R,G}} (IH5) on {len(QUICK_SMALL) + 1} representative byte strings: {reached['short_hist']} containers; {reached.get('update_hist', 0)} update histories (U = delete + re-embed other content at the same path, A = attribute writes on every embedded node; BUBAR, UBABGR, BUABUR and — more than ten containers, reopened by name — BBBBBBBBBBUBR on IH5, UAR on h5)"
              + (f"; all histories of length <= 2 on all byte strings (h5; ih5: length 2 on the 40 base-family strings): {reached['allbytes_hist']} histories; single-file containers: {reached['single']}; "
                 f"random histories of length 4..7: {reached['random_hist']}" if thorough else "")
              + f"; {reached['reads']} (byte string, step) read-backs; reserved value: {len(ROUTES)} routes x base/patch container; {len(neighbours(thorough)) - 1} neighbour values (1-byte: all 255; 2-byte with 0x7f: {"all 511" if thorough else "spread of 27"})",
        exhaustive=exhaustive,
        assumptions=["metadata of copies is judged only where present (presence is C06's concern)", "sha256 field accepted as bare hex or 'sha256:<hex>' (the pinned schema stores bare hex)",
                     "enumerated short histories hand pack_file the metadata harvested once per byte string by the real harvester; canonical/single histories let pack_file harvest"],
        trusted=["T8 numpy/h5py opaque (np.void) fidelity is what is being validated", "hashlib", "libmagic only supplies encodingFormat (not judged)"],
        extra={"reached": reached},
    )


# ---------------------------------------------------------------------------------------------------------
def replay(case: dict):
    rec = Recorder("C17", "c17", max_violations=50)
    kind = case.get("kind")
    seed = case.get("seed", 0)
    with tmpdir() as d:
        if kind in ("hist", "harvest"):
            fam = dict(byte_family("thorough", seed) + [("reserved7f", RESERVED)])
            if kind == "harvest":
                harvest_all(rec, d, [(case["label"], fam[case["label"]])])
            else:
                labels = case["labels"]
                md = harvest_all(Recorder("C17", "c17"), d, [(lb, fam[lb]) for lb in labels]) if case.get("preharvested") else None
                if case.get("label") in labels:  # the failing byte string alone first
                    run_history(rec, d / "one", case["driver"], [(case["label"], fam[case["label"]])], case["history"], md=md)
                if not rec.violations:
                    run_history(rec, d / "all", case["driver"], [(lb, fam[lb]) for lb in labels], case["history"], md=md)
        elif kind == "reserved":
            run_reserved(rec, d, DRIVERS[case["cls"]], case["cls"], case["in_patch"], full=None)
            rec.violations = [v for v in rec.violations if v["replay"]["case"].get("route") == case["route"]]
        elif kind in ("neighbour", "neighbours"):
            run_reserved(rec, d, DRIVERS[case["cls"]], case["cls"], case["in_patch"])
            rec.violations = [v for v in rec.violations if v["replay"]["case"].get("kind", "").startswith("neighbour")]
        elif kind == "crosscopy":
            run_cross_copy(rec, d)
        elif kind in ("hash", "hashalg"):
            run_hashsums(rec, d, byte_family("thorough", seed) + [("reserved7f", RESERVED)])
        else:
            return False, f"unknown case kind {kind}"
    if rec.violations:
        return True, " | ".join(f"{v['signature']}: {v['what']}" for v in rec.violations[:3])
    return False, f"no violation in {rec.evaluations} contract evaluations"
