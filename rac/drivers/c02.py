"""C02 -- committed IH5 containers (and their manifest sidecars) are never modified again.

Contract evaluated on the real code (ghost state kept by the driver, observed from disk only):
  committed : Path -> sha256     every *.ih5 whose on-disk user block carries a hashsum, plus its *.ih5mf.json
  FRAME     after EVERY API call: every path in old(committed) still exists and has the same sha256
  SNAPSHOT  at each commit of the record the then-committed file set S_c and the live tree dump D_c are remembered
            and S_c is copied to a side directory;
            (i)  the side copy opens (mode 'r', explicit file list) and dumps to D_c
            (ii) after later API calls the ORIGINAL files named in S_c (a subset of the directory) still open
                 as a valid record and dump to D_c.
Mode 'w' is outside the property and never used.
"""
from __future__ import annotations

import hashlib
import time
from pathlib import Path

from rac import base
from rac.base import Recorder, budget_left, digest, tmpdir
from rac import lifecycle as LC
from rac.lifecycle import HISTORIES, World, is_committed, mf_path, sha

PID, DRV = "C02", "c02"
FNS = ["ih5/record.py:IH5Record", "ih5/manifest.py:IH5MFRecord"]


def _stepname(st):
    if st is None:
        return "build"
    if st[0] == "open":
        how = st[2] if isinstance(st[2], str) else "perm"
        return f"open:{st[1]}:{how}"
    if st[0] == "openx":
        return f"openx:{st[1]}"
    if st[0] == "close":
        return f"close:{int(bool(st[1]))}"
    if st[0] == "data":
        return "data:" + (st[1][0] if len(st) > 1 else "")
    return st[0]


_INIT_DUMPS = {}  # (cls_key, hidx) -> live dumps after each commit of the initial history (measured once per run)


class Session:
    """One world + ghost state + contract checks."""

    def __init__(self, R: Recorder, top: Path, cls_key: str, hidx: int, pool=None):
        self.R, self.cls_key, self.hidx = R, cls_key, hidx
        self.w = World(top / "w", cls_key, "foo", queue=pool or LC.data_queue(hidx))
        self.side = top / "side"
        self.committed = {}  # Path -> sha256
        self.snaps = []  # {files, dump, side, at}
        self.main_committed = ()
        self.nontrivial = False
        self.statuses = []
        self.quiet = False  # True while replaying an already-checked prefix: track ghost state, skip the expensive re-open checks
        w = self.w
        cached = _INIT_DUMPS.get((cls_key, hidx))
        box = []

        def on_commit(i, rec, dmp):
            w.rec = rec
            w.last_dump = dmp if dmp is not None else cached[i]
            box.append(w.last_dump)
            self.frame(None)
            self.absorb(None, known_dump=w.last_dump, check=cached is None)

        rec, _ = LC.build_segments(w.cls, w.path, HISTORIES[hidx], True, on_commit, want_dumps=cached is None)
        if cached is None:
            _INIT_DUMPS[(cls_key, hidx)] = box
        w.rec, w.open_mode = rec, "x"

    def case(self):
        return {"kind": "seq", "cls": self.cls_key, "hist": self.hidx, "seq": list(self.w.trace)}

    # ---- contract clauses
    def frame(self, after):
        sn = _stepname(after)
        for p, h in list(self.committed.items()):
            kind = "manifest" if p.name.endswith(LC.MF_EXT) else "container"
            if not p.is_file():
                self.R.violated(f"c02:{self.cls_key}:frame:{kind}-disappeared:after:{sn}", f"committed file {p.name} disappeared after {sn}", self.case(), FNS)
                del self.committed[p]  # report the first call that removed it only
                continue
            now = sha(p)
            if not self.R.check(now == h, f"c02:{self.cls_key}:frame:{kind}-modified:after:{sn}", f"committed file {p.name} changed bytes after {sn}", self.case(), FNS):
                self.committed[p] = now  # keep watching the new content: later calls are judged on their own
        if self.committed:
            self.nontrivial = True

    def absorb(self, after, known_dump=None, check=True):
        w = self.w
        for p in sorted(w.d.iterdir()):
            if p.name.endswith(".ih5") and p not in self.committed and is_committed(p):
                self.committed[p] = sha(p)
        for p in list(self.committed):
            m = mf_path(p)
            if p.name.endswith(".ih5") and m.is_file() and m not in self.committed:
                self.committed[m] = sha(m)
        main = tuple(p for p in w.files() if p in self.committed)
        if main != self.main_committed and main:
            self.main_committed = main
            if known_dump is not None:
                dump = known_dump
            else:
                dump = w.live_dump() if w.rec is not None else w.last_dump
            names = list(main) + [mf_path(p) for p in main if mf_path(p).is_file()]
            sd = self.side / f"snap{len(self.snaps)}"
            cp = LC.copy_files(names, sd)
            snap = {"files": list(main), "dump": dump, "side": [q for q in cp if q.name.endswith(".ih5")], "at": _stepname(after)}
            self.snaps.append(snap)
            if check and not self.quiet:
                self._check_snap(snap, "side", after)

    def _check_snap(self, snap, which, after):
        if snap.get("broken-" + which):
            return  # already reported at the first call after which it failed
        paths = snap["side"] if which == "side" else snap["files"]
        sn = _stepname(after)
        d, _, err = LC.open_dump(self.w.cls, list(paths), "r")
        n = len(paths)
        self.R.check(err is None, f"c02:{self.cls_key}:{which}-set-of-{n}:open-fails:after:{sn}", f"file set committed at '{snap['at']}' ({[p.name for p in paths]}) no longer opens after {sn}: {err}", self.case(), FNS)
        if err is None:
            ok = self.R.check(d == snap["dump"], f"c02:{self.cls_key}:{which}-set-of-{n}:tree-differs:after:{sn}", f"file set committed at '{snap['at']}' shows a different tree after {sn}", self.case(), FNS)
        if err is not None or not ok:
            snap["broken-" + which] = True

    def check_snapshots(self, after, side=False):
        for snap in self.snaps:
            self._check_snap(snap, "orig", after)
            if side:
                self._check_snap(snap, "side", after)

    # ---- one API call + its checks
    def do(self, st, full=True, side=False):
        w = self.w
        if st[0] == "close" and w.rec is not None:
            try:
                w.live_dump()  # the state a committing close() has to preserve (reading is an API call too)
            except BaseException as e:  # noqa
                if isinstance(e, (KeyboardInterrupt, SystemExit)):
                    raise
            self.frame(["read"])
        r = w.step(st)
        self.statuses.append(r)
        self.frame(st)
        self.absorb(st)
        if full and not self.quiet:
            self.check_snapshots(st, side=side)
        return r

    def newest_uncommitted(self):
        fs = self.w.files()
        return bool(fs) and not is_committed(fs[-1])

    def state_key(self):
        w = self.w
        fs = []
        for p in sorted(w.d.iterdir()):
            if p.name.endswith(".ih5"):
                raw = p.read_bytes()
                fs.append((p.name, is_committed(p), hashlib.sha256(raw[LC.UB_SIZE :]).hexdigest()[:12]))
        mode = None if w.rec is None else ("r" if w.rec.mode == "r" else "rw")
        live = None
        if w.rec is not None and self.newest_uncommitted():
            # an open writable container may hold unflushed data: the live tree is part of the state
            try:
                live = w.live_dump()
            except BaseException as e:  # noqa
                if isinstance(e, (KeyboardInterrupt, SystemExit)):
                    raise
                live = "dump-failed"
            self.frame(["read"])
        return digest([mode, fs, w.qi, w.n_merge, w.n_stub, w.n_stubself, live])

    def close(self):
        self.w.shutdown()


def alphabet(cls_key):
    steps = LC.LIVE_STEPS_C02 + LC.OPEN_STEPS_C02
    if cls_key != "mf":
        steps = [s for s in steps if s[0] not in ("stub", "stubself")]
    return steps


def _fresh(R, top_ctx, cls_key, hidx, prefix):
    """New session with `prefix` replayed quietly (each prefix was fully checked as a leaf one BFS level earlier)."""
    S = Session(R, top_ctx, cls_key, hidx)
    S.quiet = True
    for st in prefix:
        S.do(st, full=False)
    S.quiet = False
    return S


def bfs(R, cls_key, hidx, max_depth, t_end, stats):
    with tmpdir() as top:
        S = Session(R, top, cls_key, hidx)
        S.check_snapshots(None, side=True)
        seen = {S.state_key()}
        S.close()
    frontier = [[]]
    reached = 0
    complete = True
    n_tmp = 0
    for depth in range(1, max_depth + 1):
        nxt = []
        for seq in frontier:
            S = None
            top_cm = None
            try:
                for st in alphabet(cls_key):
                    if time.time() > t_end:
                        complete = False
                        break
                    if S is None:
                        top_cm = tmpdir()
                        top = top_cm.__enter__()
                        S = _fresh(R, top, cls_key, hidx, seq)
                        parent_key = S.state_key()
                    if not S.w.applicable(st):
                        continue
                    r = S.do(st, full=True)
                    key = S.state_key()
                    stats["seqs"] += 1
                    stats["ok" if r[0] == "ok" else "refused"] += 1
                    tr = list(S.w.trace)
                    R.case((cls_key, hidx, digest(tr)), nontrivial=S.nontrivial,
                           sample={"cls": cls_key, "hist": hidx, "seq": tr, "statuses": [s[0] for s in S.statuses]} if stats["seqs"] % 197 == 0 else None)  # fmt: skip
                    if key not in seen:
                        seen.add(key)
                        nxt.append(seq + [st])
                    if key != parent_key:
                        # world moved on: throw it away, rebuild the parent state for the next candidate step
                        S.close()
                        top_cm.__exit__(None, None, None)
                        S, top_cm = None, None
                    # else: the step was refused / had no effect -> same abstract state, keep going in this world
                    #       (the recorded trace contains the no-effect steps that really ran)
            finally:
                if S is not None:
                    S.close()
                if top_cm is not None:
                    top_cm.__exit__(None, None, None)
            if not complete:
                break
        if not complete:
            break
        reached = depth
        frontier = nxt
        if not frontier:
            break
    stats["states"] += len(seen)
    return reached, complete


def random_walk(R, cls_key, hidx, length, rnd):
    """One random deep walk with full checks at every step; data ops drawn at random from a pool."""
    pool = LC.data_queue(hidx)
    with tmpdir() as top:
        S = Session(R, top, cls_key, hidx, pool=pool)
        n = 0
        try:
            for _ in range(length):
                cands = [s for s in alphabet(cls_key) + [["openx", "r"], ["openx", "r+"], ["openx", "a"]] if S.w.applicable(s)]
                st = rnd.choice(cands)
                if st[0] == "data":
                    st = ["data", rnd.choice(pool)]
                S.do(st, full=True)
                n += 1
            S.check_snapshots(["end"], side=True)
        finally:
            S.close()
        R.case((cls_key, hidx, "walk", digest(S.w.trace)), nontrivial=S.nontrivial)
        return n


def run(tier: str, seed: int) -> dict:
    R = Recorder(PID, DRV)
    t0 = time.time()
    stats = {"seqs": 0, "ok": 0, "refused": 0, "states": 0}
    if tier == "quick":
        plan = [("ih5", 0, 4), ("mf", 0, 4), ("ih5", 1, 4), ("mf", 1, 4)]
        total, walks_budget = 70.0, 0.0
    else:
        # depth-4 scenarios first (equal shares), the depth-6 ones split what is left
        plan = [(c, h, 4) for h in (2, 3, 4, 5, 6, 7, 8) for c in ("ih5", "mf")] + [(c, h, 6) for h in (0, 1) for c in ("ih5", "mf")]
        total, walks_budget = 500.0, 60.0
    bounds = []
    exhaustive = True
    remaining = list(plan)
    while remaining:
        cls_key, hidx, depth = remaining.pop(0)
        share = max(2.0, (t0 + total - time.time()) / (len(remaining) + 1))
        if tier != "quick" and depth <= 4:
            share = min(share, 18.0)
        reached, complete = bfs(R, cls_key, hidx, depth, time.time() + share, stats)
        exhaustive &= complete
        bounds.append(f"{cls_key}/H{hidx}({len(HISTORIES[hidx])} containers): all sequences of <= {reached} steps" + ("" if complete else f" (budget hit inside depth {reached + 1}; wanted {depth})"))
    nwalk = wsteps = 0
    if walks_budget:
        rnd = base.rng(seed, "c02-walks")
        tw = time.time()
        while budget_left(tw, walks_budget):
            cls_key = rnd.choice(["ih5", "mf"])
            hidx = rnd.randrange(len(HISTORIES))
            wsteps += random_walk(R, cls_key, hidx, rnd.randint(8, 20), rnd)
            nwalk += 1
    R.notes.append(f"lifecycle sequences explored: {stats['seqs']} (last step ok: {stats['ok']}, refused with an exception: {stats['refused']}); distinct abstract disk/handle states: {stats['states']}; random walks: {nwalk} ({wsteps} steps)")
    return R.result(
        rule="a case = (record class, initial committed history H_i of the fixed family, lifecycle sequence after the first commits) with alphabet "
        "{read, create_patch, data op, discard_patch, commit_patch, merge_files(new name), merge_files(own name), close(commit), close(no commit), create_stub, "
        "open r|r+|a by name, open r|r+|a by explicit (reversed/sorted) file list; random walks also: open by name with the other record class}; sequences enumerated breadth-first, a sequence is extended only if it reached a new "
        "abstract state (handle mode, per-file committed flag + payload hash, queue pointer, live tree of an open patch); distinct = distinct resolved step traces; "
        "non-trivial = at least one committed file was under watch during the call",
        bound="exhaustive BFS: " + "; ".join(bounds) + (f"; plus {nwalk} seeded random walks of 8-20 steps ({wsteps} steps)" if nwalk else ""),
        exhaustive=exhaustive,
        assumptions=[
            "a file counts as committed iff its on-disk user block (parsed by the driver's own parser) carries a non-null hdf5_hashsum; a manifest is committed with its container",
            "mode 'w' is excluded by the property and not exercised; the user-block/manifest rewrite of the merge target happens inside the single API call merge_files and is not observable at call boundaries",
            "the state 'at a commit' is the live tree dump taken through the public protocol right after that commit (right before close(), when close commits)",
            "BFS prefixes are replayed without the re-open checks (they ran when the prefix was a leaf one level earlier); frame hashes are evaluated at every step of every replay",
        ],
        trusted=["sha256 collision freedom", "the driver's own user-block parser (rac/lifecycle.py:parse_ublock_bytes)"],
    )


def replay(case: dict):
    R = Recorder(PID, DRV)
    with tmpdir() as top:
        S = Session(R, top, case["cls"], case["hist"])
        try:
            S.check_snapshots(None, side=True)
            for st in case["seq"]:
                if not S.w.applicable(st):
                    return False, f"step {st} not applicable on this tree"
                S.do(st, full=True, side=True)
        finally:
            S.close()
    if R.violations:
        v = R.violations[0]
        return True, f"{v['signature']}: {v['what']}"
    return False, f"no C02 contract failed on {len(case['seq'])} steps ({R.evaluations} evaluations)"
