"""C04 -- only coherent, untampered file sets open as a record.

Contract (from the property statement): a file set opens  <=>  it is one base plus a gap-free chain of patches of the
same record whose committed payloads (bytes from offset 1024 on) are byte-for-byte what was committed (+ for IH5MFRecord:
the manifest of the newest container exists and is byte-for-byte what was committed).

For valid records produced by the fixed history family (1-4 containers, IH5Record and IH5MFRecord, newest committed or not)
the driver applies EVERY single corruption of the property's list to a working copy and opens the set (explicit file list,
mode 'r') with the real code:
  must raise : payload byte flip in a committed container | truncation | extension | removal of base / middle element |
               substitution by the same-index container of another record | substitution by a fork's container (not the newest) |
               an added foreign / forked / duplicated container | edited / truncated / extended / missing / swapped manifest
  must open  : the untouched set (any order), and the set without its newest patch  -- with the right tree (reference tree),
               which guards against an always-raise oracle.
Bytes inside the 1024-byte user block are not "payload" and are not claimed; an uncommitted newest container has no hash
and is excluded from payload corruptions.
"""
from __future__ import annotations

import os
import shutil
import time
from pathlib import Path

from rac import base
from rac.base import Recorder, digest, tmpdir
from rac import lifecycle as LC
from rac.ih5lib import apply_op
from rac.lifecycle import CLASSES, HISTORIES, containers_named, flat_ops, is_committed, mf_path, ref_dump, try_open

PID, DRV = "C04", "c04"
UB = LC.UB_SIZE
FN_OPEN = ["ih5/record.py:IH5Record._open", "ih5/record.py:IH5Record._check_ublock"]
FN_MF = ["ih5/manifest.py:IH5MFRecord._open"]
FN_HASH = ["ih5/record.py:hashsum_file", "util/hashsums.py:hashsum"]


def _build(cls, d: Path, segs, commit_last=True, name="foo"):
    d.mkdir(parents=True, exist_ok=True)
    rec, _ = LC.build_segments(cls, d / name, segs, commit_last=commit_last, want_dumps=False)
    rec.close(commit=False)
    return containers_named(d, name)


class Ctx:
    def __init__(self, top: Path, cls_key: str, hidx: int, commit_last: bool):
        self.cls_key, self.cls, self.hidx, self.commit_last = cls_key, CLASSES[cls_key], hidx, commit_last
        self.segs = HISTORIES[hidx]
        self.n = len(self.segs)
        orig = _build(self.cls, top / "orig", self.segs, commit_last)
        self.names = [p.name for p in orig]
        self.foreign = _build(self.cls, top / "foreign", self.segs, True)  # same history => same shape, other uuids
        other = HISTORIES[(hidx + 3) % len(HISTORIES)]
        self.foreign2 = _build(self.cls, top / "foreign2", other, True)
        # forks diverging at index j: share containers 0..j-1, own independently created patch j
        self.forks = {}
        for j in range(1, self.n):
            fd = top / f"fork{j}"
            fd.mkdir()
            for p in orig[:j]:
                shutil.copyfile(p, fd / p.name)
                if mf_path(p).is_file():
                    shutil.copyfile(mf_path(p), fd / mf_path(p).name)
            r = self.cls(fd / "foo", "r+")
            apply_op(r, ["set", f"forked/x{j}", j], is_ih5=True)
            r.close()
            self.forks[j] = containers_named(fd, "foo")[j]
        # working copy + pristine bytes
        self.work = top / "work"
        self.work.mkdir()
        self.pristine = {}
        for p in sorted((top / "orig").iterdir()):
            self.pristine[p.name] = p.read_bytes()
            (self.work / p.name).write_bytes(self.pristine[p.name])
        self.paths = [self.work / n for n in self.names]
        self.committed = [is_committed(p) for p in self.paths]
        self.dirty = set()
        self.expect_full = ref_dump(flat_ops(self.segs))
        self.expect_prev = ref_dump(flat_ops(self.segs[:-1])) if self.n > 1 else None

    def reset(self):
        for n in list(self.dirty):
            (self.work / n).write_bytes(self.pristine[n]) if n in self.pristine else None
        for p in list(self.work.iterdir()):
            if p.name not in self.pristine:
                p.unlink()
        for n in self.pristine:
            if not (self.work / n).exists():
                (self.work / n).write_bytes(self.pristine[n])
        self.dirty.clear()

    def pos(self, i):
        return "base" if i == 0 else ("newest" if i == self.n - 1 else "middle")

    def case(self, corr):
        return {"cls": self.cls_key, "hist": self.hidx, "commit_last": self.commit_last, "corr": corr}


def must_raise(R, C: Ctx, paths, sig, what, corr, fns):
    rec, err = try_open(C.cls, list(paths), "r")
    ok = rec is None
    if rec is not None:
        try:
            rec.close(commit=False)
        except Exception:  # noqa
            pass
    R.check(ok, sig, what + " -- but the set opened", C.case(corr), fns)
    return ok


def must_open(R, C: Ctx, paths, expect, sig, what, corr):
    d, _, err = LC.open_dump(C.cls, list(paths), "r")
    R.check(err is None, sig + ":refused", f"{what} must open, got {err}", C.case(corr), FN_OPEN)
    if err is None:
        R.check(d == expect, sig + ":wrong-tree", f"{what} opened with a tree different from the reference", C.case(corr), FN_OPEN)


# ---------------------------------------------------------------------------------------------
# single corruptions; each returns the list of paths to open (working copy is reset by the caller)
# ---------------------------------------------------------------------------------------------
def keep_times(p, st):
    """silent corruption (bit rot): size and time stamps of the file stay as they were"""
    os.utime(p, ns=(st.st_atime_ns, st.st_mtime_ns))


def apply_corruption(C: Ctx, corr):
    k = corr[0]
    W = C.work
    if k == "flip":
        _, i, off, x = corr
        p = C.paths[i]
        st = os.stat(p)
        fd = os.open(p, os.O_RDWR)
        try:
            b = os.pread(fd, 1, off)
            os.pwrite(fd, bytes([b[0] ^ x]), off)
        finally:
            os.close(fd)
        keep_times(p, st)
        C.dirty.add(p.name)
        return C.paths
    if k == "trunc":
        _, i, nbytes = corr
        p = C.paths[i]
        data = C.pristine[p.name]
        p.write_bytes(data[: len(data) - nbytes])
        C.dirty.add(p.name)
        return C.paths
    if k == "extend":
        _, i, nbytes, fill = corr
        p = C.paths[i]
        p.write_bytes(C.pristine[p.name] + bytes([fill]) * nbytes)
        C.dirty.add(p.name)
        return C.paths
    if k == "remove":
        return [p for j, p in enumerate(C.paths) if j != corr[1]]
    if k == "subst-foreign":
        _, i, which = corr
        src = (C.foreign if which == 1 else C.foreign2)
        src = src[min(i, len(src) - 1)] if which == 2 else src[i]
        C.paths[i].write_bytes(src.read_bytes())
        C.dirty.add(C.paths[i].name)
        return C.paths
    if k == "subst-fork":
        _, i, j = corr  # container i replaced by the patch of the fork diverging at j (i == j)
        C.paths[i].write_bytes(C.forks[j].read_bytes())
        C.dirty.add(C.paths[i].name)
        return C.paths
    if k == "add-fork":
        q = W / f"zfork.p{corr[1]}.ih5"
        q.write_bytes(C.forks[corr[1]].read_bytes())
        return C.paths + [q]
    if k == "add-foreign":
        _, i, which = corr
        src = C.foreign if which == 1 else C.foreign2
        src = src[min(i, len(src) - 1)]
        q = W / f"zforeign.p{i}.ih5"
        q.write_bytes(src.read_bytes())
        return C.paths + [q]
    if k == "dup":
        q = W / f"zdup.p{corr[1]}.ih5"
        q.write_bytes(C.pristine[C.names[corr[1]]])
        return C.paths + [q]
    if k == "reuse-uuid":
        # the newest container's user block carries the patch_uuid of the earlier container j (everything else untouched;
        # the user block is not part of the hashed payload, and only the newest container's uuid is not pinned by a successor)
        from metador_core.ih5.record import IH5UserBlock

        _, j = corr
        p = C.paths[-1]
        ub = IH5UserBlock.load(p)
        ub.patch_uuid = IH5UserBlock.load(C.paths[j]).patch_uuid
        ub.save(p)
        C.dirty.add(p.name)
        return C.paths
    if k in ("mf-flip", "mf-trunc", "mf-extend", "mf-missing", "mf-older", "mf-foreign"):
        m = mf_path(C.paths[-1])
        data = C.pristine[m.name]
        C.dirty.add(m.name)
        if k == "mf-flip":
            b = bytearray(data)
            b[corr[1]] ^= corr[2]
            st = os.stat(m)
            with open(m, "r+b") as fh:  # in place: same inode, same size
                fh.write(bytes(b))
            keep_times(m, st)
        elif k == "mf-trunc":
            m.write_bytes(data[: len(data) - corr[1]])
        elif k == "mf-extend":
            m.write_bytes(data + b"\n" * corr[1])
        elif k == "mf-missing":
            m.unlink()
        elif k == "mf-older":
            m.write_bytes(C.pristine[mf_path(C.paths[corr[1]]).name])
        elif k == "mf-foreign":
            m.write_bytes(mf_path(C.foreign[-1]).read_bytes())
        return C.paths
    raise RuntimeError(f"unknown corruption {corr}")


def flip_offsets(size: int, tier: str, rnd):
    """Payload offsets to flip in a file of `size` bytes."""
    lo, hi = UB, size - 1
    if hi < lo:
        return []
    if tier == "quick":
        offs = {lo, lo + 1, lo + 7, lo + 8, hi, hi - 1, (lo + hi) // 2, lo + 511, lo + 512, lo + 1023, lo + 1024}
        offs = {o for o in offs if lo <= o <= hi}
        pool = list(range(lo, hi + 1))
        while len(offs) < min(64, len(pool)):
            offs.add(rnd.choice(pool))
        return sorted(offs)
    offs = set(range(lo, hi + 1, 97)) | set(range(lo, min(lo + 2048, hi + 1))) | set(range(max(lo, hi - 2047), hi + 1))
    return sorted(offs)


def structural_corruptions(C: Ctx, tier: str):
    n = C.n
    out = []
    for i in range(n):
        if not C.committed[i]:
            continue
        plen = len(C.pristine[C.names[i]]) - UB
        cuts = [1, 2, 3, 4, 8, 16, 64, 512, plen - 1, plen, plen + 1, plen + 512] if tier == "quick" else sorted(set(list(range(1, 65)) + [128, 256, 512, 1000, plen - 2, plen - 1, plen, plen + 1, plen + 100, plen + 512, plen + 1023]))
        for c in cuts:
            if 0 < c <= plen + UB - 1:
                out.append((["trunc", i, c], f"trunc:{C.pos(i)}:{'payload' if c <= plen else 'into-userblock'}", f"container {i} truncated by {c} bytes", FN_OPEN + FN_HASH))
        for nb, fill in ([(1, 0), (1, 255), (8, 0), (512, 0)] if tier == "quick" else [(k, f) for k in (1, 2, 3, 8, 63, 64, 65, 512, 4096) for f in (0, 255, 10)]):
            out.append((["extend", i, nb, fill], f"extend:{C.pos(i)}", f"container {i} extended by {nb} bytes 0x{fill:02x}", FN_OPEN + FN_HASH))
    for i in range(n - 1):
        out.append((["remove", i], f"remove:{C.pos(i)}", f"chain element {i} of {n} removed", FN_OPEN))
    if n >= 2:
        for i in range(n):
            out.append((["subst-foreign", i, 1], f"subst-foreign-same-shape:{C.pos(i)}", f"container {i} replaced by container {i} of another record", FN_OPEN))
            out.append((["subst-foreign", i, 2], f"subst-foreign:{C.pos(i)}", f"container {i} replaced by a container of an unrelated record", FN_OPEN))
    for i in range(n):
        out.append((["add-foreign", i, 1], f"add-foreign:{C.pos(i)}", f"container {i} of another record added to the set", FN_OPEN))
        out.append((["dup", i], f"dup:{C.pos(i)}", f"container {i} duplicated under another file name (same patch_uuid twice)", FN_OPEN))
    for j in range(n - 1):
        out.append((["reuse-uuid", j], f"reuse-uuid:{'adjacent' if j == n - 2 else 'distant'}", f"newest container carries the patch_uuid of container {j} of {n} (duplicated patch_uuid)", FN_OPEN))
    out.append((["add-foreign", 0, 2], "add-foreign:unrelated-base", "base of an unrelated record added to the set", FN_OPEN))
    for j in range(1, n):
        if j < n - 1:
            out.append((["subst-fork", j, j], f"subst-fork:{C.pos(j)}", f"container {j} replaced by an independently created patch on the same predecessor (fork)", FN_OPEN))
        out.append((["add-fork", j], f"add-fork:{C.pos(j)}", f"forked patch {j} added next to the original patch {j}", FN_OPEN))
    return out


def manifest_corruptions(C: Ctx, tier: str, rnd):
    if C.cls_key != "mf" or not C.committed[-1]:
        return []
    m = mf_path(C.paths[-1])
    size = len(C.pristine[m.name])
    if tier == "quick":
        offs = sorted({0, 1, size - 1, size - 2, size // 2} | {rnd.randrange(size) for _ in range(59)})
    else:
        offs = list(range(size))
    out = [(["mf-flip", o, x], "mf-flip", f"manifest byte {o} xor 0x{x:02x}", FN_MF) for o in offs for x in ((0x01,) if tier == "quick" or o % 2 else (0x80,))]
    for c in ([1, 2, size - 1, size] if tier == "quick" else list(range(1, 33)) + [size - 1, size]):
        out.append((["mf-trunc", c], "mf-trunc", f"manifest truncated by {c} bytes", FN_MF))
    for c in (1, 2):
        out.append((["mf-extend", c], "mf-extend", f"manifest extended by {c} newline(s)", FN_MF))
    out.append((["mf-missing"], "mf-missing", "manifest of the newest container missing", FN_MF))
    out.append((["mf-foreign"], "mf-foreign", "manifest replaced by the manifest of another record", FN_MF))
    for i in range(C.n - 1):
        out.append((["mf-older", i], "mf-older", f"manifest of the newest container replaced by the manifest of container {i}", FN_MF))
    return out


def run_record(R: Recorder, cls_key, hidx, commit_last, tier, rnd, t_end, stats, do_struct=True, do_flips=True):
    """All corruptions of one valid record. Returns True if finished within budget."""
    with tmpdir() as top:
        C = Ctx(top, cls_key, hidx, commit_last)
        tag = f"c04:{cls_key}:{'committed' if commit_last else 'uncommitted-newest'}"
        # ---- positive side of the equivalence
        must_open(R, C, C.paths, C.expect_full, f"{tag}:valid-set", "the untouched set", ["none"])
        must_open(R, C, list(reversed(C.paths)), C.expect_full, f"{tag}:valid-set-reversed", "the untouched set in reverse order", ["none"])
        if C.n > 1:
            must_open(R, C, C.paths[:-1], C.expect_prev, f"{tag}:without-newest", "the set without its newest patch (a valid shorter record)", ["drop-newest"])
        R.case((cls_key, hidx, commit_last, "valid"), nontrivial=True, sample={"cls": cls_key, "hist": hidx, "files": C.names, "sizes": [len(C.pristine[n]) for n in C.names]})
        # ---- structural + manifest corruptions
        for corr, cls_sig, what, fns in (structural_corruptions(C, tier) + manifest_corruptions(C, tier, rnd)) if do_struct else []:
            if time.time() > t_end:
                return False
            paths = apply_corruption(C, corr)
            ok = must_raise(R, C, paths, f"{tag}:{cls_sig}:accepted", what, corr, fns)
            C.reset()
            stats["structural" if not corr[0].startswith("mf-") else "manifest"] += 1
            R.case((cls_key, hidx, commit_last, digest(corr)), nontrivial=True)
        # ---- payload flips (in place, restored after each)
        for i, p in enumerate(C.paths if do_flips else []):
            if not C.committed[i]:
                continue
            size = len(C.pristine[p.name])
            for off in flip_offsets(size, tier, rnd):
                if time.time() > t_end:
                    C.reset()
                    return False
                where = "first-payload-byte" if off == UB else ("last-byte" if off == size - 1 else "interior")
                for x in ((0xFF,) if tier == "quick" or off % 2 else (0x01,)):
                    corr = ["flip", i, off, x]
                    st = os.stat(p)
                    fd = os.open(p, os.O_RDWR)
                    try:
                        b = os.pread(fd, 1, off)
                        os.pwrite(fd, bytes([b[0] ^ x]), off)
                        os.close(fd)
                        fd = None
                        keep_times(p, st)
                        must_raise(R, C, C.paths, f"{tag}:flip:{C.pos(i)}:{where}:accepted", f"payload byte {off} of container {i} ({size} bytes) xor 0x{x:02x}", corr, FN_OPEN + FN_HASH)
                    finally:
                        if fd is not None:
                            os.close(fd)
                        fd2 = os.open(p, os.O_RDWR)
                        os.pwrite(fd2, b, off)
                        os.close(fd2)
                        keep_times(p, st)
                    stats["flips"] += 1
                R.case((cls_key, hidx, commit_last, "flip", i, off), nontrivial=True)
            assert p.read_bytes() == C.pristine[p.name]
        # the working copy is pristine again: it must still open (guards the harness itself)
        must_open(R, C, C.paths, C.expect_full, f"{tag}:valid-set-after", "the restored untouched set", ["none"])
    return True


def plan(tier):
    out = []
    for h in (1, 3, 5, 0, 2, 4, 6, 7, 8):
        for c in ("ih5", "mf"):
            out.append((c, h, True))
    for h in (1, 3, 5) if tier == "quick" else (1, 3, 5, 4, 6, 8):
        for c in ("ih5", "mf"):
            out.append((c, h, False))
    return out


def run(tier: str, seed: int) -> dict:
    R = Recorder(PID, DRV)
    t0 = time.time()
    stats = {"structural": 0, "manifest": 0, "flips": 0}
    total = 50.0 if tier == "quick" else 540.0
    todo = plan(tier)
    done, partial = [], []
    name = lambda c, h, cl: f"{c}/H{h}{'' if cl else 'u'}"  # noqa
    # phase 1: positive cases + structural + manifest corruptions of every record; phase 2: payload flips, record by record
    t1_end = t0 + total * (0.5 if tier == "quick" else 0.22)
    struct_done = set()
    for k, (cls_key, hidx, commit_last) in enumerate(todo):
        if time.time() > t1_end:
            continue
        if run_record(R, cls_key, hidx, commit_last, tier, base.rng(seed, f"c04:{cls_key}:{hidx}:{commit_last}"), t1_end, stats, do_struct=True, do_flips=False):
            struct_done.add((cls_key, hidx, commit_last))
    for k, (cls_key, hidx, commit_last) in enumerate(todo):
        left = t0 + total - time.time()
        nm = name(cls_key, hidx, commit_last)
        if left <= 1.0:
            partial.append(nm + (" (structural only)" if (cls_key, hidx, commit_last) in struct_done else " (not covered)"))
            continue
        fin = run_record(R, cls_key, hidx, commit_last, tier, base.rng(seed, f"c04f:{cls_key}:{hidx}:{commit_last}"), t0 + total, stats, do_struct=False, do_flips=True)
        if fin and (cls_key, hidx, commit_last) in struct_done:
            done.append(nm)
        else:
            partial.append(nm + (" (flips cut by budget)" if not fin else " (structural cut by budget)"))
    flips_rule = "64 sampled + boundary payload offsets per committed container (xor 0xff)" if tier == "quick" else "every 97th payload byte and all of the first/last 2 KiB of payload of every committed container (xor 0xff at odd, 0x01 at even offsets)"
    return R.result(
        rule="case = (class, history of the fixed family with 1-4 containers, newest committed or left uncommitted ('u'), one corruption); corruptions: payload byte flip | truncation | extension | "
        "removed base/middle element | substitution by same-index container of another record (same shape / unrelated) | substitution by a fork's patch | added foreign / forked / duplicated container | "
        "manifest byte flip / truncation / extension / missing / older / foreign; plus the positive cases (untouched set in two orders, set without newest patch) with the reference tree; distinct = distinct (record, corruption)",
        bound=f"records fully covered: {done}; partially (budget): {partial}; flips: {flips_rule}; structural corruptions {stats['structural']}, manifest corruptions {stats['manifest']}, payload flips {stats['flips']}",
        exhaustive=not partial,
        assumptions=[
            "bytes inside the 1024-byte user block are not payload: user-block tampering is not claimed; an uncommitted newest container carries no hash and is excluded from payload corruptions",
            "removing the NEWEST patch (or replacing the newest patch by a fork's patch) yields a valid record and is not a corruption",
            "for IH5MFRecord only the manifest of the newest container belongs to the opened set (older sidecars are not required by the class contract); their tampering is not claimed",
            "corruptions are applied to a working copy in place and undone afterwards; the restored copy is re-validated",
        ],
        trusted=["sha256 second-preimage resistance is NOT needed by the driver (it observes raise/open only)", "h5py in-memory file as reference tree for the positive cases"],
    )


def replay(case: dict):
    R = Recorder(PID, DRV)
    with tmpdir() as top:
        C = Ctx(top, case["cls"], case["hist"], case["commit_last"])
        corr = case["corr"]
        tag = "c04:replay"
        if corr[0] == "none":
            must_open(R, C, C.paths, C.expect_full, tag, "the untouched set", corr)
        elif corr[0] == "drop-newest":
            must_open(R, C, C.paths[:-1], C.expect_prev, tag, "the set without its newest patch", corr)
        else:
            paths = apply_corruption(C, corr)
            must_raise(R, C, paths, tag, f"corruption {corr}", corr, [])
    if R.violations:
        return True, R.violations[0]["what"]
    return False, f"corruption {case['corr']} handled as the property demands"
