"""C11 -- a crash while patching never damages what was committed.

Bounded contract evaluation on the real code, three crash models:

 (A) API-boundary crash: along patching histories (create, create_patch, every data op, commit_patch, discard_patch) the
     directory is copied at the OS level while the record is still open (= the process is killed there; the live record
     then simply continues). Two copies per boundary: as-is (nothing flushed) and after h5py flush() of the writable file.
       A1  every container committed so far (and its manifest) is byte-identical in the copy
       A2  the committed files alone open (mode 'r') and show the last committed tree
       A3  the complete set fails to open, OR opens with the newest container recognisably uncommitted (hdf5_hashsum None)
           showing a tree that was written since the last commit (flushed copy only), OR opens fully committed showing
           exactly the tree at that commit -- never anything else.
     For IH5MFRecord additionally the point inside commit_patch between the user-block write and the manifest write
     (manifest absent, and EVERY prefix length of the manifest file write).
 (B) torn final user-block write of commit_patch (and of create_patch's initial block): for each (old block on disk, new block)
     pair along the histories and EVERY prefix length k = 0..len(write): file = new[:k] + old[k:] + final payload;
       B1  IH5UserBlock.load raises, or returns exactly the old or exactly the new block -- never a third one
       B2  if the complete set opens, it is uncommitted-looking or fully committed and shows the written tree; committed
           predecessors stay valid on their own (A2).
 (C) real SIGKILL of a writer process at seeded random instants (this includes instants inside libhdf5 writes; for those only
     the clauses about ACKNOWLEDGED commits are claimed): acknowledged committed files byte-identical, open alone to the
     acknowledged tree; the complete set fails, or is recognisably uncommitted, or fully committed with an announced tree.
"""
from __future__ import annotations

import json
import os
import shutil
import signal
import subprocess
import sys
import time
from pathlib import Path

from rac import base
from rac.base import Recorder, digest, tmpdir, watchdog
from rac import lifecycle as LC
from rac.ih5lib import apply_op, dump_tree
from rac.lifecycle import CLASSES, HISTORIES, containers_named, is_committed, mf_path, parse_ublock, parse_ublock_bytes, sha, try_open

PID, DRV = "C11", "c11"
UB = LC.UB_SIZE
FN_COMMIT = ["ih5/record.py:IH5Record.commit_patch", "ih5/record.py:IH5UserBlock.save", "ih5/record.py:IH5UserBlock.load"]
FN_MFCOMMIT = ["ih5/manifest.py:IH5MFRecord.commit_patch"]
FN_PATCH = ["ih5/record.py:IH5Record.create_patch", "ih5/record.py:IH5Record._new_container", "ih5/overlay.py"]


def _copy_dir(src: Path, dst: Path):
    """OS-level copy of the files as they are on disk right now (record still open)."""
    dst.mkdir(parents=True)
    for p in src.iterdir():
        if p.is_file():
            shutil.copyfile(p, dst / p.name)
    return dst


def _ub_dict(ub):
    """IH5UserBlock object -> plain dict (through its own JSON form) for comparison with the driver's parse."""
    return json.loads(ub.json())


# a long chain: patch indices cross from one to two digits (foo.p9.ih5 -> foo.p10.ih5); crash points are taken for the last patches only
LONG_SEGS = [[["set", "a/x", 0]]] + [[["set", f"a/n{i}", i], ["setattr", "/", "k", i]] for i in range(1, 12)]
LONG_CHECK_FROM = 9


class Walk:
    """One patching history with crash points."""

    def __init__(self, R: Recorder, top: Path, cls_key: str, hidx: int, stats, torn_open_every=1, torn=True, mf_prefix_every=1):
        self.R, self.top, self.cls_key, self.cls, self.hidx = R, top, cls_key, CLASSES[cls_key], hidx
        self.stats = stats
        self.live = top / "live"
        self.live.mkdir()
        self.rec = None
        self.committed = {}  # name -> sha (ghost: files committed at the last commit boundary)
        self.commit_dump = None
        self.written = []  # tree dumps written since (and including) the last commit
        self.nb = 0
        self.trace = []  # boundary labels
        self.torn_open_every, self.torn, self.mf_prefix_every = torn_open_every, torn, mf_prefix_every

    def case(self, **kw):
        return dict({"kind": "walk", "cls": self.cls_key, "hist": self.hidx}, **kw)

    # ---------------------------------------------------------------- (A)
    def boundary(self, label):
        """Crash point after an API call."""
        R = self.R
        self.trace.append(label)
        if getattr(self, "seg_i", 0) < getattr(self, "check_from", 0):
            return  # long chain: the early patches only build the record (their crash points are the short histories' business)
        self.nb += 1
        writable = self.rec._has_writable
        # copy 1: nothing flushed
        raw = _copy_dir(self.live, self.top / f"b{self.nb}raw")
        # copy 2: after flush of the writable container (assumption: data handed to h5py reached the OS)
        if writable:
            self.rec.__files__[-1].flush()
        cur = dump_tree(self.rec)
        if not self.written or self.written[-1] != cur:
            self.written.append(cur)
        flushed = _copy_dir(self.live, self.top / f"b{self.nb}fl") if writable else raw
        for tag, snap in (("raw", raw), ("flushed", flushed)):
            if tag == "flushed" and flushed is raw:
                continue
            self.check_snapshot(snap, label, tag, cur)
        self.R.case((self.cls_key, self.hidx, "boundary", self.nb, label), nontrivial=bool(self.committed) or writable,
                    sample={"cls": self.cls_key, "hist": self.hidx, "crash_after": list(self.trace), "committed_files": sorted(self.committed)} if self.nb in (7, 12) else None)
        shutil.rmtree(raw, ignore_errors=True)
        if flushed is not raw:
            shutil.rmtree(flushed, ignore_errors=True)

    def check_snapshot(self, snap: Path, label, tag, cur, sigp=None, allow_states=None, case=None):
        R = self.R
        kindlabel = label.split(":")[0]
        sig = sigp or f"c11:{self.cls_key}:boundary:{kindlabel}:{tag}"
        case = case or self.case(upto=len(self.trace), label=label, copy=tag)
        # A1 committed files byte-identical
        for n, h in self.committed.items():
            p = snap / n
            R.check(p.is_file() and sha(p) == h, f"{sig}:committed-file-damaged", f"committed file {n} differs/missing in the crash copy taken after {label}", case, FN_PATCH + FN_COMMIT)
            q = self.live / n
            R.check(q.is_file() and sha(q) == h, f"{sig}:committed-file-damaged-live", f"committed file {n} differs/missing on disk after {label}", case, FN_PATCH + FN_COMMIT)
        # A2 committed files alone
        cfiles = [snap / n for n in self.committed if n.endswith(".ih5")]
        if cfiles:
            d, _, err = LC.open_dump(self.cls, cfiles, "r")
            R.check(err is None and d == self.commit_dump, f"{sig}:committed-alone", f"committed files alone after crash at {label}: {'refused: ' + str(err) if err else 'tree differs from the last committed tree'}", case, FN_PATCH + FN_COMMIT)
        # A3 complete set
        allf = containers_named(snap, "foo")
        self.check_complete(allf, sig, label, tag, cur, allow_states, case)

    def check_complete(self, allf, sig, label, tag, cur, allow_states, case, classes=None):
        R = self.R
        for ck in classes or ([self.cls_key] if self.cls_key == "ih5" else ["mf", "ih5"]):
            cls = CLASSES[ck]
            d, _, err = LC.open_dump(cls, allf, "r")
            if allf and ck == self.cls_key:
                # the complete set is also what opening the record BY NAME assembles: it must be judged like the explicit list
                dn, _, errn = LC.open_dump(cls, allf[0].parent / "foo", "r")
                same = (err is None) == (errn is None) and (err is not None or dn == d)
                R.check(same, f"{sig}:as-{ck}:by-name-differs", f"after crash at {label}: opening the record by name {'is refused: ' + str(errn) if errn else 'opens'}, the complete file set given explicitly {'is refused' if err else 'opens'}" + ("" if err or errn or dn == d else " with a different tree (by name some containers are not seen)"), case, ["ih5/record.py:IH5Record.find_files"])
            if err is not None:
                self.stats["complete_refused"] += 1
                R.check(True, "", "")
                continue
            newest = parse_ublock(allf[-1])
            unc = newest is not None and newest.get("hdf5_hashsum") is None
            if unc and ck == self.cls_key:
                # merely LOOKING at an interrupted patch never commits it: the low-level opener with its default arguments, then
                # close() with its default (commit=True), must leave every file byte-identical (the newest stays recognisably uncommitted)
                look = allf[0].parent / "look"
                shutil.rmtree(look, ignore_errors=True)
                look.mkdir()
                cp = [Path(shutil.copyfile(f, look / f.name)) for f in allf]
                for f in allf:
                    m_ = mf_path(f)
                    if m_.is_file():
                        shutil.copyfile(m_, look / m_.name)
                before = {f.name: sha(f) for f in cp}
                try:
                    r_ = cls._open(list(cp))
                    r_.close()
                    lerr = None
                except Exception as e:  # noqa
                    lerr = f"{type(e).__name__}: {str(e)[:100]}"
                after = {f.name: sha(f) for f in cp}
                R.check(lerr is not None or after == before, f"{sig}:as-{ck}:looking-commits-the-interrupted-patch", f"after crash at {label}: opening the complete set with {cls.__name__}._open(files) and closing it changed {[n for n in before if after.get(n) != before[n]]} (an interrupted patch must stay uncommitted until someone opens it for writing)", case, ["ih5/record.py:IH5Record._open", "ih5/record.py:IH5Record.close"])
                shutil.rmtree(look, ignore_errors=True)
            if unc:
                self.stats["complete_uncommitted"] += 1
                if tag == "raw":
                    R.check(True, "", "")  # recognisably uncommitted; content of unflushed HDF5 buffers is not claimed
                else:
                    states = allow_states if allow_states is not None else self.written
                    R.check(d in states, f"{sig}:as-{ck}:uncommitted-shows-unwritten-state", f"complete set after crash at {label} opens (newest uncommitted) with a tree that was never written since the last commit", case, FN_PATCH)
            else:
                self.stats["complete_committed"] += 1
                ok = d == cur if allow_states is None else d in allow_states
                if allow_states is None and not self.rec._has_writable:
                    ok = d == self.commit_dump
                R.check(ok, f"{sig}:as-{ck}:committed-shows-unwritten-state", f"complete set after crash at {label} opens as fully committed with a tree that is not the committed one", case, FN_COMMIT)

    # ---------------------------------------------------------------- (B)
    def torn_commit(self, old_block: bytes, label: str, kind: str):
        """Called right AFTER a commit (or create_patch): old_block = block on disk before the write."""
        R = self.R
        files = containers_named(self.live, "foo")
        newest = files[-1]
        data = newest.read_bytes()
        new_block = data[:UB]
        payload = data[UB:]
        nul = new_block.find(b"\x00")
        write = new_block[: nul + 1]  # what save() writes: text + one NUL
        old_d, new_d = parse_ublock_bytes(old_block), parse_ublock_bytes(new_block)
        cur = dump_tree(self.rec)
        prev_committed = [n for n in self.committed if n.endswith(".ih5") and n != newest.name]
        work = self.top / f"torn{self.nb}"
        work.mkdir()
        for n in self.committed:
            if n != newest.name and n != mf_path(newest).name:
                shutil.copyfile(self.live / n, work / n)
        tf = work / newest.name
        sig = f"c11:{self.cls_key}:torn-{kind}"
        from metador_core.ih5.record import IH5UserBlock

        outcomes = {"raise": 0, "old": 0, "new": 0}
        prev_outcome = None
        for k in range(0, len(write) + 1):
            block = write[:k] + old_block[k:]
            tf.write_bytes(block + payload)
            case = self.case(upto=len(self.trace), label=label, torn=kind, k=k)
            got = None
            try:
                with watchdog(LC.STEP_TIMEOUT_S):
                    got = _ub_dict(IH5UserBlock.load(tf))
            except BaseException as e:  # noqa
                if isinstance(e, (KeyboardInterrupt, SystemExit)):
                    raise
            if got is None:
                outcomes["raise"] += 1
                R.check(True, "", "")
            else:
                is_old, is_new = (old_d is not None and got == old_d), got == new_d
                outcomes["old" if is_old else "new" if is_new else "raise"] += 0 if not (is_old or is_new) else 1
                R.check(is_old or is_new, f"{sig}:third-block", f"torn user-block write ({k} of {len(write)} bytes) loads as a block that is neither the old nor the new one: {got}", case, FN_COMMIT)
            outcome = "raise" if got is None else ("old" if got == old_d else "new" if got == new_d else "third")
            changed, prev_outcome = outcome != prev_outcome, outcome
            if changed or outcome == "third" or k % self.torn_open_every == 0 or k in (len(write), len(write) - 1):
                allf = [work / n for n in prev_committed] + [tf]
                allf.sort(key=lambda p: (LC.patch_index(p) if p != tf else 1 << 29))
                # written tree: data of the patch is complete at this point (HDF5 file was closed before the block write)
                self.check_complete(allf, sig, label, "flushed", cur, [cur], case)
            self.stats["torn_k"] += 1
            R.case((self.cls_key, self.hidx, "torn", kind, self.nb, k), nontrivial=True)
        self.stats["torn_pairs"] += 1
        self.stats["torn_outcomes"].append((kind, len(write), outcomes["raise"], outcomes["old"], outcomes["new"]))
        shutil.rmtree(work, ignore_errors=True)

    def torn_manifest(self, label):
        """IH5MFRecord: crash inside commit_patch after the user block was written, while the manifest is being written."""
        if self.cls_key != "mf":
            return
        R = self.R
        files = containers_named(self.live, "foo")
        newest = files[-1]
        mfb = mf_path(newest).read_bytes()
        work = self.top / f"tornmf{self.nb}"
        work.mkdir()
        for p in files:
            shutil.copyfile(p, work / p.name)
            if p != newest and mf_path(p).is_file():
                shutil.copyfile(mf_path(p), work / mf_path(p).name)
        allf = [work / p.name for p in files]
        cur = dump_tree(self.rec)
        sig = f"c11:{self.cls_key}:torn-manifest"
        ks = [None] + [k for k in range(0, len(mfb) + 1) if k % self.mf_prefix_every == 0 or k >= len(mfb) - 2]
        for k in ks:
            m = work / mf_path(newest).name
            if k is None:
                if m.exists():
                    m.unlink()
            else:
                m.write_bytes(mfb[:k])
            case = self.case(upto=len(self.trace), label=label, torn="manifest", k=k)
            self.check_complete(allf, sig, label, "flushed", cur, [cur], case, classes=["mf"])
            self.stats["torn_mf_k"] += 1
            R.case((self.cls_key, self.hidx, "tornmf", self.nb, k), nontrivial=True)
        shutil.rmtree(work, ignore_errors=True)

    # ---------------------------------------------------------------- the history
    def newest_block(self):
        fs = containers_named(self.live, "foo")
        with open(fs[-1], "rb") as f:
            return f.read(UB)

    def after_commit(self, label="commit_patch"):
        # the commit itself must not have touched what was committed before (checked before the ghost state is renewed)
        for n, h in self.committed.items():
            q = self.live / n
            self.R.check(q.is_file() and sha(q) == h, f"c11:{self.cls_key}:boundary:commit_patch:committed-file-damaged-live", f"previously committed file {n} differs/missing on disk after {label}", self.case(upto=len(self.trace), label=label), FN_COMMIT)
        self.committed = {}
        for p in containers_named(self.live, "foo"):
            if is_committed(p):
                self.committed[p.name] = sha(p)
                if mf_path(p).is_file():
                    self.committed[mf_path(p).name] = sha(mf_path(p))
        self.commit_dump = dump_tree(self.rec)
        self.written = [self.commit_dump]

    def run(self, upto=None):
        segs = HISTORIES[self.hidx] if self.hidx >= 0 else LONG_SEGS
        self.check_from = 0 if self.hidx >= 0 else LONG_CHECK_FROM
        self.rec = self.cls(self.live / "foo", "x")
        try:
            self.seg_i = 0
            self.boundary("create")
            for i, seg in enumerate(segs):
                self.seg_i = i
                if i > 0 and i < self.check_from:
                    self.rec.create_patch()
                elif i > 0:
                    # detour: a patch that is started, written to and discarded
                    self.rec.create_patch()
                    self.boundary(f"create_patch:detour{i}")
                    if seg:
                        apply_op(self.rec, seg[0], is_ih5=True)
                        self.boundary(f"data:detour{i}")
                    self.rec.discard_patch()
                    self.written = [self.commit_dump]
                    self.boundary(f"discard_patch:{i}")
                    self.rec.create_patch()
                    if self.torn:
                        self.torn_commit(bytes(UB), f"create_patch:{i}", "create")
                    self.boundary(f"create_patch:{i}")
                for j, op in enumerate(seg):
                    st, exc = apply_op(self.rec, op, is_ih5=True)
                    if st != "ok":
                        raise RuntimeError(f"history op failed {op}: {st} {exc}")
                    self.boundary(f"data:{i}.{j}:{op[0]}")
                old_block = self.newest_block()
                self.rec.commit_patch()
                if self.torn and i >= self.check_from:
                    self.torn_commit(old_block, f"commit_patch:{i}", "commit")
                    self.torn_manifest(f"commit_patch:{i}")
                self.after_commit(f"commit_patch:{i}")
                self.boundary(f"commit_patch:{i}")
        finally:
            try:
                self.rec.close(commit=False)
            except Exception:  # noqa
                pass


# ------------------------------------------------------------------------------------------------
# (C) real SIGKILL
# ------------------------------------------------------------------------------------------------
CHILD_OPS = [["set", "k/a{n}", 1], ["setattr", "/", "at{n}", "v"], ["set", "k/b{n}", {"__bytes__": "00ff00ff"}], ["del", "k/a{n}"], ["set", "big{n}", LC.BIG]]


def child_main(argv):
    """Writer process: patches a record in a loop and reports every acknowledged commit / intended commit on stdout."""
    d, cls_key, npatch, logp = Path(argv[0]), argv[1], int(argv[2]), argv[3]
    cls = CLASSES[cls_key]
    log = open(logp, "a")

    def say(obj):
        log.write(json.dumps(obj) + "\n")
        log.flush()

    rec = cls(d / "foo", "x")
    say({"ev": "ready"})
    sys.stdout.write("ready\n")
    sys.stdout.flush()
    for n in range(npatch):
        if n > 0:
            rec.create_patch()
        for op in CHILD_OPS:
            op2 = [x.replace("{n}", str(n)) if isinstance(x, str) else x for x in op]
            apply_op(rec, op2, is_ih5=True)
        say({"ev": "intend", "n": n, "dump": dump_tree(rec)})
        rec.commit_patch()
        files = {}
        for p in containers_named(d, "foo"):
            files[p.name] = sha(p)
            if mf_path(p).is_file():
                files[mf_path(p).name] = sha(mf_path(p))
        say({"ev": "committed", "n": n, "files": files})
    say({"ev": "done"})
    time.sleep(30)


def sigkill_case(R: Recorder, cls_key: str, delay: float, npatch: int, stats, case):
    cls = CLASSES[cls_key]
    sig = f"c11:{cls_key}:sigkill"
    with tmpdir() as top:
        d = top / "rec"
        d.mkdir()
        logp = top / "events.jsonl"
        env = dict(os.environ, PYTHONPATH="/verif", PYTHONDONTWRITEBYTECODE="1")
        pr = subprocess.Popen([sys.executable, "-m", "rac.drivers.c11", "--child", str(d), cls_key, str(npatch), str(logp)], stdout=subprocess.PIPE, stderr=subprocess.DEVNULL, cwd="/verif", env=env)
        try:
            line = pr.stdout.readline()  # "ready"
            if not line:
                stats["kill_failed_start"] += 1
                return
            time.sleep(delay)
            pr.send_signal(signal.SIGKILL)
            pr.wait()
            rest = logp.read_text() if logp.exists() else ""
        finally:
            try:
                pr.kill()
            except Exception:  # noqa
                pass
            pr.wait()
        evs = []
        for ln in rest.splitlines():
            try:
                evs.append(json.loads(ln))
            except ValueError:
                pass  # a torn last line
        intends = {e["n"]: e["dump"] for e in evs if e["ev"] == "intend"}
        acks = [e for e in evs if e["ev"] == "committed"]
        finished = any(e["ev"] == "done" for e in evs)
        stats["kills"] += 1
        stats["kill_acks"].append(len(acks))
        if finished:
            stats["kill_after_done"] += 1
        allf = containers_named(d, "foo")
        if acks:
            last = acks[-1]
            for n, h in last["files"].items():
                p = d / n
                R.check(p.is_file() and sha(p) == h, f"{sig}:acked-file-damaged", f"file {n} of acknowledged commit {last['n']} differs/missing after SIGKILL", case, FN_PATCH + FN_COMMIT)
            cfiles = [d / n for n in last["files"] if n.endswith(".ih5")]
            dmp, _, err = LC.open_dump(cls, cfiles, "r")
            R.check(err is None and dmp == intends[last["n"]], f"{sig}:acked-alone", f"files of acknowledged commit {last['n']} alone: {'refused ' + str(err) if err else 'tree differs from the acknowledged one'}", case, FN_PATCH + FN_COMMIT)
        if allf:
            dmp, _, err = LC.open_dump(cls, allf, "r")
            if err is None:
                newest = parse_ublock(allf[-1])
                if newest is not None and newest.get("hdf5_hashsum") is None:
                    stats["kill_complete_uncommitted"] += 1
                    R.check(True, "", "")
                else:
                    stats["kill_complete_committed"] += 1
                    n_files = len(allf)
                    want = intends.get(n_files - 1)
                    R.check(want is not None and dmp == want, f"{sig}:complete-committed-unwritten-state", f"after SIGKILL the complete set of {n_files} containers opens as fully committed with a tree that was not announced for that commit", case, FN_COMMIT)
            else:
                stats["kill_complete_refused"] += 1
                R.check(True, "", "")
        R.case((cls_key, "kill", digest(case)), nontrivial=bool(acks))


# ------------------------------------------------------------------------------------------------
def _new_stats():
    return {"complete_refused": 0, "complete_uncommitted": 0, "complete_committed": 0, "torn_k": 0, "torn_pairs": 0, "torn_outcomes": [], "torn_mf_k": 0,
            "kills": 0, "kill_acks": [], "kill_after_done": 0, "kill_failed_start": 0, "kill_complete_uncommitted": 0, "kill_complete_committed": 0, "kill_complete_refused": 0}  # fmt: skip


def run(tier: str, seed: int) -> dict:
    R = Recorder(PID, DRV)
    t0 = time.time()
    stats = _new_stats()
    if tier == "quick":
        plan = [("ih5", 1), ("mf", 1), ("ih5", -1), ("ih5", 3), ("mf", 5), ("ih5", 6), ("mf", 8), ("mf", 0), ("ih5", 4)]
        budget, kills, every, mf_every = 40.0, 4, 8, 16
    else:
        plan = [(c, h) for h in [-1] + list(range(len(HISTORIES))) for c in ("ih5", "mf")]
        budget, kills, every, mf_every = 420.0, 60, 1, 1
    done, skipped = [], []
    for k, (cls_key, hidx) in enumerate(plan):
        if time.time() - t0 > budget:
            skipped.append(f"{cls_key}/H{hidx}")
            continue
        with tmpdir() as top:
            W = Walk(R, top, cls_key, hidx, stats, torn_open_every=every, mf_prefix_every=mf_every)
            W.run()
            done.append(f"{cls_key}/H{hidx}({W.nb} crash points)")
    rnd = base.rng(seed, "c11-kill")
    kill_budget = 12.0 if tier == "quick" else 120.0
    tk = time.time()
    for i in range(kills):
        if time.time() - tk > kill_budget:
            break
        cls_key = "ih5" if i % 2 == 0 else "mf"
        delay = rnd.uniform(0.0, 0.9)
        case = {"kind": "kill", "cls": cls_key, "delay": round(delay, 4), "npatch": 12}
        sigkill_case(R, cls_key, delay, 12, stats, case)
    lens = sorted({(k, n) for k, n, *_ in stats["torn_outcomes"]})
    agg = {}
    for kind, n, r, o, nw in stats["torn_outcomes"]:
        a = agg.setdefault(kind, [0, 0, 0])
        a[0] += r
        a[1] += o
        a[2] += nw
    R.notes.append(f"complete-set outcomes at crash points: refused {stats['complete_refused']}, opened uncommitted {stats['complete_uncommitted']}, opened fully committed {stats['complete_committed']}")
    R.notes.append(f"torn user-block writes: {stats['torn_pairs']} (old,new) pairs, {stats['torn_k']} prefix lengths (write lengths {sorted({n for _, n in lens})}); load outcomes [raise, old, new] per kind: {agg}; torn manifest prefixes: {stats['torn_mf_k']}")
    R.notes.append(f"SIGKILL runs: {stats['kills']} (acknowledged commits at kill time: {stats['kill_acks']}; after writer finished: {stats['kill_after_done']}); complete set refused {stats['kill_complete_refused']}, uncommitted {stats['kill_complete_uncommitted']}, committed {stats['kill_complete_committed']}")
    R.notes.append("observation outside the quantifier (not claimed): merge_files and create_stub overwrite a COMPLETE user block by a different one of similar length; a torn write there can produce a parseable mixed block (uuid fields of both). C11 speaks about patching (create/fill/commit) only.")
    return R.result(
        rule="(A) history -1 is a chain of 12 containers with crash points in the patches with index 9, 10, 11; (A) case = (class, history, API-call boundary incl. a discarded detour patch per patch) x {raw copy, flushed copy}; (B) case = (class, history, commit or create_patch, prefix length k of the user-block write) "
        "and for IH5MFRecord (commit, prefix length of the manifest write | manifest absent); (C) case = (class, kill delay); distinct = distinct crash points / prefix lengths / kills",
        bound=f"walks: {done}; skipped for budget: {skipped}; user-block prefix lengths: every k in 0..len(write) for load, complete-set open at every {every}-th k and at every k where the load outcome changes; manifest prefixes every {mf_every}-th byte + absent; SIGKILL runs: {stats['kills']}",
        exhaustive=not skipped and every == 1 and mf_every == 1,
        assumptions=[
            "a kill at an API-call boundary is simulated by an OS-level copy of the directory while the record is open; the clause 'shows a tree that was written' is evaluated on the copy taken after h5py flush() of the writable container (data handed to h5py reached the OS); the unflushed copy is only required to fail, look uncommitted, or be fully committed",
            "a torn user-block write is modelled as prefix-of-new over old content (single sequential write of text+NUL, no reordering), with the final payload (the HDF5 file is closed before the block is written)",
            "NOT covered deductively or by enumeration: kills inside libhdf5 writes (partial HDF5 structures). The SIGKILL runs hit such instants only by chance and then claim only the clauses about acknowledged commits",
            "merge_files / create_stub user-block overwrites are outside the property's quantifier (patch creation, filling, commit)",
        ],
        trusted=["the driver's own user-block parser (rac/lifecycle.py:parse_ublock_bytes)", "OS file copy gives a consistent image of closed / flushed files"],
    )


def replay(case: dict):
    R = Recorder(PID, DRV)
    stats = _new_stats()
    if case.get("kind") == "kill":
        for _ in range(3):
            sigkill_case(R, case["cls"], case["delay"], case.get("npatch", 12), stats, case)
    else:
        with tmpdir() as top:
            W = Walk(R, top, case["cls"], case["hist"], stats)
            W.run()
    if R.violations:
        v = R.violations[0]
        return True, f"{v['signature']}: {v['what']}"
    return False, f"no C11 clause failed ({R.evaluations} evaluations)"


if __name__ == "__main__":
    if len(sys.argv) > 1 and sys.argv[1] == "--child":
        child_main(sys.argv[2:])
