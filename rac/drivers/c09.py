"""C09 — MetadorContainer behaves identically on plain HDF5 and on IH5 records (lock-step differential driver).

The same container-operation history is applied through MetadorContainer(h5py.File), MetadorContainer(IH5Record) and
MetadorContainer(IH5MFRecord); into the IH5 runs patch boundaries (commit_patch+create_patch) and reopen points are
inserted according to a *placement*. Relational contract: every step succeeds/fails on all of them alike (exception
classes may differ) and the final user view (data, attributes, metadata JSON per attached object, query sets per
schema) is equal. Enumeration is prefix-closed, hence comparing the final view of every history compares the view
after every step.
"""
from __future__ import annotations

import itertools
import time

from rac import base  # noqa: F401
from rac.base import Recorder, digest, rng, tmpdir
from rac import contlib2 as L

PID, DRV = "C09", "c09"
TMP_PREFIX = "vrc2_c09_"
BYTES = {"__bytes__": "00ff10"}

ALPHA = [
    ["set", "d", 1],
    ["set", "a/x", "str"],
    ["mkgrp", "a"],
    ["set", "a/s/y", BYTES],
    ["del", "a"],
    ["del", "a/x"],
    ["del", "d"],
    ["setattr", "a", "k", 1],
    ["setattr", "a/x", "k", "v"],
    ["setattr", "/", "r", 2],
    ["delattr", "a", "k"],
    ["copy", "a", "b", {}],
    ["copy", "a/x", "y", {}],
    ["copy", "d", "a/d2", {}],
    ["copy", "a/x", "a", {"into": True, "name": "x3"}],
    ["copy", "a", "b2", {"without_meta": True}],
    ["move", "a", "b"],
    ["move", "a/x", "x2"],
    ["move", "d", "a/d3"],
    ["meta", "a", "dir1"],
    ["meta", "a/x", "file1"],
    ["meta", "d", "img1"],
    ["meta", "/", "bib1"],
    ["meta", "a/x", "file2"],
    ["delmeta", "a", "core.dir"],
    ["delmeta", "a/x", "core.file"],
    ["delmeta", "d", "core.imagefile"],
]
ALPHA_EXTRA = [  # thorough only
    ["mkgrp", "a/s"],
    ["set", "a/x", 7],
    ["copy", "a", "/", {"into": True, "name": "c"}],
    ["copy", "b", "a/bb", {}],
    ["move", "b", "a/bm"],
    ["meta", "b", "dir2"],
    ["meta", "y", "file2"],
    ["delmeta", "/", "core.bib"],
    ["delattr", "/", "r"],
    ["del", "b"],
]
QUERY = ("core.file", "core.imagefile", "core.dir", "core.bib")

SCENARIOS = [
    # user data that merely looks like the deletion marker (one byte 0x7f of a numeric type): a value, never a deletion
    [["set", "a", {"__np__": "uint8", "value": 127}], ["set", "g/c", {"__np__": "int8", "value": 127}], ["setattr", "g/c", "k", {"__np__": "uint8", "value": 127}], ["del", "a"], ["set", "a", {"__np__": "uint8", "value": 127}]],
    [["set", "a/x", 1], ["set", "a/y", 2], ["del", "a"], ["set", "a/z", 3], ["set", "a/w", 4]],
    [["mkgrp", "a"], ["set", "a/x", 1], ["meta", "a", "dir1"], ["meta", "a/x", "file1"], ["copy", "a", "b", {}], ["del", "a"]],
    [["set", "d", 1], ["meta", "d", "img1"], ["move", "d", "e"], ["delmeta", "e", "core.imagefile"]],
    [["mkgrp", "a"], ["meta", "a", "bib1"], ["copy", "a", "/", {"into": True, "name": "c"}]],
    [["set", "a/x", 1], ["meta", "a/x", "file1"], ["copy", "a/x", "y", {}], ["del", "a/x"], ["meta", "y", "file2"]],
    [["mkgrp", "a"], ["set", "a/x", 1], ["setattr", "a", "k", 1], ["move", "a", "b"], ["setattr", "b/x", "k2", "v"], ["delattr", "b", "k"]],
    [["meta", "/", "dir1"], ["delmeta", "/", "core.dir"], ["meta", "/", "bib1"]],
    [["set", "a/s/y", 1], ["meta", "a/s/y", "file1"], ["meta", "a/s", "dir1"], ["del", "a"], ["set", "a/s/y", 2]],
    [["set", "a/x", 1], ["meta", "a/x", "img1"], ["move", "a", "b"], ["copy", "b", "a", {}], ["delmeta", "a/x", "core.imagefile"]],
    [["set", "d", 1], ["copy", "d", "e", {}]],
]
SCENARIO_OWN_SUBTREE = [["mkgrp", "a"], ["set", "a/x", 1], ["copy", "a", "a/sub", {}]]  # IH5: known non-termination (C01)


# ------------------------------------------------------------------ placements


def with_placement(history, placement):
    """placement: tuple of length len(history)+1 over {'-','c','r'}: boundary *before* op i (last: after the final op)."""
    out = []
    for i, b in enumerate(placement):
        if b == "c":
            out.append(["commit"])
        elif b == "r":
            out.append(["reopen"])
        if i < len(history):
            out.append(history[i])
    return out


def placements(n, mode):
    none = ("-",) * (n + 1)
    res = [none]
    if mode in ("basic", "single", "all"):
        res += [("c",) * (n + 1), ("r",) * (n + 1)]
    if mode in ("single", "all"):
        for i in range(n + 1):
            for b in "cr":
                res.append(tuple(b if j == i else "-" for j in range(n + 1)))
    if mode == "all":
        res += list(itertools.product("-cr", repeat=n + 1))
    seen, out = set(), []
    for p in res:
        if p not in seen:
            seen.add(p)
            out.append(p)
    return out


# ------------------------------------------------------------------ one run


def view(c):
    return {"tree": L.user_dump(c, True), "query": L.query_view(c, QUERY)}


def run_ops(kind, d, ops, op_timeout=10.0, stepwise_views=False):
    """Apply an explicit op list (boundaries included). Returns (statuses of the non-boundary ops, final view | error str, step views)."""
    box = L.open_container(kind, d)
    sts, views = [], []
    try:
        for op in ops:
            if op[0] == "commit":
                if kind != "h5":
                    r = L.apply_cop(box, op, op_timeout)
                    if r[0] != "ok":
                        return sts, f"patch boundary failed: {r}", views
                continue
            if op[0] == "reopen":
                r = L.apply_cop(box, op, op_timeout)
                if r[0] != "ok" or box.c is None:
                    return sts, f"reopen failed: {r}", views
                continue
            r = L.apply_cop(box, op, op_timeout)
            sts.append(r)
            if r[0] == "hang":
                return sts, "hang", views
            if stepwise_views:
                try:
                    with L.watchdog(20):
                        views.append(view(box.c))
                except Exception as e:  # noqa
                    views.append(f"view raised {type(e).__name__}: {e}")
        try:
            with L.watchdog(20):
                v = view(box.c)
        except Exception as e:  # noqa
            v = f"view raised {type(e).__name__}: {e}"
        return sts, v, views
    finally:
        box.destroy()


def strip_boundaries(ops):
    return [o for o in ops if o[0] not in ("commit", "reopen")]


def compare(ref, other):
    """ref/other = (statuses, view, step views) -> list of (aspect, detail)"""
    bad = []
    s1, v1, w1 = ref
    s2, v2, w2 = other
    for i, (a, b) in enumerate(zip(s1, s2)):
        if a[0] != b[0]:
            bad.append(("status", f"step {i}: plain HDF5 {a} vs {b}"))
            return bad  # everything after a diverging step is consequential
    if len(s1) != len(s2):
        bad.append(("status", f"run aborted after {len(s2)} of {len(s1)} steps: {v2 if isinstance(v2, str) else ''}"))
        return bad
    for i, (a, b) in enumerate(zip(w1, w2)):
        if a != b:
            bad.append(_view_diff(a, b, f"after step {i}: "))
            return bad
    if v1 != v2:
        bad.append(_view_diff(v1, v2, "final: "))
    return bad


def _view_diff(v1, v2, where):
    if isinstance(v1, str) or isinstance(v2, str):
        return ("view-raises", where + f"plain HDF5: {v1 if isinstance(v1, str) else 'ok'} / other: {v2 if isinstance(v2, str) else 'ok'}")
    t1, t2 = v1["tree"], v2["tree"]
    p1, p2 = L.dump_paths(t1), L.dump_paths(t2)
    if p1 != p2:
        return ("nodes", where + f"user nodes differ: plain HDF5 {p1} vs {p2}")
    if L.strip_meta(t1) != L.strip_meta(t2):
        return ("data-attrs", where + "same nodes, but dataset values / attributes differ")
    if t1 != t2:
        m1 = {p: sorted(L.sub_dump(t1, p)["meta"]) for p, _ in [("/", "g")] + p1}
        m2 = {p: sorted(L.sub_dump(t2, p)["meta"]) for p, _ in [("/", "g")] + p2}
        return ("metadata", where + f"attached metadata differ: plain HDF5 {m1} vs {m2}" + ("" if m1 != m2 else " (same schemas, different JSON)"))
    return ("query", where + f"query results differ: plain HDF5 {v1['query']} vs {v2['query']}")


def eval_history(rec, d, history, modes, stepwise=False, refcache=None):
    """Evaluate one history under all placements. Returns (ref statuses, ref view digest, n_runs)."""
    ref = run_ops("h5", d, history, stepwise_views=stepwise)
    runs = 0
    n = len(history)
    for kind, mode in modes:
        for pl in placements(n, mode):
            if kind == "h5" and (set(pl) <= {"-", "c"}) and set(pl) != {"-"}:
                continue  # commits are no-ops on plain HDF5
            if kind == "h5" and set(pl) == {"-"}:
                continue  # that is the reference run itself
            ops = with_placement(history, pl)
            other = run_ops(kind, d, ops, stepwise_views=stepwise)
            runs += 1
            bad = compare(ref, other)
            nontriv = any(s[0] == "ok" for s in ref[0])
            rec.case((kind, digest(ops)), nontrivial=nontriv, sample={"kind": kind, "ops": ops} if runs == 1 and n >= 3 else None)
            # clauses: one status clause per step + one view clause
            rec.evaluations += len(ref[0]) + 1 - len(bad)
            for asp, det in bad:
                _report(rec, d, kind, ops, asp, det)
            if rec.full or bad:
                break  # further placements of a history that already diverges on this driver add cost, not information
    return ref[0], digest(ref[1]), runs


def violates(d, kind, ops, aspect=None):
    ref = run_ops("h5", d, strip_boundaries(ops) if kind != "h5" else [o for o in ops if o[0] != "reopen"])
    other = run_ops(kind, d, ops)
    bad = compare(ref, other)
    if aspect is not None:
        bad = [b for b in bad if b[0] == aspect]
    return bad


def _report(rec, d, kind, ops, asp, det):
    # minimise the explicit op list (boundaries are ops too) by greedy removal
    cur = list(ops)
    budget = 20
    changed = True
    while changed and budget > 0:
        changed = False
        for i in range(len(cur) - 1, -1, -1):
            cand = cur[:i] + cur[i + 1 :]
            budget -= 1
            try:
                if violates(d, kind, cand, asp):
                    cur, changed = cand, True
                    break
            except Exception:  # noqa
                pass
            if budget <= 0:
                break
    bad = violates(d, kind, cur, asp)
    if bad:
        det = bad[0][1]
    else:
        cur = list(ops)
    kinds = ["boundary" if o[0] in ("commit", "reopen") else o[0] if o[0] != "copy" else ("copy-into" if (len(o) > 3 and o[3] and o[3].get("into")) else "copy") for o in cur]
    needs_boundary = any(o[0] in ("commit", "reopen") for o in cur)
    fam = "ih5" if kind != "h5" else "h5"
    if asp == "status":
        # the diverging step identifies the defect class better than the whole history
        import re

        m = re.match(r"step (\d+):", det)
        user_kinds = [k for k in kinds if k != "boundary"]
        step_kind = user_kinds[int(m.group(1))] if m and int(m.group(1)) < len(user_kinds) else "?"
        sig = f"c09:status:{fam}:{step_kind}" + (":after-hang" if "hang" in det else "")
    else:
        sig = f"c09:{asp}:{fam}:{'patched' if needs_boundary else 'single-container'}:" + digest(kinds)
    fns = ["ih5/overlay.py:IH5InnerNode._children"] if needs_boundary and asp in ("nodes", "data-attrs") else ["container/wrappers.py:MetadorGroup", "ih5/overlay.py:IH5Group"]
    rec.check(False, sig, f"{kind}: ops {cur}: {det}"[:900], case={"kind": kind, "ops": cur, "aspect": asp}, fns=fns)


# ------------------------------------------------------------------ run / replay


def _skip(op):
    return L.is_move_into_own_subtree(op) or L.is_copy_into_own_subtree(op)


def run(tier: str, seed: int) -> dict:
    rec = Recorder(PID, DRV)
    quick = tier == "quick"
    total = 52.0 if quick else 560.0
    t0 = time.time()
    alpha = list(ALPHA) + ([] if quick else ALPHA_EXTRA)
    modes_bfs = [("h5", "basic"), ("ih5", "basic"), ("ih5mf", "basic")] if quick else [("h5", "basic"), ("ih5", "single"), ("ih5mf", "basic")]
    modes_scen = [("h5", "basic"), ("ih5", "single"), ("ih5mf", "basic")] if quick else [("h5", "basic"), ("ih5", "all"), ("ih5mf", "single")]
    max_depth = 4 if quick else 6
    info = {"scenarios": 0, "runs": 0, "levels": {}, "walks": 0}
    with tmpdir(prefix=TMP_PREFIX) as d:
        # 1. hand-picked scenarios (length 2..6), richest placement set
        t_scen = t0 + total * (0.4 if quick else 0.2)
        for h in SCENARIOS:
            if time.time() > t_scen or rec.full:
                break
            mm = modes_scen if len(h) <= 4 or quick else [("h5", "basic"), ("ih5", "single"), ("ih5mf", "single")]
            _, _, r = eval_history(rec, d, h, mm)
            info["runs"] += r
            info["scenarios"] += 1
        if not quick and not rec.full:
            # copy of a group into its own subtree: inside the documented subset; IH5 is known not to terminate (C01)
            ref = run_ops("h5", d, SCENARIO_OWN_SUBTREE)
            other = run_ops("ih5", d, SCENARIO_OWN_SUBTREE, op_timeout=5.0)
            rec.case(("ih5", "own-subtree"), True)
            for asp, det in compare(ref, other):
                rec.check(False, f"c09:{asp}:ih5:copy-into-own-subtree", f"ih5: ops {SCENARIO_OWN_SUBTREE}: {det}", case={"kind": "ih5", "ops": SCENARIO_OWN_SUBTREE, "aspect": asp, "op_timeout": 5.0}, fns=["ih5/overlay.py:h5_copy_from_to"])
        # 2. BFS over abstract states (final view of the plain-HDF5 run): every op of the alphabet from every distinct state
        t_bfs = t0 + total * (1.0 if quick else 0.8)
        seen = {digest(run_ops("h5", d, [])[1])}
        frontier = [[]]
        r_ = rng(seed, "c09:bfs")
        for depth in range(1, max_depth + 1):
            edges = [(h, op) for h in frontier for op in alpha if not _skip(op)]
            if depth > 1:
                r_.shuffle(edges)
            nxt, done = [], 0
            for h, op in edges:
                if time.time() > t_bfs or rec.full:
                    break
                hh = h + [op]
                sts, vd, r = eval_history(rec, d, hh, modes_bfs)
                info["runs"] += r
                done += 1
                if sts and sts[-1][0] == "ok" and vd not in seen:
                    seen.add(vd)
                    nxt.append(hh)
            info["levels"][depth] = {"edges_done": done, "edges_total": len(edges), "new_states": len(nxt)}
            frontier = nxt
            if done < len(edges) or not frontier:
                break
        # 3. thorough: seeded random walks (length 5..6 quick none), views compared after every step
        if not quick:
            rw = rng(seed, "c09:walks")
            while time.time() < t0 + total and not rec.full:
                n = rw.randint(4, 6)
                h = []
                while len(h) < n:
                    op = rw.choice(alpha)
                    if not _skip(op):
                        h.append(op)
                pls = [("c",) * (n + 1), tuple(rw.choice("-cr") for _ in range(n + 1)), tuple(rw.choice("-c") for _ in range(n + 1))]
                ref = run_ops("h5", d, h, stepwise_views=True)
                for kind, pl in [("ih5", pls[0]), ("ih5", pls[1]), ("ih5mf", pls[2])]:
                    ops = with_placement(h, pl)
                    other = run_ops(kind, d, ops, stepwise_views=True)
                    info["runs"] += 1
                    bad = compare(ref, other)
                    rec.case((kind, digest(ops)), nontrivial=any(s[0] == "ok" for s in ref[0]))
                    rec.evaluations += 2 * len(ref[0]) + 1 - len(bad)
                    for asp, det in bad:
                        _report(rec, d, kind, ops, asp, det)
                info["walks"] += 1
    lv = "; ".join(f"depth {k}: {v['edges_done']}/{v['edges_total']} (state, op) edges, {v['new_states']} new states" for k, v in info["levels"].items())
    return rec.result(
        rule="case = (driver, explicit op list incl. patch-boundary/reopen placement); non-trivial iff at least one step succeeds. "
        "Histories: hand-picked scenarios + breadth-first over distinct abstract states (final plain-HDF5 view), every alphabet op from every state "
        "(edges of an incomplete level in seeded random order); each history under a set of placements per driver",
        bound=f"alphabet {len(alpha)} container ops (paths a, a/x, a/s/y, d, b, y, ...; 4 schemas, 5 objects); {info['scenarios']} scenarios (len 2-6) with placements {modes_scen}; "
        f"BFS {lv} with placements {modes_bfs} (basic = none/all-commit/all-reopen, single = basic + one boundary at each position x {{commit, reopen}}, all = every 3^(n+1) placement); "
        f"{info['walks']} seeded walks of length 4-6 with stepwise view comparison; {info['runs']} IH5/reopen runs compared against the plain HDF5 run",
        exhaustive=False,
        assumptions=[
            "documented IH5 subset: printable-ASCII keys without '@', no links; moving/copying a node into its own subtree excluded from the enumeration (one explicit copy-into-own-subtree scenario in thorough)",
            "success/failure compared per step, exception classes ignored",
            "metadata compared as parsed JSON of node.meta.get(schema).json() for every schema listed by node.meta.keys(); queries for core.file, core.imagefile, core.dir, core.bib over the whole container",
            "prefix-closed enumeration: the view after each step of a history is the final view of its prefix",
        ],
        trusted=["rac/contlib2.py user_dump/query_view", "installed schema plugins core.file/imagefile/dir/bib"],
        extra={"info": info},
    )


def replay(case: dict):
    with tmpdir(prefix=TMP_PREFIX) as d:
        kind, ops = case["kind"], case["ops"]
        ref = run_ops("h5", d, strip_boundaries(ops) if kind != "h5" else [o for o in ops if o[0] != "reopen"])
        other = run_ops(kind, d, ops, op_timeout=case.get("op_timeout", 10.0))
        bad = compare(ref, other)
        hit = [b for b in bad if case.get("aspect") in (None, b[0])]
        return bool(hit), ("; ".join(f"{a}: {d_}" for a, d_ in hit)[:700] if hit else "plain HDF5 and IH5 runs agree on every step and on the final view")
