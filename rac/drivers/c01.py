"""C01 bounded driver: whole-history refinement of the IH5 overlay against a single plain tree (in-memory h5py).

Contract after EVERY operation of a history applied in lock-step to an IH5Record (mode 'x', temp dir) and to the
reference tree:  (a) same success/failure (a hang of IH5 where h5py returns is a violation; exception classes need not
agree), (b) dump_tree equal, (c) visititems lists the same (path, kind) set, (d) a failed operation left the view
unchanged; and after the history: close, reopen read-only by name, dump still equals the reference.
"""
from __future__ import annotations

import time
from pathlib import Path

from rac import base  # noqa: F401  (numpy shim first)
from rac.base import Recorder, digest, tmpdir
from rac import ih5hist as H

QUICK_BUDGET_S = 57.0
THOROUGH_BUDGET_S = 560.0
MINIMISE_PER_KIND = 1


def _fns(fail, op):
    k = fail["kind"]
    if k == "hang":
        return [H.FN["copy"], "ih5/overlay.py:IH5Group.copy", "ih5/overlay.py:IH5Group.visititems"] if op[0] in ("copy", "move") else [H.FN.get(op[0], "")]
    if k in ("tree-mismatch", "visit-mismatch", "reopen-mismatch", "read-crash"):
        w = [H.FN[op[0]]] if op[0] in H.FN else []
        # newly created data hidden -> the writer first; stale data visible / crash -> the read kernel first
        writer_first = op[0] in ("copy", "move") or ((fail.get("cls") or "").startswith("missing") and "kind" not in fail["cls"])
        return w + [H.FN_CHILDREN] if writer_first else [H.FN_CHILDREN] + w
    if op[0] in H.FN:
        return [H.FN[op[0]]]
    return []


def _signature(fail, hmin):
    k, ok = fail["kind"], fail["opkind"]
    if k == "hang":
        return f"c01:hang:{ok}"
    if k == "tree-mismatch":
        return f"c01:tree-mismatch:{fail['cls'] or 'other'}:{ok}:{digest(hmin)}"
    return f"c01:{k}:{ok}:{digest(hmin)}"


class Collector:
    def __init__(self, rec: Recorder, root: Path):
        self.rec, self.root = rec, root
        self.by_kind = {}  # coarse kind -> [signature,...]
        self.hang_timeouts = {}
        self.confirm_hangs = True
        self.n_fail_evals = 0

    def add_pass(self, n):
        self.rec.evaluations += max(0, n)

    def fail(self, history, f, phase):
        """One failed contract evaluation on `history` (violation index f['idx'])."""
        self.n_fail_evals += 1
        ck = H.coarse(f)
        sigs = self.by_kind.setdefault(ck, [])
        if len(sigs) >= MINIMISE_PER_KIND or self.rec.full:
            # same failing class as an already minimised violation: counted as failed evaluation of that signature
            self.rec.check(False, sigs[0] if sigs else f"c01:{f['kind']}:{f['opkind']}:unminimised", f["what"], case={"history": history, "kind": f["kind"]}, fns=_fns(f, f["op"]))
            return
        hmin, fmin = H.minimise(history, f, self.root, hang_timeouts=self.hang_timeouts)
        if f["kind"] == "hang" and self.confirm_hangs:
            # confirm with the full watchdog before reporting
            r = H.run_history(hmin, self.root, reopen=False)
            if not any(x["kind"] == "hang" for x in r["fails"]):
                hmin, fmin = list(history[: f["idx"] + 1]), f
        sig = _signature(fmin, hmin)
        sigs.append(sig)
        if f["kind"] == "hang" and hmin != list(history[: f["idx"] + 1]):
            fmin = dict(fmin, what=fmin["what"] + f" (before minimisation, history {list(history[: f['idx'] + 1])} exceeded the full {H.OP_TIMEOUT_S}s watchdog)")
        self.rec.check(False, sig, f"[{phase}] minimal history {hmin}: {fmin['what']}", case={"history": hmin, "kind": fmin["kind"]}, fns=_fns(fmin, fmin["op"]))


def _run_scenarios(col: Collector, names, phase="scenario"):
    """Curated histories, serial, in this process. Returns set of scenario names that hung."""
    rec = col.rec
    hung = set()
    for name in names:
        hist = H.SCENARIOS[name]
        r = H.run_history(hist, col.root, hang_timeouts=col.hang_timeouts)
        for i in range(r["steps"] + (1 if r["fails"] else 0)):
            rec.case(("scn", name, i), nontrivial=True)
        if len(rec.samples) < 2:
            rec.case(("scn", name), nontrivial=False, sample={"scenario": name, "history": hist, "violations": [f["kind"] for f in r["fails"]]})
        col.add_pass(r["evals"] - len(r["fails"]))
        for f in r["fails"]:
            if f["kind"] == "hang":
                hung.add(name)
                # the first hang was observed with the full 10 s watchdog; re-checks of the same op class use 1.5 s
                col.hang_timeouts["selfcopy" if H.is_selfcopy(f["op"]) else f["opkind"]] = 1.5
            col.fail(hist, f, f"{phase}:{name}")
    return hung


def run(tier: str, seed: int) -> dict:
    rec = Recorder("C01", "c01", max_violations=16)
    t0 = time.time()
    quick = tier != "thorough"
    budget = QUICK_BUDGET_S if quick else THOROUGH_BUDGET_S
    bound_parts, notes = [], rec.notes
    pool = H.Pool()  # fork before this process opens any HDF5 file
    try:
        with tmpdir() as root, pool:  # the pool is terminated before the temp dir is removed
            col = Collector(rec, root)
            col.confirm_hangs = not quick  # quick: the un-minimised history was seen to hang for the full 10 s
            # ---- 1. curated multi-container scenarios (always)
            others = [n for n in H.SCENARIOS if n not in H.SELFCOPY_SCENARIOS]
            _run_scenarios(col, others)
            sc = H.SELFCOPY_SCENARIOS
            hung = _run_scenarios(col, sc)
            selfcopy = not hung
            if hung:
                notes.append(f"copy-into-own-subtree hangs in curated scenarios {sorted(hung)} (violation reported): such copies are left out of the BFS / random alphabets of this run to protect the time budget")
            bound_parts.append(f"{len(others) + len(sc)} curated multi-container histories (length <= {max(len(h) for h in H.SCENARIOS.values())}, <= 4 containers)")
            t_scn = time.time() - t0

            # ---- 2. BFS
            def on_result(res):
                col.add_pass(res["evals"] - len(res["fails"]))
                for op, changed, key, nontrivial in res["succ"]:
                    rec.case(digest([res["history"], op]), nontrivial=nontrivial)
                if len(rec.samples) < rec.max_samples and res["succ"] and len(res["history"]) >= 2:
                    rec.case("sample", nontrivial=False, sample={"state_history": res["history"], "ops_tried": res["nops"], "first_ops": [s[0] for s in res["succ"][:3]]})
                for hist2, f in res["fails"]:
                    col.fail(hist2, f, "bfs")

            def do_bfs(keys, level, max_len, max_cont, deadline, label):
                r = H.bfs(pool, root, keys, level, max_len, max_cont, deadline, check=True, selfcopy=selfcopy, on_result=on_result, seed=seed)
                lv = "; ".join(f"len {x['len']}: {x['expanded_states']}/{x['of']} states expanded, {x['successors']} successors, {x['new_states']} new states, {x['wall_s']}s" for x in r["levels"])
                part = f" (length {r['partial']['len']} only partially: {r['partial']['expanded_states']}/{r['partial']['of']} frontier states, time budget)" if r["partial"] else ""
                if r["crashes"]:
                    notes.append(f"BFS[{label}]: {len(r['crashes'])} harness task crashes (states not expanded), first: {r['crashes'][0][-400:]}")
                bound_parts.append(f"BFS[{label}] keys {keys}, alphabet level {level}, depth<=3 paths, <= {max_cont} containers: all histories of length <= {r['complete_len']} exhaustively up to state de-duplication{part} [{lv}]; {len(r['states'])} distinct physical states")
                return r

            if quick:
                r = do_bfs(H.KEYS_AB, 0, 4, 3, t0 + budget, "quick")
                exhaustive = r["complete_len"] >= 4 and selfcopy
            else:
                rem = budget - (time.time() - t0)
                r1 = do_bfs(H.KEYS_AB, 0, 6, 5, time.time() + rem * 0.45, "ab-pruned")
                r2 = do_bfs(H.KEYS_AB, 1, 6, 5, time.time() + rem * 0.2, "ab-wide")
                r3 = do_bfs(H.KEYS_ODD, 0, 4, 3, time.time() + rem * 0.12, "odd-keys")
                exhaustive = r1["complete_len"] >= 6 and selfcopy
                # ---- 3. seeded random walks of length 40
                nwalk, wi, wfail = 0, 0, 0
                while time.time() - t0 < budget - 8:
                    tasks = [{"seed": seed, "idx": wi + j, "length": 40, "keys": H.KEYS_ALL, "max_containers": 8, "root": str(root), "selfcopy": selfcopy} for j in range(pool.n * 2)]
                    wi += len(tasks)
                    for res in pool.map(H.random_walk, tasks):
                        if res.get("crash"):
                            if sum("walk crashed" in n for n in notes) < 2:
                                notes.append(f"walk crashed (harness): {res['crash'][-400:]}")
                            continue
                        nwalk += 1
                        col.add_pass(res["evals"] - len(res["fails"]))
                        for i in range(res["steps"]):
                            rec.case(("walk", seed, res["idx"], i), nontrivial=True)
                        if res["fails"]:
                            wfail += 1
                        for f in res["fails"]:
                            col.fail(res["history"], f, f"walk#{res['idx']}")
                    if nwalk >= 4000:
                        break
                bound_parts.append(f"{nwalk} seeded random walks (seed {seed}) of length 40 over keys {H.KEYS_ALL}, <= 8 containers, mixed value types ({wfail} walks ended in a violation)")
            notes.append(f"wall: scenarios {t_scn:.1f}s, total {time.time() - t0:.1f}s; workers {pool.n}; failed evaluations {col.n_fail_evals}")
    finally:
        pool.close()
    return rec.result(
        rule="case = one (physical state, operation) transition of a history applied in lock-step to IH5Record and an in-memory h5py tree; "
        "distinct = distinct (shortest history of the de-duplicated physical state, operation); non-trivial = the operation changed the state or raised; "
        "operation alphabet is pruned relative to the current tree (existing nodes, their fresh children, one representative per failing class); "
        "moves into the own subtree excluded, copies into the own subtree included",
        bound="; ".join(bound_parts),
        exhaustive=bool(exhaustive),
        assumptions=[
            "reference semantics = h5py in-memory file (single plain HDF5 tree); values np.void(b'\\x7f') and attribute key '\\x1a' excluded (documented IH5 restriction)",
            "an operation exceeding the watchdog (10 s on first occurrence, 1.5 s for re-checks of an op class already seen to hang; normal ops take < 50 ms) is treated as non-terminating",
            "visit order is not part of the contract (only the set of (path, kind) pairs)",
        ],
        trusted=["h5py/HDF5 as the single-tree reference", "rac/ih5lib.py dump_tree/dump_visit/apply_op"],
    )


def replay(case: dict):
    hist = case["history"]
    with tmpdir() as root:
        r = H.run_history(hist, root, reopen=True)
    if r["fails"]:
        f = r["fails"][0]
        return True, f"{f['kind']} at op #{f['idx']} {f['op']}: {f['what']}"
    return False, f"history of {len(hist)} ops refines the single tree ({r['evals']} contract evaluations passed)"
