"""C20 -- containers are self-describing about the schemas they use (bounded tier).

After every operation of the C06 histories (live container) and after close+reopen (fresh container), for EVERY metadata
object found by the independent raw-tree scanner:
  * the container stores the JSON Schema of the object's schema (/metador_container/schemas/<ep>/jsonschema.json), the
    chain of parent schemas (compat) and a package record (name, version, plugin list) providing the schema;
  * the object's raw JSON bytes validate (jsonschema, draft-07) against the EMBEDDED JSON Schema;
  * embedded JSON Schema / parent chain / provider equal what the plugin system reports
    (class.schema(), schemas.parent_path, schemas.provider);
  * the TOC API of the live container (toc.schemas[...], parent_path, provider, packages) reports exactly the embedded
    description, and a freshly opened container reports the same as the one that wrote it.
"""
from __future__ import annotations

import hashlib
import json

import jsonschema
from typing import Optional  # noqa: F401  (annotations of the synthetic schema classes are resolved in this module)

from rac import base  # noqa: F401  (numpy shim first)
from rac import contlib as C
from rac.base import digest

from metador_core.plugins import schemas

F_REG = ["container/interface.py:TOCSchemas._register", "container/interface.py:TOCSchemas._unregister"]
F_PKG = ["container/interface.py:TOCPackages._register", "container/interface.py:TOCPackages._unregister", "plugin/interface.py:PluginGroup.provider"]
F_API = ["container/interface.py:TOCSchemas.__getitem__", "container/interface.py:TOCSchemas.parent_path", "container/interface.py:TOCSchemas.provider",
         "container/interface.py:TOCSchemas.__init__", "container/interface.py:TOCPackages.__init__"]  # fmt: skip
F_JS = ["schema/core.py:SchemaBase.Config.schema_extra", "schema/parser.py:ParserMixin.__modify_schema__", "container/interface.py:MetadorMeta._set_raw"]


def _hb(b):
    return hashlib.sha256(b or b"").hexdigest()


class Checker(C.BaseChecker):
    PID = "C20"
    DRV = "c20"

    def __init__(self, rec, minimise=True):
        super().__init__(rec, minimise)
        self._validators = {}
        self._valid_cache = {}
        self._plugin_cache = {}

    # ---- plugin-system truth (cached per ep) -------------------------------------------------------
    def plugin_truth(self, name, ver):
        key = (name, tuple(ver))
        if key not in self._plugin_cache:
            ent = {}
            info = C.FAMILY.get(key)
            try:
                ent["parent_path"] = [{"group": r.group, "name": r.name, "version": list(r.version)} for r in schemas.parent_path(name, tuple(ver))]
            except Exception as e:  # noqa
                ent["parent_path"] = f"!{type(e).__name__}: {e}"
            try:
                ent["provider"] = json.loads(schemas.provider(schemas.PluginRef(name=name, version=tuple(ver))).json())
            except Exception as e:  # noqa
                ent["provider"] = f"!{type(e).__name__}: {e}"
            try:
                ent["jsonschema"] = json.loads(info.cls.schema_json()) if info else None
            except Exception as e:  # noqa
                ent["jsonschema"] = f"!{type(e).__name__}: {e}"
            self._plugin_cache[key] = ent
        return self._plugin_cache[key]

    def before(self, h, op):
        if op[0] == "reopen":
            try:
                h.c20_api = C.api_state(h.mc)
            except Exception:  # noqa
                h.c20_api = None

    # ------------------------------------------------------------------------------------------------
    def check(self, st):
        h, rec, S = st.h, self.rec, st.scan
        opk = st.op[0]
        used = sorted({o["ep"] for o in S["objects"]})
        rec.case(digest([st.kind, st.model_before.key(), st.op]), nontrivial=bool(used) or opk in ("attach", "detach"),
                 sample={"kind": st.kind, "history": st.history, "status": st.status, "used": used})  # fmt: skip
        phase = "reopened" if opk == "reopen" else "live"

        for ep in used:
            name, ver = C.parse_ep(ep)
            ent = S["schema_groups"].get(ep)
            truth = self.plugin_truth(name, ver)
            objs = [o for o in S["objects"] if o["ep"] == ep]
            # --- description present ---
            if ent is None or ent["jsonschema"] is None or ent["compat"] is None:
                self.report(st, "c20:description-missing", f"objects of {ep} stored ({[o['path'] for o in objs][:2]}) but schemas/{ep} lacks jsonschema.json/compat: {ent and ent['members']}", F_REG)
                continue
            try:
                emb = json.loads(ent["jsonschema"].decode("utf-8"))
            except Exception as e:  # noqa
                self.report(st, "c20:embedded-schema-not-json", f"schemas/{ep}/jsonschema.json is not JSON: {e}", F_REG)
                continue
            prov = [(pk, pe["json"]) for pk, pe in S["packages"].items() if pe["json"] is not None and C._pkg_provides(pe["json"], name, ver)]
            if not prov:
                self.report(st, "c20:provider-record-missing", f"objects of {ep} stored but no package record lists it; records: {sorted(S['packages'])}", F_PKG + F_REG)
            else:
                self.ok()
                for pk, pj in prov:
                    if not (isinstance(pj.get("name"), str) and isinstance(pj.get("version"), list) and isinstance(pj.get("plugins"), dict)):
                        self.report(st, "c20:provider-record-incomplete", f"package record {pk} lacks name/version/plugins: {str(pj)[:200]}", F_PKG)

            # --- every stored object validates against the EMBEDDED schema (draft-07) ---
            hs = _hb(ent["jsonschema"])
            if hs not in self._validators:
                try:
                    jsonschema.Draft7Validator.check_schema(emb)
                    self._validators[hs] = jsonschema.Draft7Validator(emb)
                except Exception as e:  # noqa
                    self._validators[hs] = f"{type(e).__name__}: {str(e)[:300]}"
            val = self._validators[hs]
            if isinstance(val, str):
                self.report(st, f"c20:embedded-schema-invalid-draft07:{name}", f"embedded JSON Schema of {ep} is not a valid draft-07 schema: {val}", F_JS)
            else:
                for o in objs:
                    ck = (hs, _hb(o["bytes"]))
                    if ck not in self._valid_cache:
                        try:
                            inst = json.loads(o["bytes"].decode("utf-8"))
                            errs = sorted(val.iter_errors(inst), key=lambda e: list(e.path))
                            self._valid_cache[ck] = [f"{'/'.join(map(str, e.absolute_path))}: {e.message[:200]}" for e in errs[:3]]
                        except Exception as e:  # noqa
                            self._valid_cache[ck] = [f"not JSON / validator crash: {type(e).__name__}: {str(e)[:200]}"]
                    errs = self._valid_cache[ck]
                    if errs:
                        self.report(st, f"c20:object-invalid-against-embedded-schema:{name}",
                                    f"stored object {o['path']} = {o['bytes'][:200]!r} does not validate against the embedded JSON Schema of {ep}: {errs}", F_JS)  # fmt: skip
                    else:
                        self.ok()

            # --- embedded description == plugin system ---
            if truth["parent_path"] != ent["compat"]:
                self.report(st, f"c20:compat!=plugin-parent-path:{name}", f"embedded parent chain of {ep}: {ent['compat']} != schemas.parent_path: {truth['parent_path']}", F_REG + ["schema/pg.py:PGSchema.parent_path"])
            else:
                self.ok()
            if truth["jsonschema"] is not None and truth["jsonschema"] != emb:
                self.report(st, f"c20:embedded-schema!=plugin-schema:{name}", f"embedded JSON Schema of {ep} differs from the JSON Schema of the installed class ({str(truth['jsonschema'])[:150]} ...)", F_REG)
            else:
                self.ok()
            if isinstance(truth["provider"], dict):
                if not any(pj == truth["provider"] for _, pj in prov):
                    self.report(st, f"c20:provider!=plugin-provider:{phase}", f"stored provider records of {ep}: {[pk for pk, _ in prov]} do not contain what schemas.provider reports: {truth['provider'].get('name')} {truth['provider'].get('version')} (or plugin lists differ)", F_PKG)
                else:
                    self.ok()
            else:
                self.report(st, "c20:plugin-provider-unavailable", f"schemas.provider({ep}) fails: {truth['provider']}", F_PKG)

            # --- what the container API reports == embedded description ---
            try:
                ts = h.mc.metador.schemas
                ref = schemas.PluginRef(name=name, version=tuple(ver))
                api = {}
                api["in"] = ref in ts
                api["json"] = ts[ref]
                api["get"] = ts.get(ref)
                api["items"] = {C.ref_ep(k): v for k, v in ts.items()}.get(ep, "missing")
                api["pp"] = [{"group": r.group, "name": r.name, "version": list(r.version)} for r in ts.parent_path(ref)]
                api["prov"] = json.loads(ts.provider(ref).json())
            except Exception as e:  # noqa
                self.report(st, f"c20:api-raises:{phase}:{type(e).__name__}", f"toc.schemas API for used schema {ep} raises {type(e).__name__}: {e}", F_API)
                continue
            bad = []
            if api["in"] is not True:
                bad.append("ref not in toc.schemas")
            if api["json"] != emb:
                bad.append("toc.schemas[ref] != embedded JSON Schema")
            if api["get"] != emb:
                bad.append(f"toc.schemas.get(ref) {'reports nothing (None) instead of' if api['get'] is None else 'reports something else than'} the embedded JSON Schema")
            if api["items"] != emb:
                bad.append("toc.schemas.items() does not list the embedded JSON Schema for it")
            if api["pp"] != ent["compat"]:
                bad.append(f"parent_path {api['pp']} != compat {ent['compat']}")
            if not any(api["prov"] == pj for _, pj in prov):
                bad.append(f"provider {api['prov'].get('name')} not among stored records providing it")
            if bad:
                self.report(st, f"c20:api!=embedded:{phase}", f"{ep}: " + "; ".join(bad), F_API)
            else:
                self.ok()

        # --- packages API == stored records; schema set == used ---
        try:
            ts = h.mc.metador.schemas
            api_pk = {C._pkg_ep(k): json.loads(v.json()) for k, v in ts.packages.items()}
            stored_pk = {pk: pe["json"] for pk, pe in S["packages"].items()}
            if api_pk != stored_pk:
                self.report(st, "c20:packages-api!=stored", f"toc.schemas.packages reports {sorted(api_pk)}, stored records {sorted(stored_pk)} (or contents differ)", F_API)
            else:
                self.ok()
            api_keys = sorted(C.ref_ep(r) for r in ts.keys())
            if api_keys != used:
                self.report(st, "c20:schemas-api!=used", f"toc.schemas.keys() = {api_keys}, schemas of stored objects: {used}", F_API + F_REG)
            else:
                self.ok()
        except Exception as e:  # noqa
            self.report(st, f"c20:api-raises:{phase}:{type(e).__name__}", f"toc.schemas API raises {type(e).__name__}: {e}", F_API)

        # --- a freshly opened container reports the same ---
        if opk == "reopen" and st.status == "ok":
            before = getattr(h, "c20_api", None)
            if before is not None:
                after = C.api_state(h.mc)
                flds = set()
                for ep in set(before["schemas"]) | set(after["schemas"]):
                    a, b = before["schemas"].get(ep), after["schemas"].get(ep)
                    if a is None or b is None:
                        flds.add("schema-set")
                    else:
                        # children/versions are C06/C07 business (index), the self-description is jsonschema/parent_path/provider
                        flds |= {f for f in ("jsonschema", "parent_path", "provider") if a.get(f) != b.get(f)}
                if before["packages"] != after["packages"]:
                    flds.add("packages")
                if flds:
                    self.report(st, "c20:reopened-reports-differently:" + ",".join(sorted(flds)), f"fresh container reports a different self-description than the writing one: fields {sorted(flds)}", F_API)
                else:
                    self.ok()
        elif opk == "reopen":
            self.report(st, f"c20:reopen-raises:{st.exc}", f"reopening the container raised {st.exc}: {st.msg}", F_API)


# ---------------------------------------------------------------------------------------------
# extra phase: descendants stored under an ancestor schema, in a family whose constants are overridden
# ---------------------------------------------------------------------------------------------
_CONST_FAMILY = {}


def const_family():
    """vk.base <- vk.mid <- vk.leaf; mid overrides the constant field `kind` of base (registered once, not part of the explored alphabets)."""
    if _CONST_FAMILY:
        return _CONST_FAMILY
    from typing import Optional

    from metador_core.schema import MetadataSchema
    from metador_core.schema.decorators import add_const_fields
    from metador_core.schema.plugins import PluginPkgMeta, PluginRef

    dist = C._Dist("vk-pkg", "0.1.0")
    refs = []

    def reg(cls):
        n, v = cls.Plugin.name, tuple(cls.Plugin.version)
        schemas._add_ep(C.ep_of(n, v), C._EP(C.ep_of(n, v), cls, dist))
        refs.append(PluginRef(group="schema", name=n, version=v))

    V = (0, 1, 0)

    @add_const_fields({"kind": "base", "@marker": {"level": 0}})
    class VkBase(MetadataSchema):
        class Plugin:
            name = "vk.base"
            version = (0, 1, 0)

        f: int
        note: Optional[str]

    reg(VkBase)
    schemas._PKG_META["vk-pkg"] = PluginPkgMeta(name="vk-pkg", version=(0, 1, 0), plugins={"schema": list(refs)})
    BaseV = schemas.get("vk.base", V)

    @add_const_fields({"kind": "mid"}, override=True)
    class VkMid(BaseV):  # type: ignore
        class Plugin:
            name = "vk.mid"
            version = (0, 1, 0)

        g: Optional[str]

    reg(VkMid)
    schemas._PKG_META["vk-pkg"] = PluginPkgMeta(name="vk-pkg", version=(0, 1, 0), plugins={"schema": list(refs)})
    MidV = schemas.get("vk.mid", V)

    @add_const_fields({"@marker": {"level": 2}}, override=True)
    class VkLeaf(MidV):  # type: ignore
        class Plugin:
            name = "vk.leaf"
            version = (0, 1, 0)

        h: bool = False

    reg(VkLeaf)
    schemas._PKG_META["vk-pkg"] = PluginPkgMeta(name="vk-pkg", version=(0, 1, 0), plugins={"schema": list(refs)})
    for r in refs:
        schemas._ensure_is_loaded(schemas.PluginRef(name=r.name, version=r.version))
    for n in ("vk.base", "vk.mid", "vk.leaf"):
        _CONST_FAMILY[n] = schemas.get(n, V)
    return _CONST_FAMILY


def phase_descendant_as_ancestor(chk, rec, d, bounds):
    """A descendant instance attached under an ancestor schema is stored as given (with the descendant's constants):
    it must still validate against the embedded JSON Schema of the schema it is filed under."""
    try:
        fam = const_family()
    except Exception as e:  # noqa
        rec.notes.append(f"constant-override family could not be registered: {type(e).__name__}: {e}")
        return
    objs = {"vk.base": fam["vk.base"](f=1), "vk.mid": fam["vk.mid"](f=2, g="g"), "vk.leaf": fam["vk.leaf"](f=3, h=True, note="n")}
    chain = ["vk.base", "vk.mid", "vk.leaf"]
    n = 0
    for kind in ("h5", "ih5"):
        wd = d / f"desc_{kind}"
        wd.mkdir()
        h = C.Handle(kind, wd)
        try:
            i = 0
            for ai, anc in enumerate(chain):
                for desc in chain[ai:]:
                    path = f"/n{i}"
                    i += 1
                    h.mc[path] = i
                    h.mc[path].meta[anc] = objs[desc]
            h.reopen()
            S = C.scan_toc(h.raw)
            for o in S["objects"]:
                name, ver = C.parse_ep(o["ep"])
                ent = S["schema_groups"].get(o["ep"])
                case = {"part": "descendant-as-ancestor", "kind": kind, "path": o["path"], "ep": o["ep"]}
                rec.case(("desc-as-anc", kind, o["path"]), nontrivial=True)
                if ent is None or ent["jsonschema"] is None:
                    rec.check(False, "c20:description-missing", f"object {o['path']} of {o['ep']} stored but no embedded JSON Schema", case, F_REG)
                    continue
                emb = json.loads(ent["jsonschema"].decode("utf-8"))
                inst = json.loads(o["bytes"].decode("utf-8"))
                errs = [f"{'/'.join(map(str, e.absolute_path))}: {e.message[:160]}" for e in jsonschema.Draft7Validator(emb).iter_errors(inst)][:3]
                rec.check(not errs, f"c20:object-invalid-against-embedded-schema:{name}", f"[{kind}] stored object {o['path']} = {o['bytes'][:160]!r} (a descendant instance filed under {o['ep']}) does not validate against the embedded JSON Schema: {errs}", case, F_JS)
                n += 1
        except Exception as e:  # noqa
            rec.violated(f"c20:descendant-as-ancestor:driver-exception:{type(e).__name__}", f"[{kind}] {type(e).__name__}: {e}", {"part": "descendant-as-ancestor", "kind": kind}, F_REG)
        finally:
            h.close()
    bounds["desc_as_anc"] = f"descendant-as-ancestor: {n} stored objects (3-level family with overridden constants, every descendant under every ancestor, both drivers, after reopen)"


def phase_none_for_required(chk, rec, d, bounds):
    """None supplied explicitly for a field the JSON Schema requires. The harness' instance lists never say None; a schema class that accepts
    it has accepted a valid instance like any other: what it serialises to (= what gets stored) must validate against the class' JSON Schema
    (= the embedded one, compared elsewhere) and be readable again."""
    import copy as _copy

    fam = C.install_families()
    n = acc = 0
    for (name, ver), info in sorted(fam.items()):
        if not info.instances:
            continue
        try:
            js = json.loads(info.cls.schema_json())
        except Exception:  # noqa
            continue
        val = jsonschema.Draft7Validator(js)
        for f in js.get("required", []):
            if f.startswith("@") or f not in info.instances[0]:
                continue
            dct = _copy.deepcopy(info.instances[0])
            dct[f] = None
            n += 1
            case = {"part": "none-for-required", "schema": name, "version": list(ver), "field": f}
            rec.case(("none-for-required", name, ver, f), nontrivial=True)
            try:
                obj = info.cls.parse_obj(dct)
            except Exception:  # noqa  refused: nothing is stored
                rec.check(True, "", "")
                continue
            acc += 1
            raw = bytes(obj)
            errs = [f"{'/'.join(map(str, e.absolute_path))}: {e.message[:120]}" for e in val.iter_errors(json.loads(raw))][:3]
            rec.check(not errs, f"c20:object-invalid-against-embedded-schema:{name}", f"{name} accepts {f}=None, serialises it as {raw[:160]!r}, which does not validate against its JSON Schema: {errs}", case, F_JS + ["schema/decorators.py:make_mandatory"])
            try:
                info.cls.parse_raw(raw)
                back = None
            except Exception as e:  # noqa
                back = e
            rec.check(back is None, f"c20:stored-object-unreadable:{name}", f"{name} accepts {f}=None but cannot read back what it serialised ({raw[:120]!r}): {type(back).__name__}", case, F_JS + ["schema/decorators.py:make_mandatory"])
    bounds["none_for_required"] = f"None for a required field: {n} (schema, required field) pairs over every schema with instances, {acc} accepted by the class"


def extra_phases(chk, rec, d, bounds):
    phase_descendant_as_ancestor(chk, rec, d, bounds)
    phase_none_for_required(chk, rec, d, bounds)


RULE = (
    "same histories as C06 (scripted sweep attaching EVERY generated instance of EVERY installed and harness-registered schema on dataset, group and root, "
    "copy/move/delete/reopen/patch boundary; exhaustive bounded searches over the three pruned alphabets toggle/tree/general of the C06 driver; seeded random walks over all families; h5py.File and IH5Record); "
    "after every operation and after reopen every metadata object found in the RAW tree is validated (jsonschema draft-07) against the embedded schema and the embedded "
    "description is compared with the plugin system and with the TOC API. A case is (driver, abstract state before, operation); non-trivial iff metadata objects are stored or the operation is attach/detach."
)


def run(tier: str, seed: int) -> dict:
    return C.run_driver(
        Checker, tier, seed, RULE,
        assumptions=[
            "'JSON Schema of the object's schema' = schema_json() of the class registered under that entry point; 'what the plugin system reports' = schemas.parent_path / schemas.provider / that class",
            "jsonschema draft-07 semantics as implemented by the jsonschema library (format keywords not enforced)",
            "schemas whose instances cannot be created/serialised on the current tree (see notes: core.table, core.packerinfo) contribute no stored objects",
        ],
        trusted=["jsonschema library (Draft7Validator)"],
        extra_phase=extra_phases,
    )  # fmt: skip


_replay_history = C.make_replay(Checker)


def replay(case: dict):
    if case.get("part") == "descendant-as-ancestor":
        from rac.base import Recorder, tmpdir

        C.install_families()
        rec = Recorder("C20", "c20", max_violations=50)
        with tmpdir() as d:
            phase_descendant_as_ancestor(None, rec, d, {})
        hit = [v for v in rec.violations if v["replay"]["case"].get("path") == case.get("path") and v["replay"]["case"].get("kind") == case.get("kind")] or rec.violations
        if hit:
            return True, f"{hit[0]['signature']}: {hit[0]['what']}"[:600]
        return False, "descendant-as-ancestor phase: every stored object validates against its embedded schema"
    if case.get("part") == "none-for-required":
        from rac.base import Recorder, tmpdir

        rec = Recorder("C20", "c20", max_violations=50)
        with tmpdir() as d:
            phase_none_for_required(None, rec, d, {})
        hit = [v for v in rec.violations if v["replay"]["case"].get("schema") == case.get("schema") and v["replay"]["case"].get("field") == case.get("field")]
        if hit:
            return True, f"{hit[0]['signature']}: {hit[0]['what']}"[:600]
        return False, "the class refuses None for that field, or what it serialises validates"
    return _replay_history(case)
