"""C12 - schema instances survive serialisation unchanged (bounded tier).

Oracle (from the property statement): for every valid instance ``o`` of schema ``S``
  * ``o.json()``, ``o.yaml()`` and ``bytes(o)`` succeed,
  * ``S.parse_raw(form) == o`` (and is an ``S``) for each of the three forms, a second round trip equals the first,
  * every declared constant field is present in each output form with its constant value,
  * a different value supplied for a constant on input is ignored (parsed object equals ``o``, output has the constant).
Instances come from the real validators (``S.parse_obj(raw)`` and re-construction from validated python
values); missing optionals are expressed by omission.  Instances that are not equal to themselves (NaN
quantities) are outside the claim and skipped.
"""
from __future__ import annotations

import json
import time

import rac.base
from rac import schemalib as sl
from rac.base import Recorder, budget_left, canon, digest, rng, watchdog

FNS_DUMP = ["schema/core.py:SchemaMagic.__init__", "schema/encoder.py:DynJsonEncoderMetaMixin.__init__", "schema/base.py:BaseModelPlus.json"]
FNS_PARSE = ["schema/base.py:BaseModelPlus.parse_raw", "schema/parser.py:ParserMixin.__get_validators__", "schema/types.py"]
FNS_CONST = ["schema/core.py:SchemaBase.override_consts", "schema/decorators.py:add_const_fields"]

# hand-written composite families (constants, JSON-LD, aliases, inheritance, nesting, recursion, defaults, extra policy)
COMPOSITES = [
    ("consts", [{"name": "Top", "const": {"kind": "demo", "meta": {"k": [1, 2], "s": "x"}, "n": 0, "flag": False},
                 "fields": [["x", "Int"], ["s", ["Optional", "Str"]]]}]),
    ("ld-alias", [{"name": "Top", "ld": {"context": ["https://w3id.org/ro/crate/1.1/context", {"t": "https://example.com/t"}], "type": "Thing"},
                   "fields": [["id_", ["Alias", ["Optional", "NonEmptyStr"], "@id"]], ["d", ["Optional", "Duration"]],
                              ["tags", ["Optional", ["Set", "NonEmptyStr"]]]]}]),
    ("ld-child", [{"name": "Base", "ld": {"context": "https://schema.org", "type": "Base"},
                   "fields": [["n", ["Optional", "NonEmptyStr"]], ["u", ["Optional", "PintUnit"]], ["k", ["Optional", "Int"]]]},
                  {"name": "Top", "base": "Base", "ld": {"type": "Kid"}, "mandatory": ["n"],
                   "fields": [["q", ["Optional", "PintQuantity"]], ["k", "Int"]]}]),
    ("literal-const", [{"name": "Base", "fields": [["kind", ["Literal", "a", "b"]], ["x", ["Optional", "Float"]]]},
                       {"name": "Top", "base": "Base", "const": {"kind": "a"}, "fields": [["y", ["Optional", "Bool"]]]}]),
    ("nested", sl.HELPERS + [{"name": "Top", "fields": [["p", ["Schema", "Phys"]], ["ps", ["Optional", ["List", ["Schema", "Phys"]]]],
                                                       ["l", ["Optional", ["Schema", "Leaf"]]], ["r", ["Optional", ["Schema", "Rec"]]],
                                                       ["lk", ["Optional", ["Union", ["Schema", "LeafKid"], ["Schema", "Other"]]]]]}]),
    ("forbid", [{"name": "Top", "extra": "forbid", "fields": [["a", "Int"], ["u", ["Optional", "PintUnit"]], ["s", ["Optional", ["Set", "Int"]]]]}]),
    ("defaults", [{"name": "Top", "fields": [["n", "Int", 5], ["l", ["List", "Int"], []], ["st", ["Set", "Str"], []],
                                               ["o", ["Optional", "Str"], "dflt"], ["b", "Bool", False]]}]),
    ("wide", [{"name": "Top", "ld": {"context": "https://example.com/ctx", "type": "Wide"},
               "fields": [["b", "Bool"], ["i", "Int"], ["f", "Float"], ["s", "Str"], ["ne", "NonEmptyStr"], ["mi", ["Optional", "MimeTypeStr"]],
                          ["h", ["Optional", "QualHashsumStr"]], ["d", ["Optional", "Duration"]], ["u", ["Optional", "PintUnit"]],
                          ["q", ["Optional", "PintQuantity"]], ["sc", ["Optional", "Score"]], ["c", ["Optional", "Color"]],
                          ["url", ["Optional", "Url"]], ["lit", ["Optional", ["Literal", 0, "a"]]], ["li", ["Optional", ["List", "Float"]]],
                          ["ss", ["Optional", ["Set", "Str"]]], ["un", ["Optional", ["Union", "Int", "Duration", "NonEmptyStr"]]]]}]),
]  # fmt: skip

TAMPER = ["tampered", None, 0, {"x": 1}, ["y"]]


def _err_type(e) -> str:
    """Cause of a failed parse: pydantic error type of the first error (stable across schemas and forms)."""
    try:
        return e.errors()[0]["type"]
    except Exception:
        return sl.exc_sig(e)


def _loc_sig(e) -> str:
    try:
        errs = e.errors()
        loc = ".".join(str(x) for x in errs[0]["loc"] if not isinstance(x, int))
        return f"{loc}:{errs[0]['type']}"
    except Exception:
        return sl.exc_sig(e)


def _leafs(S) -> str:
    """Names of the value types a schema's fields are built from (for stable signatures)."""
    names = set()

    def walk(h, d=0):
        from typing_extensions import get_args

        args = get_args(h)
        if args:
            for a in args:
                walk(a, d)
        elif isinstance(h, type):
            if hasattr(h, "__fields__") and d < 3:
                for _, hh, _r in sl.model_fields(h):
                    walk(hh, d + 1)
            else:
                names.add(h.__name__)

    for _, h, _r in sl.model_fields(S):
        walk(h)
    return ",".join(sorted(names))


class Checker:
    def __init__(self, rec: Recorder):
        self.rec = rec
        self.n_inst = 0
        self.n_skipped_nan = 0
        self.n_invalid = 0
        self.n_const_inst = 0
        self._tamper_rot = 0
        self.n_native_rejected = 0

    # -- one instance ---------------------------------------------------------------------------
    def instance(self, S, sref: dict, label: str, raw: dict, route: str):
        rec = self.rec
        case = {"schema": sref, "raw": raw, "route": route}
        o = build_instance(S, raw, route)
        if o is None:
            self.n_invalid += 1
            if route == "native" and build_instance(S, raw, "parse") is not None:
                # the schema rejects the already validated python values of its own valid instance (outside C12's
                # statement, which is about serialisation; the complete->partial->complete clause of C14 covers it)
                self.n_native_rejected += 1
                if self.n_native_rejected == 1:
                    rec.notes.append(f"re-construction of a valid {label} instance from its own validated field values is rejected (raw={sl.short(repr(raw), 80)}); not a C12 claim, see C14")
            return
        try:
            selfeq = bool(o == o)
        except Exception:
            selfeq = False
        if not selfeq:
            self.n_skipped_nan += 1
            rec.case(("nan", label), nontrivial=False)
            return
        self.n_inst += 1
        rec.case((label, route, digest(raw)), nontrivial=True, sample={"schema": label, "raw": json.loads(canon(raw)), "route": route})

        forms = {}
        for form, fn in (("json", lambda: o.json()), ("yaml", lambda: o.yaml()), ("bytes", lambda: bytes(o))):
            try:
                with watchdog(10):
                    forms[form] = fn()
                rec.check(True, "", "")
            except Exception as e:
                msg = str(e)
                tname = msg.split("'")[1] if "is not JSON serializable" in msg and "'" in msg else sl.exc_sig(e)
                rec.check(False, f"c12:dump-raises:{type(e).__name__}:{tname}",
                          f"{form}() of a valid {label} instance must succeed, raised {type(e).__name__}: {sl.short(msg, 120)}",
                          case=case, fns=FNS_DUMP)  # fmt: skip
        for form, text in forms.items():
            self._roundtrip(S, label, case, o, form, text)
        if getattr(S, "__constants__", None):
            self.n_const_inst += 1
            self._constants(S, label, case, o, forms)
        self._nested_constants(label, case, o, forms)

    def _nested_constants(self, label, case, o, forms):
        """constants of NESTED schema values (however those values were built, e.g. by the library's own value parsers
        via construct()) are present in the output with their constant value"""
        from pydantic import BaseModel

        def walk(obj, path):
            for name, fld in type(obj).__fields__.items():
                v = obj.__dict__.get(name)
                key = fld.alias
                items = [(path + (key,), v)] if isinstance(v, BaseModel) else ([(path + (key, i), x) for i, x in enumerate(v) if isinstance(x, BaseModel)] if isinstance(v, (list, tuple)) else [])
                for pth, sub in items:
                    consts = getattr(type(sub), "__constants__", None) or {}
                    if consts:
                        yield pth, type(sub).__name__, consts
                    yield from walk(sub, pth)

        found = list(walk(o, ()))
        if not found or "json" not in forms:
            return
        try:
            view = json.loads(forms["json"])
        except Exception:
            return
        for pth, cname, consts in found:
            cur = view
            try:
                for step in pth:
                    cur = cur[step]
            except Exception:
                cur = None
            for k, v in consts.items():
                ok = isinstance(cur, dict) and k in cur and canon(cur[k]) == canon(v)
                self.rec.check(ok, f"c12:nested-const-missing-in-output:{cname}:{k}",
                               f"constant {k!r}={v!r} of the nested {cname} value at {'/'.join(map(str, pth))} of a {label} instance must be in the JSON output, got {sl.short(repr(cur.get(k, '<absent>') if isinstance(cur, dict) else cur), 80)}",
                               case=case, fns=FNS_CONST + ["schema/decorators.py:add_const_fields"])  # fmt: skip

    def _dump(self, o, form):
        return o.json() if form == "json" else o.yaml() if form == "yaml" else bytes(o)

    def _roundtrip(self, S, label, case, o, form, text):
        rec = self.rec
        try:
            with watchdog(10):
                p = S.parse_raw(text)
        except Exception as e:
            rec.check(False, f"c12:parse-own-output:{type(e).__name__}:{_err_type(e)}",
                      f"{label}.parse_raw({form} of a valid instance) must succeed; raised {type(e).__name__}: {sl.short(str(e), 160)}; text={sl.short(text, 120)!r}",
                      case=case, fns=FNS_PARSE)  # fmt: skip
            return
        eq = False
        try:
            eq = bool(p == o) and type(p) is type(o)
        except Exception:
            pass
        if not rec.check(eq, f"c12:roundtrip-neq:{_leafs(S) if label.startswith('T:') else label}:{_diff_fields(o, p)}",
                         f"{label}.parse_raw({form}) != original: {sl.short(repr(o), 140)} -> {sl.short(text, 100)!r} -> {sl.short(repr(p), 140)}",
                         case=case, fns=FNS_PARSE):  # fmt: skip
            return
        # second round trip equals the first
        try:
            with watchdog(10):
                p2 = S.parse_raw(self._dump(p, form))
            ok = bool(p2 == p) and type(p2) is type(p)
        except Exception as e:
            ok = False
            p2 = e
        rec.check(ok, f"c12:second-roundtrip:{_leafs(S) if label.startswith('T:') else label}",
                  f"second {form} round trip of {label} differs from the first: {sl.short(repr(p), 120)} vs {sl.short(repr(p2), 120)}",
                  case=case, fns=FNS_PARSE)  # fmt: skip

    def _constants(self, S, label, case, o, forms):
        rec = self.rec
        consts = dict(S.__constants__)
        views = {}
        if "json" in forms:
            views["json"] = json.loads(forms["json"])
        if "bytes" in forms:
            views["bytes"] = json.loads(forms["bytes"].decode("utf-8"))
        if "yaml" in forms:
            try:
                views["yaml"] = sl.yaml_load(forms["yaml"])
            except Exception:
                pass
        try:
            views["json_dict"] = o.json_dict()
        except Exception:
            pass  # dump failure already reported
        for vname, view in views.items():
            for k, v in consts.items():
                ok = isinstance(view, dict) and k in view and canon(view[k]) == canon(v)
                rec.check(ok, f"c12:const-missing-in-output:{vname}:{label}:{k}",
                          f"constant {k!r}={v!r} of {label} must be in the {vname} output, got {sl.short(repr(view.get(k, '<absent>') if isinstance(view, dict) else view), 80)}",
                          case=case, fns=FNS_CONST)  # fmt: skip
        if "json_dict" not in views:
            return
        jd = views["json_dict"]
        # the input-side claim is only meaningful if the untampered output is readable at all
        # (otherwise the round-trip check above has already reported the real cause)
        try:
            with watchdog(10):
                base_ok = bool(S.parse_obj(dict(jd)) == o)
        except Exception:
            base_ok = False
        if not base_ok:
            return
        self._tamper_rot += 1
        for ki, (k, v) in enumerate(consts.items()):
            # installed plugins have the same few constants on thousands of instances: rotate the tamper values there
            tampers = TAMPER if not label.startswith("I:") else [TAMPER[(self._tamper_rot + ki) % len(TAMPER)]]
            for t in tampers:
                if canon(t) == canon(v):
                    continue
                d = dict(jd)
                d[k] = t
                for how in ("parse_obj", "parse_raw"):
                    try:
                        with watchdog(10):
                            p = S.parse_obj(d) if how == "parse_obj" else S.parse_raw(json.dumps(d))
                        out = p.json_dict()
                        ok = bool(p == o) and canon(out.get(k, "<absent>")) == canon(v) and canon(getattr_by_alias(p, k)) == canon(v)
                        detail = f"parsed {k}={sl.short(repr(out.get(k, '<absent>')), 60)}"
                    except Exception as e:
                        ok, detail = False, f"raised {type(e).__name__}: {sl.short(str(e), 100)}"
                    rec.check(ok, f"c12:const-not-ignored-on-input:{label}:{k}",
                              f"input value {t!r} for constant {k!r} of {label} must be ignored (constant {v!r} kept, object equal): {detail}",
                              case=case, fns=FNS_CONST)  # fmt: skip
                if label.startswith("I:"):
                    # the same schema as the plugin system hands it out when no version is stated
                    try:
                        from metador_core.plugins import schemas as _schemas

                        S0 = _schemas.get(label[2:].split("@")[0].strip())
                    except Exception:
                        S0 = None
                    if S0 is not None and S0 is not S:
                        try:
                            with watchdog(10):
                                p0 = S0.parse_obj(d)
                            out0 = p0.json_dict()
                            ok0 = canon(out0.get(k, "<absent>")) == canon(v)
                            det0 = f"parsed {k}={sl.short(repr(out0.get(k, '<absent>')), 60)}"
                        except Exception as e:
                            ok0, det0 = False, f"raised {type(e).__name__}: {sl.short(str(e), 100)}"
                        rec.check(ok0, f"c12:const-not-ignored-on-input:versionless-handle:{k}",
                                  f"input value {t!r} for constant {k!r} of {label} obtained WITHOUT a version must be ignored (constant {v!r} kept): {det0}",
                                  case=case, fns=FNS_CONST + ["plugin/metaclass.py:UndefVersion._mark_class"])  # fmt: skip


def getattr_by_alias(p, k):
    for name, f in type(p).__fields__.items():
        if f.alias == k or name == k:
            return p.__dict__.get(name)
    return p.__dict__.get(k)


def _diff_fields(o, p) -> str:
    try:
        a, b = o.__dict__, p.__dict__
        return ",".join(sorted(k for k in set(a) | set(b) if not _same(a.get(k), b.get(k))))[:60]
    except Exception:
        return "?"


def _same(x, y):
    try:
        return bool(x == y) and type(x) is type(y)
    except Exception:
        return False


TYPED_OBJECTS = {
    # python objects of the value types themselves (not their text form), given as constructor recipes so cases stay JSON
    "Duration": [{"hours": 12}, {"years": 1, "months": 2, "hours": 12}, {"months": 1}, {"weeks": 2, "days": 1, "seconds": 1.5}, {"years": 3}],
    "PintUnit": [{"u": "meter"}, {"u": "kg*m/s**2"}],
    "PintQuantity": [{"q": "5 meter"}, {"q": "0.1 m"}, {"q": "3 km/h"}],
}


def materialise(raw):
    """Replace {"__typed__": T, "kw": {...}} by the python object of value type T."""
    if isinstance(raw, dict):
        if "__typed__" in raw:
            import metador_core.schema.types as mt

            t, kw = raw["__typed__"], raw["kw"]
            if t == "Duration":
                return mt.Duration(**kw)
            if t == "PintUnit":
                return mt.PintUnit(kw["u"])
            if t == "PintQuantity":
                return mt.PintQuantity(kw["q"])
            raise ValueError(t)
        return {k: materialise(v) for k, v in raw.items()}
    if isinstance(raw, list):
        return [materialise(v) for v in raw]
    return raw


def build_instance(S, raw: dict, route: str):
    """A valid instance or None.  route 'parse': S.parse_obj(raw); 'native': S(**validated python values);
    raw may contain typed-object recipes (see materialise)."""
    try:
        with watchdog(10):
            o = S.parse_obj(materialise(raw))
            if route == "native":
                consts = getattr(S, "__constants__", {}) or {}
                kw = {n: getattr(o, n) for n in o.__fields_set__ if n in S.__fields__ and n not in consts}
                o = S(**kw)
        return o
    except Exception:
        return None


# --------------------------------------------------------------------------------------------------


def _enumerate(tier: str, seed: int):
    """Yield (S, sref, label, raw, route) deterministically; cheap boundary cases first."""
    quick = tier == "quick"
    r = rng(seed, "c12")

    def part_a(types):
        for ts in types:
            fam = sl.single_field_family(ts)
            try:
                S = sl.build_family(fam)["Top"]
                from metador_core.plugins import schemas

                schemas.check_plugin("rac.c12", S)  # unsupported (non-mergeable) shapes are refused: not in the grammar
            except Exception:
                continue
            sref = {"family": fam, "name": "Top"}
            label = "T:" + sl.tstr(ts)
            dicts = sl.model_dicts(S, 2, validate=False)
            if quick:
                dicts = dicts[:2] + dicts[2:][:: max(1, len(dicts) // 4)][:3] + dicts[-1:]
            for i, raw in enumerate(dicts):
                yield S, sref, label, raw, "parse"
                if not quick or i < 1:
                    yield S, sref, label, raw, "native"

    # A0: the atoms first (minimal reproducers come first)
    n0 = len(sl.grammar(0))
    yield from part_a(sl.grammar(2)[:n0])
    # A1: python objects of the special value types as input (what code building instances programmatically passes)
    for tname, recipes in TYPED_OBJECTS.items():
        for ts in (tname, ["Optional", tname], ["List", tname]):
            fam = sl.single_field_family(ts)
            try:
                S = sl.build_family(fam)["Top"]
            except Exception:
                continue
            fname = fam[-1]["fields"][0][0]
            for kw in recipes:
                obj = {"__typed__": tname, "kw": kw}
                yield S, {"family": fam, "name": "Top"}, "T:" + sl.tstr(ts), {fname: [obj] if isinstance(ts, list) and ts[0] == "List" else obj}, "parse"
    # B: composite families
    for name, fam in COMPOSITES:
        S = sl.build_family(fam)["Top"]
        sref = {"family": fam, "name": "Top"}
        dicts = sl.model_dicts(S, 2, validate=False)
        if quick:
            dicts = dicts[:40]
        for i, raw in enumerate(dicts):
            yield S, sref, "G:" + name, raw, "parse"
            if not quick or i % 4 == 0:
                yield S, sref, "G:" + name, raw, "native"
    # C: installed schema plugins
    inst = sl.installed_schemas()
    for name, S in inst.items():
        dicts = sl.model_dicts(S, 2, validate=True)
        if quick:
            step = max(1, len(dicts) // 30)
            dicts = dicts[:3] + dicts[3::step]
        for i, raw in enumerate(dicts):
            yield S, {"installed": name}, "I:" + name, raw, "parse"
            if not quick and i % 3 == 0:
                yield S, {"installed": name}, "I:" + name, raw, "native"
    # A: every grammar type (depth <= 2), one-field schema, every corpus value
    yield from part_a(sl.grammar(2)[n0:])
    if quick:
        return
    # D (thorough): seeded random field combinations of composite + installed schemas, round robin
    gens = []
    for name, fam in COMPOSITES * 3:  # composite families are cheap: three draws per round
        S = sl.build_family(fam)["Top"]
        gens.append((S, {"family": fam, "name": "Top"}, "G:" + name, sl.random_dicts(S, r, 10**9, 2)))
    for name, S in inst.items():
        gens.append((S, {"installed": name}, "I:" + name, sl.random_dicts(S, r, 10**9, 2, p_opt=0.3)))
    while gens:
        for g in list(gens):
            S, sref, label, it = g
            try:
                raw = next(it)
            except StopIteration:
                gens.remove(g)
                continue
            yield S, sref, label, raw, "parse"


def run(tier: str, seed: int) -> dict:
    rec = Recorder("C12", "c12")
    ck = Checker(rec)
    t0 = time.time()
    limit = 55 if tier == "quick" else 540
    target = 6000 if tier == "quick" else 50000
    stopped = "enumeration exhausted"
    labels = set()
    for S, sref, label, raw, route in _enumerate(tier, seed):
        if not budget_left(t0, limit):
            stopped = f"time budget {limit}s"
            break
        if ck.n_inst >= target:
            stopped = f"instance target {target}"
            break
        ck.instance(S, sref, label, raw, route)
        labels.add(label)
    n_types = len([x for x in labels if x.startswith("T:")])
    bound = (f"{ck.n_inst} valid instances ({ck.n_invalid} generated inputs rejected by the schema, {ck.n_skipped_nan} non-self-equal skipped, {ck.n_native_rejected} native re-constructions rejected) of "
             f"{n_types} one-field schemas over the type grammar (depth<=2), {len([x for x in labels if x.startswith('G:')])} composite families "
             f"(constants, JSON-LD, alias, inheritance+make_mandatory, nesting, recursion, defaults, extra=forbid) and "
             f"{len([x for x in labels if x.startswith('I:')])} installed schema plugins; {ck.n_const_inst} instances with constants; stop: {stopped}")  # fmt: skip
    return rec.result(
        rule="case = (schema label, construction route parse_obj|native re-construction, digest of the raw field dict); non-trivial when the real "
             "schema accepts the input and the instance equals itself; inputs: per-type boundary corpus, one field varied at a time over a valid base, "
             "plus (thorough) seeded random field combinations",
        bound=bound,
        exhaustive=False,
        assumptions=[
            "Union members are listed specific-before-general as the schema tutorial demands (a string-serialised type after Str is a documented pitfall, not covered)",
            "missing optional values are expressed by omission; explicit None is never supplied",
            "equality is the library's own model equality (==) plus identical class",
            "shapes refused by the plugin check (non-mergeable, e.g. List[Optional[X]]) are outside the supported grammar",
        ],
        trusted=["pydantic 1.10 validation/serialisation, pydantic_yaml/ruamel, pint, isodate (exercised, not modelled)"],
        extra={"instances": ck.n_inst},
    )  # fmt: skip


def replay(case: dict):
    rec = Recorder("C12", "c12", max_violations=50)
    S = sl.resolve_schema(case["schema"])
    label = ("I:" + case["schema"]["installed"]) if "installed" in case["schema"] else "R:replay"
    if "family" in case["schema"] and len(case["schema"]["family"]) and case["schema"]["family"][-1].get("fields") and \
            len(case["schema"]["family"][-1]["fields"]) == 1 and case["schema"]["family"][:-1] == sl.HELPERS:
        label = "T:" + sl.tstr(case["schema"]["family"][-1]["fields"][0][1])
    ck = Checker(rec)
    ck.instance(S, case["schema"], label, case["raw"], case.get("route", "parse"))
    if ck.n_inst == 0:
        return False, "input no longer yields a valid self-equal instance"
    if rec.violations:
        return True, "; ".join(v["signature"] + " :: " + v["what"][:160] for v in rec.violations[:3])
    return False, f"{rec.evaluations} contract evaluations hold"
