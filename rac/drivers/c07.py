"""C07 -- metadata comes back as stored and queries are exact (bounded tier).

Oracle (from the property statement, computed from an independent model `path -> {schema name -> (version, instance)}`
maintained by the harness, never from the functions under test):
 (a) node.meta[S] / node.meta.get(S, v) returns an object EQUAL to the stored one; requested by any non-auxiliary
     ancestor schema it is an instance of the ancestor class that validates and equals the parent view of a stored
     candidate; until deleted (also after failed operations and after reopen); at most one object per schema name per
     node (second attach raises and changes nothing); auxiliary / unknown schemas are refused.
 (b) node-level `node.meta.query`, `in`, and container-/group-level `metador.query(schema, version)` yield EXACTLY what a
     brute-force scan of the model yields, for all start nodes x all (schema, version) arguments: same name or ancestor
     name, version-compatible iff same major and requested minor >= stored minor.
Outside the precondition (skipped): get() by an auxiliary ancestor or by a version no installed schema supports.
"""
from __future__ import annotations

import json

from rac import base  # noqa: F401  (numpy shim first)
from rac import contlib as C
from rac.base import digest, rng

F_GET = ["container/interface.py:MetadorMeta.get", "container/interface.py:MetadorMeta.query", "container/interface.py:MetadorMeta._get_raw"]
F_SET = ["container/interface.py:MetadorMeta.__setitem__", "container/interface.py:MetadorMeta._require_schema"]
F_DEL = ["container/interface.py:MetadorMeta.__delitem__", "container/interface.py:MetadorMeta._del_raw"]
F_Q = ["container/interface.py:MetadorContainerTOC.query", "container/wrappers.py:WithDefaultQueryStartNode.query",
       "container/interface.py:TOCSchemas.versions", "container/interface.py:TOCSchemas.children", "schema/plugins.py:PluginRef.supports"]  # fmt: skip
F_TREE = ["container/wrappers.py:MetadorGroup.copy", "container/wrappers.py:MetadorGroup.move", "container/wrappers.py:MetadorGroup.__delitem__"]



def matches(stored_name, stored_ver, req_name, req_ver) -> bool:
    """Spec of the property: object of that schema or of a descendant schema, in a version-compatible release."""
    info = C.FAMILY.get((stored_name, tuple(stored_ver)))
    chain = info.parents if info else [(stored_name, tuple(stored_ver))]
    for n, v in chain:
        if n == req_name and (req_ver is None or C.spec_supports(req_ver, v)):
            return True
    return False


def query_args(model: C.Model, below: str = "/"):
    """(priority, boundary) arguments for the objects attached at or below `below`.

    priority: every attached name and every ancestor name, each without version and with the stored version;
    boundary: the same names with next minor, next major, previous minor, other patch, every other installed version; unknown names."""
    names = {}
    for p, d in model.meta.items():
        if not C._under(p, below):
            continue
        for n, (v, _) in d.items():
            info = C.FAMILY.get((n, tuple(v)))
            for pn, pv in info.parents if info else [(n, tuple(v))]:
                names.setdefault(pn, set()).add(tuple(pv))
    prio, bnd = [], []
    for n in sorted(names):
        prio.append((n, None))
        for v in sorted(names[n]):
            prio.append((n, v))
        cand = set()
        for v in set(names[n]) | set(C.family_versions(n)):
            cand |= {tuple(v), (v[0], v[1] + 1, 0), (v[0] + 1, 0, 0), (v[0], v[1], v[2] + 3)}
            if v[1] > 0:
                cand.add((v[0], v[1] - 1, 0))
        bnd += [(n, v) for v in sorted(cand - names[n])]
    for extra in ("vt.aa", "vt.l1", "core.person", "core.file"):
        if extra not in names:
            bnd += [(extra, None), (extra, (0, 1, 0))]
    bnd += [("vt.nope", None), ("vt.nope", (0, 1, 0))]
    return prio, bnd


def pick(r, prio, bnd, n_prio, n_bnd):
    a = list(prio)
    b = list(bnd)
    r.shuffle(a)
    r.shuffle(b)
    return a[:n_prio] + b[:n_bnd]


def jd(obj):
    return json.loads(obj.json())


class Checker(C.BaseChecker):
    PID = "C07"
    DRV = "c07"

    def __init__(self, rec, minimise=True):
        super().__init__(rec, minimise)
        self.visits = {}

    def _rng(self, st):
        k = digest([st.kind, st.model.key()])
        self.visits[k] = self.visits.get(k, 0) + 1
        return rng(0, f"{k}:{self.visits[k]}")

    # ------------------------------------------------------------------------------------------
    def check(self, st):
        h, rec, op = st.h, self.rec, st.op
        opk = op[0]
        model = st.model
        changed = st.model is not st.model_before
        rec.case(digest([st.kind, st.model_before.key(), op]), nontrivial=bool(model.meta) or opk in ("attach", "detach"),
                 sample={"kind": st.kind, "history": st.history, "status": st.status})  # fmt: skip

        # ---- (0) attach / detach: accepted exactly when allowed ---------------------------------
        if opk == "attach" and st.pred not in ("err", "?"):
            sname = op[2]
            if st.pred == "ok":
                if st.status != "ok":
                    self.report(st, f"c07:attach:valid-refused:{st.exc}", f"attaching a valid instance of non-auxiliary schema {sname} to {op[1]} (no object of that schema there) raised {st.exc}: {st.msg}", F_SET)
                else:
                    self.ok()
            else:
                why = {"ValueError": "second-object-same-schema", "TypeError": "auxiliary-schema", "KeyError": "unknown-schema-or-version"}[st.pred]
                if st.status == "ok":
                    self.report(st, f"c07:attach:accepted:{why}", f"attach {op} must be refused ({why}) but succeeded", F_SET)
                else:
                    self.ok()
        if opk == "detach" and st.pred != "err":
            if st.pred == "ok" and st.status != "ok":
                self.report(st, f"c07:detach:refused:{st.exc}", f"deleting the attached {op[2]} object of {op[1]} raised {st.exc}: {st.msg}", F_DEL)
            elif st.pred == "KeyError" and st.status == "ok":
                self.report(st, "c07:detach:accepted-missing", f"deleting a non-attached schema {op[2]} at {op[1]} succeeded", F_DEL)
            else:
                self.ok()

        # ---- a raw tree out of sync (C06 reports that, with the operation that broke it) is judged all the same: the statement is
        # about what get/in/query answer, whatever the bookkeeping looks like
        S = st.scan
        broken = C.toc_inv_raw(S)
        if broken:
            self.skipped_tocinv = getattr(self, "skipped_tocinv", 0) + 1
            if self.skipped_tocinv == 1:
                rec.notes.append(f"state violates TocInv ({broken[0][0]}: {broken[0][1][:160]}) after {st.kind} {json.dumps(st.history)[:300]}: retrieval and queries are judged on such states too")

        # ---- (1) what is attached (raw tree) == model -----------------------------------------------
        raw_att = {p: d for p, d in C.attached_of_scan(S).items() if p not in S.get("stray_nodes", {})}  # junk below reserved names: C08/C06
        exp_att = model.attached()
        copied = set(st.created_by_copy or ())
        for p in sorted(set(raw_att) | set(exp_att)):
            got = {n: sorted(v for v, _ in lst) for n, lst in raw_att.get(p, {}).items()}
            exp = {n: [tuple(v)] for n, v in exp_att.get(p, {}).items()}
            if got == exp:
                continue
            if p in copied:
                # destination of a copy: what is copied along is not part of the property statement -> adopt the observation
                if len(rec.notes) < 30:
                    rec.notes.append(f"copy destination {p}: raw tree holds {got}, kwarg semantics predicts {exp} (observation adopted, not judged) after {op}")
                self._adopt(model, p, raw_att.get(p, {}))
                continue
            lost = sorted(set(exp) - set(got))
            phantom = sorted(set(got) - set(exp))
            kind = "lost" if lost else ("phantom" if phantom else "version-or-count")
            self.report(st, f"c07:attached-set:{kind}:after-{opk}:{'ok' if st.status == 'ok' else 'failed'}",
                        f"node {p}: raw tree holds metadata {got}, attached and not deleted according to the history: {exp} (after {op} -> {st.status} {st.exc or ''})",
                        F_TREE + F_SET + F_DEL)  # fmt: skip
        self.ok()
        # stored bytes are the serialisation of the attached instance
        for p, d in model.meta.items():
            for n, (v, idx) in d.items():
                if idx < 0:
                    continue
                lst = raw_att.get(p, {}).get(n, [])
                if len(lst) == 1 and lst[0][1] is not None:
                    orig = C.FAMILY[(n, tuple(v))].objs[idx]
                    if lst[0][1] != bytes(orig):
                        self.report(st, "c07:stored-bytes-differ", f"{p} {n}: stored bytes {lst[0][1][:120]!r} != serialisation of the attached instance {bytes(orig)[:120]!r}", ["container/interface.py:MetadorMeta._set_raw"])
                    else:
                        self.ok()

        # ---- (2) node-level retrieval ---------------------------------------------------------------
        light = not changed and opk not in ("reopen", "commit")
        r = self._rng(st)
        try:
            self._check_nodes(st, model, light, r)
        except Exception as e:  # noqa
            import traceback

            self.report(st, f"c07:check-crash:{type(e).__name__}", f"retrieval raised {type(e).__name__}: {e} :: {traceback.format_exc()[-400:]}", F_GET)
        # ---- (3) queries ------------------------------------------------------------------------------
        try:
            self._check_queries(st, model, light, r)
        except Exception as e:  # noqa
            import traceback

            self.report(st, f"c07:query-crash:{type(e).__name__}", f"query raised {type(e).__name__}: {e} :: {traceback.format_exc()[-400:]}", F_Q)

    # ------------------------------------------------------------------------------------------
    def _adopt(self, model, p, raw_entry):
        new = {}
        for n, lst in raw_entry.items():
            v, b = lst[0]
            idx = -1
            info = C.FAMILY.get((n, tuple(v)))
            if info:
                for i, o in enumerate(info.objs):
                    if bytes(o) == b:
                        idx = i
            new[n] = (tuple(v), idx)
        if new:
            model.meta[p] = new
        else:
            model.meta.pop(p, None)

    def _candidates(self, model, p, aname, aver):
        """Attached objects at p that are the requested schema or a descendant of it (version-compatible)."""
        res = []
        for n, (v, idx) in model.meta.get(p, {}).items():
            if matches(n, v, aname, aver):
                res.append((n, tuple(v), idx))
        return res

    def _check_nodes(self, st, model, light, r):
        mc = st.h.mc
        op = st.op
        allnodes = sorted(model.nodes)
        with_meta = sorted(model.meta)
        if op[0] in ("reopen", "commit"):
            sel = set(allnodes)
        elif light:
            sel = set(r.sample(with_meta, 1)) if with_meta else set()
        else:
            touched = [x for x in op[1:3] if isinstance(x, str) and x.startswith("/")]
            sel = {p for p in allnodes if any(C._under(p, t) for t in touched)}
            sel.add("/")
            others = [p for p in with_meta if p not in sel]
            if others:
                sel.add(r.choice(others))
            bare = [p for p in allnodes if p not in sel and p not in model.meta]
            if bare:
                sel.add(r.choice(bare))
        for p in sorted(sel):
            if p not in model.nodes:
                continue
            att = model.meta.get(p, {})
            node = C.node_of(mc, p)
            meta = node.meta
            keys = sorted(meta.keys())
            if keys != sorted(att):
                self.report(st, "c07:keys", f"{p}.meta.keys()={keys}, attached: {sorted(att)}", F_GET)
            else:
                self.ok()
            # a second, long-lived handle on the same node (obtained earlier, its .meta already used) must show the same
            # (watchers are dropped whenever something other than attach/detach happened, see contlib.apply_cop)
            watchers = getattr(st.h, "watchers", None)
            if watchers is not None:
                w = watchers.get(p)
                if w is None:
                    w = watchers[p] = C.node_of(mc, p)
                    w.meta.keys()
                else:
                    try:
                        wk = sorted(w.meta.keys())
                        wg = {n: (w.meta.get(n) is not None) for n in att}
                    except Exception as e:  # noqa
                        wk, wg = f"!{type(e).__name__}: {e}", {}
                    if wk != sorted(att) or not all(wg.values()):
                        self.report(st, "c07:second-handle-stale", f"a handle on {p} obtained before the last attach/detach shows keys {wk} / get {wg}, attached now: {sorted(att)}", F_GET)
                    else:
                        self.ok()
            if len(meta) != len(att):
                self.report(st, "c07:len", f"len({p}.meta)={len(meta)}, attached: {len(att)}", F_GET)
            for n, (v, idx) in sorted(att.items()):
                v = tuple(v)
                info = C.FAMILY[(n, v)]
                orig = info.objs[idx] if idx >= 0 else None
                # by its own schema (name, version)
                rv = C.resolve_attach_version(n, v)
                if rv is not None:
                    got = meta.get(n, v)
                    self._cmp_own(st, p, n, v, got, orig, C.FAMILY[(n, rv)].cls, "get(name,version)")
                    if rv == v:
                        got = meta[info.cls]
                        self._cmp_own(st, p, n, v, got, orig, info.cls, "meta[class]")
                dv = C.default_version(n)
                if dv is not None and C.spec_supports(dv, v):
                    try:
                        got = meta[n]
                    except KeyError:
                        got = None
                    self._cmp_own(st, p, n, v, got, orig, C.FAMILY[(n, dv)].cls, "meta[name]")
                if (n in meta) is not True:
                    self.report(st, "c07:contains:false-for-attached", f"'{n}' in {p}.meta is False although attached", F_GET)
                # by every non-auxiliary ancestor
                for an, av in info.parents[:-1]:
                    ainfo = C.FAMILY.get((an, tuple(av)))
                    if ainfo is None or ainfo.auxiliary:
                        continue
                    if C.resolve_attach_version(an, av) is None:
                        continue
                    acls = C.FAMILY[(an, C.resolve_attach_version(an, av))].cls
                    view = meta.get(an, tuple(av))
                    if view is None:
                        self.report(st, "c07:parent-view:missing", f"{p}.meta.get('{an}', {av}) is None although a {n} {v} object (descendant) is attached", F_GET)
                        continue
                    if not isinstance(view, acls):
                        self.report(st, "c07:parent-view:type", f"{p}.meta.get('{an}', {av}) is a {type(view).__name__}, not an instance of the class of {an}", F_GET)
                        continue
                    try:
                        acls.parse_obj(view.dict())
                        acls.validate(view)
                    except Exception as e:  # noqa
                        self.report(st, "c07:parent-view:invalid", f"parent view of {n} as {an} does not validate: {e}", F_GET)
                        continue
                    cands = self._candidates(model, p, an, tuple(av))
                    if all(i >= 0 for _, _, i in cands):
                        exp_views = []
                        for cn, cv, ci in cands:
                            o = C.FAMILY[(cn, cv)].objs[ci]
                            exp_views.append(jd(o) if (cn, cv) == (an, tuple(av)) else jd(acls.parse_raw(bytes(o))))
                        own = [jd(C.FAMILY[(cn, cv)].objs[ci]) for cn, cv, ci in cands if cn == an]
                        if own:
                            exp_views = own  # an object of the requested schema itself comes first
                        if jd(view) not in exp_views:
                            self.report(st, "c07:parent-view:wrong-data", f"{p}.meta.get('{an}') = {jd(view)} is not the {an}-view of any attached candidate {exp_views}", F_GET)
                        else:
                            self.ok()
            # node-level query / contains: all priority arguments of this node + a rotating sample of boundary arguments
            prio_all, bnd_all = query_args(model, "/")
            prio_own = [a for a in prio_all if any(matches(n, v, a[0], None) for n, (v, _) in att.items())]
            prio_other = [a for a in prio_all if a not in prio_own]
            args = (prio_own if not light else r.sample(prio_own, min(2, len(prio_own)))) + pick(r, prio_other, bnd_all, 1, 2 if att else 1)
            have = [(n, tuple(v)) for n, (v, _) in att.items()]
            for qn, qv in args:
                exp = sorted(C.ep_of(n, v) for n, v in have if matches(n, v, qn, qv))
                got_refs = list(meta.query(qn, qv))
                got = sorted(C.ref_ep(r) for r in got_refs)
                if got != exp:
                    k = "extra" if set(got) - set(exp) else ("missing" if set(exp) - set(got) else "duplicate")
                    self.report(st, f"c07:query:node:{k}:{self._argclass(qn, qv, have)}", f"{p}.meta.query('{qn}', {qv}) = {got}, expected {exp} (attached {have})", F_GET + F_Q[2:])
                else:
                    self.ok()
                if got_refs and exp and any(n == qn for n, _ in have if C.ep_of(n, _) in exp):
                    # the requested schema itself comes first
                    if got_refs[0].name != qn:
                        self.report(st, "c07:query:node:order", f"{p}.meta.query('{qn}', {qv}) yields {got_refs[0].name} first although an object of {qn} itself is attached", F_GET)
                cont = (qn, qv) in meta
                if cont != bool(exp):
                    self.report(st, f"c07:contains:{'false-negative' if exp else 'false-positive'}", f"({qn!r}, {qv}) in {p}.meta = {cont}, expected {bool(exp)} (attached {have})", F_GET)
                else:
                    self.ok()
                # deleted / never attached: get gives None (only where get is inside its precondition)
                if not exp and qv is None and qn in {k[0] for k in C.FAMILY} and not C.FAMILY[(qn, C.default_version(qn))].auxiliary:
                    if meta.get(qn) is not None:
                        self.report(st, "c07:get:returns-deleted-or-foreign", f"{p}.meta.get('{qn}') returns an object although none is attached (attached {have})", F_GET)

    def _cmp_own(self, st, p, n, v, got, orig, cls, how):
        if got is None:
            self.report(st, "c07:get:missing", f"{p}: {how} for attached {n} {v} gives nothing", F_GET)
            return
        if not isinstance(got, cls):
            self.report(st, "c07:get:type", f"{p}: {how} for {n} {v} returns {type(got).__name__}, not an instance of the installed class", F_GET)
            return
        if orig is None:
            return
        if not (got == orig and jd(got) == jd(orig)):
            self.report(st, "c07:get:not-equal", f"{p}: {how} for {n} {v} returns {jd(got)} != stored {jd(orig)}", F_GET)
        else:
            self.ok()

    def _argclass(self, qn, qv, have):
        direct = any(n == qn for n, _ in have)
        return ("direct" if direct else "inherited") + (":versioned" if qv is not None else ":any-version")

    def _check_queries(self, st, model, light, r):
        mc = st.h.mc
        prio, bnd = query_args(model, "/")
        starts = sorted(model.nodes)
        pairs = []
        if light:
            pairs += [("/", a) for a in pick(r, prio, bnd, 2, 1)]
            if len(starts) > 1:
                pairs += [(r.choice(starts[1:]), a) for a in pick(r, prio, bnd, 1, 0)]
        else:
            pairs += [("/", a) for a in prio] + [("/", a) for a in pick(r, [], bnd, 0, 3)]
            for p in starts[1:]:
                pp, bb = query_args(model, p)
                outside = [a for a in prio if a not in pp]
                pairs += [(p, a) for a in pick(r, pp, bb, 2, 1)] + [(p, a) for a in pick(r, outside, [], 1, 0)]
        att = {p: [(n, tuple(v)) for n, (v, _) in d.items()] for p, d in model.meta.items()}
        for i, (p, (qn, qv)) in enumerate(pairs):
            exp = sorted(q for q in model.nodes if C._under(q, p) and any(matches(n, v, qn, qv) for n, v in att.get(q, [])))
            node = C.node_of(mc, p)
            form = r.randrange(3)
            if p == "/" and form == 0:
                it = mc.metador.query(qn, qv)
            elif form == 1:
                it = mc.metador.query(qn, qv, node=node)
            else:
                it = node.metador.query(qn, qv)
            got = sorted(x.name for x in it)
            if got != exp:
                k = "extra" if set(got) - set(exp) else ("missing" if set(exp) - set(got) else "duplicate")
                inh = "direct" if any(n == qn for lst in att.values() for n, _ in lst) else "inherited"
                self.report(st, f"c07:query:container:{k}:{inh}:{'versioned' if qv is not None else 'any-version'}",
                            f"query('{qn}', {qv}) from {p} (form {form}) = {got}, brute-force scan of what is attached: {exp}; attached {att}", F_Q)  # fmt: skip
            else:
                self.ok()


RULE = (
    "same histories as C06 (scripted sweep over every schema x instance; exhaustive bounded searches over the three pruned alphabets toggle/tree/general of the C06 driver; seeded random walks; "
    "h5py.File and IH5Record); after every operation (also failed ones and reopen) every node's attached objects are read back by own schema "
    "(name+version, class, name) and by every non-auxiliary ancestor, and node.meta.query / in / container- and group-level metador.query are compared with a "
    "brute-force scan of the harness model for all start nodes x all (schema, version) arguments (attached names, their ancestors, each with no version, "
    "every installed version, next minor, next major, previous minor, other patch; unknown names). Per step: nodes touched by the operation + root + one other node "
    "(all nodes after reopen/patch boundary) are read back completely; from the root ALL priority arguments (each attached/ancestor name without version and with the stored version) "
    "+ 3 boundary arguments, from every other start node 4 arguments; the samples rotate deterministically with the number of visits of the abstract state; a light sample after operations that changed nothing. A case is (driver, abstract state before, operation); non-trivial iff metadata is attached or the operation is attach/detach."
)


PLAN = {
    "quick": [("sweep", "h5", 13), ("sweep", "ih5", 6), ("toggle", "h5", 7), ("toggle", "ih5", 4), ("tree", "h5", 5), ("tree", "ih5", 3),
              ("general", "h5", 6), ("general", "ih5", 3), ("walk", "both", 2)],
    "thorough": [("sweep", "h5", 50), ("sweep", "ih5", 80), ("toggle", "h5", 70), ("toggle", "ih5", 70), ("tree", "h5", 50), ("tree", "ih5", 50),
                 ("general", "h5", 70), ("general", "ih5", 40), ("walk", "both", 55)],
}  # fmt: skip


def run(tier: str, seed: int) -> dict:
    return C.run_driver(
        Checker, tier, seed, RULE, plan=PLAN["quick" if tier == "quick" else "thorough"],
        assumptions=[
            "version compatibility = requested.supports(stored): same major, requested minor >= stored minor, patch ignored (property text + PluginRef.supports docstring)",
            "get() by an auxiliary ancestor or by a version that no installed schema supports is outside the precondition and not exercised; query() with such arguments is exercised (no parsing involved)",
            "what a copy carries to its destination is not part of the statement: observed and adopted into the model (noted), everything else is predicted",
            "an older stored release (vt.ver 0.1.0 next to installed 0.2.0) is produced by attaching inside an environment where only 0.1.0 is listed (harness restricts schemas._VERSIONS for that one call); only when the multi-version family could be registered",
        ],
        trusted=["pydantic equality/parsing for comparing returned and stored instances"],
    )  # fmt: skip


replay = C.make_replay(Checker)
