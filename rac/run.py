"""B-tier entry: python -m rac.run <ID> --tier T --seed S --json OUT   |   --replay FILE

A driver module rac/drivers/cNN.py exposes
    run(tier: str, seed: int) -> dict      (use rac.base.Recorder(...).result(...))
    replay(case: dict) -> (violated: bool, detail: str)
Absent driver => {"present": false}.
Exit codes (for --replay): 1 violation reproduced, 0 not reproduced, 3 crash.
"""
from __future__ import annotations

import argparse
import importlib
import json
import os
import sys
import traceback
from pathlib import Path


def main():
    ap = argparse.ArgumentParser()
    ap.add_argument("pid")
    ap.add_argument("--tier", default="quick")
    ap.add_argument("--seed", type=int, default=0)
    ap.add_argument("--json")
    ap.add_argument("--replay")
    a = ap.parse_args()
    pid = a.pid.upper()
    modname = f"rac.drivers.{pid.lower()}"
    out = {"present": False}
    rc = 0
    try:
        from rac import base  # noqa: F401  (shim first)

        try:
            mod = importlib.import_module(modname)
        except ModuleNotFoundError as e:
            if e.name == modname:
                mod = None
            else:
                raise
        if a.replay:
            data = json.load(open(a.replay))
            if mod is None:
                print(f"no bounded driver for {pid}")
                return 3
            drv = data.get("driver")
            case = data.get("case")
            if drv and drv != pid.lower():
                mod = importlib.import_module(f"rac.drivers.{drv}")
            violated, detail = mod.replay(case)
            print(("REPRODUCED " if violated else "NOT-REPRODUCED ") + f"property={pid} {detail}")
            return 1 if violated else 0
        if mod is not None:
            out = mod.run(a.tier, a.seed)
            out.setdefault("present", True)
    except Exception:  # noqa
        out = {"present": True, "crash": traceback.format_exc()[-4000:], "violations": [], "evaluations": 0, "distinct_nontrivial": 0}
        rc = 3
    if a.json:
        with open(a.json, "w") as f:
            json.dump(out, f, default=repr)
    else:
        json.dump(out, sys.stdout, indent=1, default=repr)
    # make sure stray non-daemon threads / h5py handles cannot hang the exit
    sys.stdout.flush()
    os._exit(rc)


if __name__ == "__main__":
    sys.exit(main())
