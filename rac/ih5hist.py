"""History enumerator + lock-step refinement runner shared by the IH5 bounded drivers (C01, C05).

* `gen_ops(dump, ...)`    operation alphabet *relative to the current reference tree* (existing nodes, their
                          children-to-be, one nonexistent path per failing class), see the function doc.
* `run_history(...)`      apply a history to a fresh IH5 record and to the in-memory h5py reference in lock-step and
                          evaluate the C01 contract after every operation (status, tree, visit, failed-op-unchanged),
                          plus close/reopen-read-only at the end.
* `bfs(...)`              breadth-first exploration from the empty record, de-duplicated on
                          (physical state of all container files, reference dump); frontier states are re-materialised
                          by replaying their shortest history in a fresh temp dir.  Optionally on a fork pool.
* `minimise(...)`         greedy op dropping while the violation (same coarse kind) persists.
* `SCENARIOS`             curated multi-container histories (replace-then-touch etc.) that every tier always runs.

Oracle: only `h5py` (single plain tree) and the property statement; nothing of metador_core.ih5 is used to compute an
expected value.
"""
from __future__ import annotations

import contextlib
import itertools
import multiprocessing
import os
import signal
import time
import traceback
from pathlib import Path

from . import base  # noqa: F401  (numpy shim first)
from .base import digest, tmpdir
from .ih5lib import (
    OP_TIMEOUT_S,
    apply_op,
    dump_tree,
    dump_visit,
    flat_paths,
    is_move_into_own_subtree,
    new_ref,
    norm,
    phys_state,
    under,
)

KEYS_AB = ["a", "b"]
KEYS_ODD = ["a", "ab", "k.1"]  # prefix-related 2-char key and a key with '.'
KEYS_ALL = ["a", "b", "k.1", "ab"]
ATTR_KEYS = ["k", "j.2"]
MAX_DEPTH = 3

FN = {
    "set": "ih5/overlay.py:IH5Group.create_dataset",
    "mkgrp": "ih5/overlay.py:IH5Group.create_group",
    "del": "ih5/overlay.py:IH5Group.__delitem__",
    "setattr": "ih5/overlay.py:IH5AttributeManager.__setitem__",
    "delattr": "ih5/overlay.py:IH5AttributeManager.__delitem__",
    "copy": "ih5/overlay.py:h5_copy_from_to",
    "move": "ih5/overlay.py:IH5Group.move",
    "commit": "ih5/record.py:IH5Record.commit_patch",
}
FN_CHILDREN = "ih5/overlay.py:IH5InnerNode._children"


@contextlib.contextmanager
def hard_watchdog(seconds: float):
    """Second-line watchdog around `rac.base.watchdog`: the one-shot SIGALRM exception of base.watchdog is lost when
    it happens to be raised inside a weakref callback / __del__ ("Exception ignored in ..."), and the busy loop then
    runs forever.  This one uses the independent CPU-time timer (SIGVTALRM) and keeps firing until OpTimeout propagates."""

    def _h(signum, frame):
        raise base.OpTimeout(f"operation exceeded {seconds}s (cpu)")

    old = signal.signal(signal.SIGVTALRM, _h)
    signal.setitimer(signal.ITIMER_VIRTUAL, seconds + 0.5, 0.2)
    try:
        yield
    finally:
        try:
            signal.setitimer(signal.ITIMER_VIRTUAL, 0)
        except base.OpTimeout:  # fired again just before it was disarmed
            signal.setitimer(signal.ITIMER_VIRTUAL, 0)
        signal.signal(signal.SIGVTALRM, old)


def apply(target, op, is_ih5=False, timeout=OP_TIMEOUT_S):
    """ih5lib.apply_op under the second-line watchdog."""
    try:
        with hard_watchdog(timeout):
            return apply_op(target, op, is_ih5=is_ih5, timeout=timeout)
    except base.OpTimeout:
        signal.setitimer(signal.ITIMER_VIRTUAL, 0)
        return ("hang", None)


def _ih5record():
    from metador_core.ih5.record import IH5Record

    return IH5Record


# ---------------------------------------------------------------------------------------------------------------------
# operation alphabet relative to a tree


def _join(g: str, k: str) -> str:
    return f"{g}/{k}" if g else k


def _depth(p: str) -> int:
    return 0 if not p else p.count("/") + 1


def tree_nodes(dump):
    """[(path, kind, attr-keys)] of a dump_tree result, root first (path ''), pre-order, paths without leading '/'."""
    res = [("", "g", sorted((dump.get("attrs") or {}).keys()))]

    def rec(d, prefix):
        for k, ch in (d.get("ch") or {}).items():
            p = _join(prefix, k)
            res.append((p, "g" if "ch" in ch else "d", sorted((ch.get("attrs") or {}).keys())))
            rec(ch, p)

    rec(dump, "")
    return res


def ds_value(cidx: int, path: str):
    """Deterministic dataset value: depends on the container it is written into (stale data from an older container
    is then distinguishable from the current value) and on the depth only (state space stays small)."""
    return 10 * (cidx + 1) + _depth(path)


def at_value(cidx: int, path: str, key: str):
    return f"{key}@{cidx + 1}"


def gen_ops(dump, keys, cidx: int, can_commit: bool, level: int = 1, attr_keys=None, selfcopy: bool = True, fails: bool = True):
    """Operations that are *meaningful relative to the current reference tree* `dump`.

    level 0 (quick BFS)    per group only the first fresh child key as creation target, one attribute key,
                           copy/move destinations: first fresh root key, first fresh child of one other group,
                           (copy only) every fresh child of the source group itself (= copy into own subtree) and
                           one deeper own-subtree destination whose parent is missing as well.
    level 1 (thorough BFS) every fresh child of every group + one deep fresh path (missing intermediate) per group,
                           copy/move to every fresh child of every group.
    level 2 (random walks) level 1 + second attribute key + all failing classes per node.
    One representative per *failing* class: create over an existing node, create below a dataset, delete / attr / copy
    of a nonexistent path, delete of a missing attribute, copy/move onto an existing node and below a dataset.
    Moves into the node's own subtree are never generated (excluded by the property).
    """
    attr_keys = attr_keys or ATTR_KEYS
    aks = attr_keys[:1] if level < 2 else attr_keys
    nodes = tree_nodes(dump)
    exist = {p for p, _, _ in nodes}
    groups = [p for p, k, _ in nodes if k == "g"]
    dsets = [p for p, k, _ in nodes if k == "d"]
    real = [p for p, _, _ in nodes if p]

    def fresh_children(g):
        if _depth(g) >= MAX_DEPTH:
            return []
        return [_join(g, k) for k in keys if _join(g, k) not in exist]

    fresh = []  # creation targets
    for g in groups:
        fc = fresh_children(g)
        if not fc:
            continue
        fresh += fc if level >= 1 else fc[:1]
        if (level >= 1 or g == "") and _depth(fc[0]) < MAX_DEPTH:
            fresh.append(_join(fc[0], keys[0]))  # deep fresh path: intermediate group must be created on the way
    if level >= 1 and not real:
        fresh.append(_join(_join(keys[0], keys[-1]), keys[0]))  # depth 3 from the empty tree
    fresh = list(dict.fromkeys(fresh))

    nonexist = next((p for p in (_join(g, k) for g in groups for k in reversed(keys)) if p not in exist and _depth(p) <= MAX_DEPTH), None)
    below_ds = next((_join(d, keys[0]) for d in dsets if _depth(d) < MAX_DEPTH), None)

    ops = []
    # -- creation
    for p in fresh:
        ops.append(["set", p, ds_value(cidx, p)])
        ops.append(["mkgrp", p])
    if fails:
        for p in real[:1] if level < 2 else real:
            ops.append(["set", p, ds_value(cidx, p)])
            ops.append(["mkgrp", p])
        if below_ds:
            ops.append(["set", below_ds, ds_value(cidx, below_ds)])
            ops.append(["mkgrp", below_ds])
    # -- deletion
    for p in real:
        ops.append(["del", p])
    if fails and nonexist:
        ops.append(["del", nonexist])
    # -- attributes
    for p, _, has in nodes:
        pp = p or "/"
        for ak in aks:
            ops.append(["setattr", pp, ak, at_value(cidx, p, ak)])
            if ak in has:
                ops.append(["delattr", pp, ak])
    if fails:
        if nonexist:
            ops.append(["setattr", nonexist, aks[0], at_value(cidx, nonexist, aks[0])])
            ops.append(["delattr", nonexist, aks[0]])
        cands = [p for p, _, has in nodes if aks[0] not in has]
        for p in cands[:1] if level < 2 else cands:
            ops.append(["delattr", p or "/", aks[0]])
    # -- copy / move
    root_fresh = fresh_children("")
    for src in real:
        own = fresh_children(src) if src in groups else []
        dsts = []
        if level >= 1:
            for g in groups:
                if g == src or under("/" + g, "/" + src):
                    continue
                dsts += fresh_children(g)
        else:
            dsts += root_fresh[:1]
            other = next((g for g in groups if g and g != src and not under("/" + g, "/" + src) and not under("/" + src, "/" + g) and fresh_children(g)), None)
            if other is None:  # an ancestor group other than the direct parent position
                other = next((g for g in groups if g and g != src and not under("/" + g, "/" + src) and fresh_children(g)), None)
            if other is not None:
                dsts += fresh_children(other)[:1]
        dsts = [d for d in dict.fromkeys(dsts) if d != src]
        for d in dsts:
            ops.append(["copy", src, d])
            ops.append(["move", src, d])
        if selfcopy:
            for d in own:
                ops.append(["copy", src, d])  # copy into own subtree: inside the property's quantifier
            if own and _depth(own[0]) < MAX_DEPTH:  # own subtree, destination parent missing as well
                ops.append(["copy", src, _join(own[0], keys[0])])
        if fails:
            ex = next((p for p in real if p != src and not under("/" + p, "/" + src)), None)
            if ex is not None and (level >= 2 or src == real[0]):
                ops.append(["copy", src, ex])
                ops.append(["move", src, ex])
            if below_ds and not under("/" + below_ds, "/" + src) and (level >= 2 or src == real[0]):
                ops.append(["copy", src, below_ds])
                ops.append(["move", src, below_ds])
    if fails and nonexist and root_fresh:
        tgt = next((f for f in root_fresh if f != nonexist), None)
        if tgt:
            ops.append(["copy", nonexist, tgt])
            ops.append(["move", nonexist, tgt])
    if can_commit:
        ops.append(["commit"])
    ops = [op for op in ops if not is_move_into_own_subtree(op)]
    if not selfcopy:
        ops = [op for op in ops if not is_selfcopy(op)]
    seen, out = set(), []
    for op in ops:
        k = base.canon(op)
        if k not in seen:
            seen.add(k)
            out.append(op)
    return out


def is_selfcopy(op) -> bool:
    return op[0] == "copy" and under(norm(op[2]), norm(op[1]))


def n_commits(history) -> int:
    return sum(1 for op in history if op[0] == "commit")


# ---------------------------------------------------------------------------------------------------------------------
# contract evaluation for one step


def classify_diff(d_rec, d_ref):
    """Return (class string, human text) describing how the IH5 view differs from the reference dump."""
    pr = dict(flat_paths(d_rec))
    pf = dict(flat_paths(d_ref))
    extra = sorted(set(pr) - set(pf))
    missing = sorted(set(pf) - set(pr))
    kind = sorted(p for p in set(pr) & set(pf) if pr[p] != pf[p])

    def at(d, p):
        for s in [x for x in p.split("/") if x]:
            d = d["ch"][s]
        return d

    val, attrs = [], []
    for p in [""] + sorted(set(pr) & set(pf)):
        if p in kind:
            continue
        a, b = at(d_rec, p), at(d_ref, p)
        if a.get("v") != b.get("v"):
            val.append(p)
        if a.get("attrs") != b.get("attrs"):
            attrs.append(p or "/")
    parts, txt = [], []
    for name, lst in (("extra", extra), ("missing", missing), ("kind", kind), ("value", val), ("attrs", attrs)):
        if lst:
            parts.append(name)
            txt.append(f"{name}: {lst}")
    return "+".join(parts) or "other", "; ".join(txt)


def safe_dump(node):
    """(dump_tree, dump_visit, error) read through the public interface only, under a watchdog."""
    try:
        with hard_watchdog(OP_TIMEOUT_S), base.watchdog(OP_TIMEOUT_S):
            return dump_tree(node), dump_visit(node), None
    except base.OpTimeout:
        return None, None, "hang while reading the view"
    except Exception as e:  # noqa
        return None, None, f"{type(e).__name__}: {e}"


class Step:
    """Result of one lock-step operation: list of (ok, kind, what, diffclass) contract evaluations."""

    __slots__ = ("op", "st_rec", "st_ref", "evals", "d_rec", "d_ref", "v_ref")

    def __init__(self, op):
        self.op = op
        self.evals = []

    @property
    def fails(self):
        return [e for e in self.evals if not e[0]]


def lockstep(rec, ref, op, d_before, timeout=OP_TIMEOUT_S):
    """Apply `op` to IH5 record and reference and evaluate contract clauses (a)-(d). `d_before` = common dump before."""
    s = Step(op)
    s.st_ref = apply(ref, op, is_ih5=False, timeout=timeout)
    s.d_ref = dump_tree(ref)
    s.v_ref = dump_visit(ref)
    s.st_rec = apply(rec, op, is_ih5=True, timeout=timeout)
    s.d_rec = None
    k = op[0]
    if s.st_ref[0] == "hang":
        raise RuntimeError(f"reference h5py hung on {op}")
    if s.st_ref[0] == "err" and s.d_ref != d_before:
        raise RuntimeError(f"reference changed by a failing operation {op}: oracle unusable")
    if s.st_rec[0] == "hang":
        s.evals.append((False, "hang", f"IH5 {op} did not return within {timeout}s; on the single tree (h5py) it returns '{s.st_ref[0]}'", ""))
        return s
    s.evals.append((s.st_rec[0] == s.st_ref[0], "status-mismatch", f"{op}: single tree -> {s.st_ref}, IH5 -> {s.st_rec}", f"ref-{s.st_ref[0]}"))
    d_rec, v_rec, err = safe_dump(rec)
    s.d_rec = d_rec
    if err is not None:
        s.evals.append((False, "read-crash", f"reading the IH5 view after {op} failed: {err}", ""))
        return s
    if s.st_rec[0] == "err":
        s.evals.append((d_rec == d_before, "failed-op-changed-view", f"failed {op} ({s.st_rec[1]}) changed the view: {classify_diff(d_rec, d_before)[1]}", classify_diff(d_rec, d_before)[0] if d_rec != d_before else ""))
    if s.st_rec[0] == s.st_ref[0]:
        if d_rec != s.d_ref:
            cls, txt = classify_diff(d_rec, s.d_ref)
            s.evals.append((False, "tree-mismatch", f"after {op}: IH5 view differs from the single tree ({txt})", cls))
        else:
            s.evals.append((True, "tree-mismatch", "", ""))
            sv, sf = sorted(map(tuple, v_rec)), sorted(map(tuple, s.v_ref))
            s.evals.append((sv == sf, "visit-mismatch", f"after {op}: visititems lists {v_rec}, single tree lists {s.v_ref}", ""))
    return s


def reopen_check(path: Path, d_ref, cls=None):
    """Open the (closed) record read-only by name; returns list of evaluations."""
    cls = cls or _ih5record()
    try:
        with hard_watchdog(OP_TIMEOUT_S), base.watchdog(OP_TIMEOUT_S):
            r = cls(path, "r")
    except Exception as e:  # noqa
        return [(False, "reopen-failed", f"reopening the closed record read-only failed: {type(e).__name__}: {e}", "")]
    try:
        d, _, err = safe_dump(r)
        if err is not None:
            return [(False, "reopen-mismatch", f"reading the reopened record failed: {err}", "read")]
        if d != d_ref:
            c, txt = classify_diff(d, d_ref)
            return [(False, "reopen-mismatch", f"after close + reopen('r') the view differs from the single tree ({txt})", c)]
        return [(True, "reopen-mismatch", "", "")]
    finally:
        try:
            r.close()
        except Exception:  # noqa
            pass


def _safe_close(rec, commit=True):
    try:
        with hard_watchdog(OP_TIMEOUT_S), base.watchdog(OP_TIMEOUT_S):
            rec.close(commit=commit)
        return None
    except Exception as e:  # noqa
        return f"{type(e).__name__}: {e}"


_ctr = itertools.count()


def fresh_dir(root: Path) -> Path:
    d = Path(root) / f"w{os.getpid()}_{next(_ctr)}"
    d.mkdir(parents=True)
    return d


def _rm(d: Path):
    import shutil

    shutil.rmtree(d, ignore_errors=True)


def run_history(history, root: Path, timeout=OP_TIMEOUT_S, reopen=True, stop_at_first=True, cls=None, hang_timeouts=None):
    """Run one history in lock-step with all checks. Returns dict(evals=int, fails=[{kind,opkind,idx,what,cls}], ...).

    `hang_timeouts`: optional {op kind: seconds} with shorter watchdogs for op kinds already confirmed to hang.
    """
    cls = cls or _ih5record()
    d = fresh_dir(root)
    ref = new_ref()
    rec = None
    evals, fails = 0, []
    states = 0
    try:
        rec = cls(d / "rec", "x")
        before = dump_tree(ref)
        broken = False
        for i, op in enumerate(history):
            to = (hang_timeouts or {}).get(("selfcopy" if is_selfcopy(op) else op[0]), timeout)
            s = lockstep(rec, ref, op, before, timeout=to)
            evals += len(s.evals)
            for ok, kind, what, dc in s.evals:
                if not ok:
                    fails.append({"kind": kind, "opkind": op[0], "idx": i, "what": f"op #{i} " + what, "cls": dc, "op": op})
            if s.fails:
                broken = True
                if stop_at_first:
                    break
            before = s.d_ref
            states += 1
        if reopen and not broken:
            err = _safe_close(rec)
            if err is not None:
                evals += 1
                fails.append({"kind": "close-failed", "opkind": "close", "idx": len(history), "what": f"close() (commit) failed: {err}", "cls": "", "op": ["close"]})
            else:
                for ok, kind, what, dc in reopen_check(d / "rec", before, cls):
                    evals += 1
                    if not ok:
                        fails.append({"kind": kind, "opkind": "reopen", "idx": len(history), "what": what, "cls": dc, "op": ["reopen"]})
        return {"evals": evals, "fails": fails, "steps": states, "final": before}
    finally:
        if rec is not None:
            _safe_close(rec, commit=False)
        ref.close()
        _rm(d)


def coarse(f) -> tuple:
    return (f["kind"], f["opkind"], f["cls"])


def minimise(history, fail, root: Path, hang_timeouts=None, max_runs=60):
    """Greedy: truncate after the failing op, then drop single ops while a failure of the same coarse kind persists."""
    want = coarse(fail)
    h = list(history[: fail["idx"] + 1]) if fail["idx"] < len(history) else list(history)
    runs = 0

    def still(hh):
        nonlocal runs
        runs += 1
        r = run_history(hh, root, hang_timeouts=hang_timeouts, reopen=(fail["opkind"] in ("reopen", "close")))
        return next((f for f in r["fails"] if coarse(f) == want), None)

    cur = fail
    changed = True
    while changed and runs < max_runs:
        changed = False
        for i in reversed(range(len(h))):
            if runs >= max_runs:
                break
            cand = h[:i] + h[i + 1 :]
            if any(is_move_into_own_subtree(o) for o in cand):
                continue
            f = still(cand)
            if f is not None:
                h, cur, changed = cand, f, True
                if f["idx"] + 1 < len(h):
                    h = h[: f["idx"] + 1]
                break
    return h, cur


# ---------------------------------------------------------------------------------------------------------------------
# state materialisation and BFS


def state_key(rec, d_ref) -> str:
    return digest([phys_state(rec), d_ref])


def materialise(history, root: Path, cls=None):
    """Replay a (known successful) history into a fresh dir. Returns (dir, rec, ref)."""
    cls = cls or _ih5record()
    d = fresh_dir(root)
    rec = cls(d / "rec", "x")
    ref = new_ref()
    for op in history:
        r1 = apply(rec, op, is_ih5=True)
        r2 = apply(ref, op, is_ih5=False)
        if r1[0] != r2[0] or r1[0] == "hang":  # (an op failing on both sides may still have changed files)
            _safe_close(rec, commit=False)
            ref.close()
            _rm(d)
            raise RuntimeError(f"replay of frontier history diverged at {op}: {r1} {r2}")
    return d, rec, ref


_SEEN_CACHE = {}


def _seen_at_level_start(path):
    if not path:
        return frozenset()
    if path not in _SEEN_CACHE:
        _SEEN_CACHE.clear()
        _SEEN_CACHE[path] = frozenset(Path(path).read_text().split())
    return _SEEN_CACHE[path]


def _expand_state(args):
    """Worker: expand ONE frontier state. args = dict(history, root, keys, level, max_containers, check, selfcopy, fails).

    Returns dict(history, succ=[(op, changed, key|None, nontrivial)], evals, fails=[(history+op, fail)]).
    """
    history = args["history"]
    root = Path(args["root"])
    check = args["check"]
    ncont = 1 + n_commits(history)
    out = {"history": history, "succ": [], "evals": 0, "fails": [], "nops": 0, "skipped": False}
    if time.time() > args.get("deadline", float("inf")):
        out["skipped"] = True
        return out
    known = _seen_at_level_start(args.get("seen_file"))
    local = set()
    d, rec, ref = materialise(history, root)
    try:
        d0 = dump_tree(ref)
        ops = gen_ops(d0, args["keys"], ncont - 1, ncont < args["max_containers"], args["level"], selfcopy=args["selfcopy"], fails=args["fails"] and check)
        out["nops"] = len(ops)
        p0 = phys_state(rec) if check else None
        for op in ops:
            if rec is None:
                d, rec, ref = materialise(history, root)
            hist2 = history + [op]
            if check:
                s = lockstep(rec, ref, op, d0)
                out["evals"] += len(s.evals)
                bad = s.fails
                for ok, kind, what, dc in bad:
                    out["fails"].append((hist2, {"kind": kind, "opkind": op[0], "idx": len(history), "what": f"op #{len(history)} " + what, "cls": dc, "op": op}))
                if bad:
                    out["succ"].append((op, False, None, True))
                    _safe_close(rec, commit=False)
                    ref.close()
                    _rm(d)
                    rec = None
                    continue
                if s.st_rec[0] == "err":
                    # failed on both sides, view unchanged (checked); physical state may still have changed
                    if phys_state(rec) == p0:
                        out["succ"].append((op, False, None, True))
                        continue  # keep using the materialised state
                    key = state_key(rec, s.d_ref)
                    out["succ"].append((op, True, key, True))
                else:
                    key = state_key(rec, s.d_ref)
                    out["succ"].append((op, True, key, True))
                    if key in known or key in local:
                        err = "skip"  # close/reopen depends on the physical state only: checked where it was first reached
                    else:
                        local.add(key)
                        err = _safe_close(rec)
                        out["evals"] += 1
                    if err == "skip":
                        pass
                    elif err is not None:
                        out["fails"].append((hist2, {"kind": "close-failed", "opkind": "close", "idx": len(hist2), "what": f"close() (commit) failed: {err}", "cls": "", "op": ["close"]}))
                    else:
                        rr = reopen_check(d / "rec", s.d_ref)
                        out["evals"] += len(rr) - 1
                        for ok, kind, what, dc in rr:
                            if not ok:
                                out["fails"].append((hist2, {"kind": kind, "opkind": "reopen", "idx": len(hist2), "what": what, "cls": dc, "op": ["reopen"]}))
            else:
                r2 = apply(ref, op, is_ih5=False)
                if r2[0] != "ok":
                    continue  # only successful operations produce new source states
                r1 = apply(rec, op, is_ih5=True)
                if r1[0] == "ok":
                    out["succ"].append((op, True, state_key(rec, dump_tree(ref)), True))
            _safe_close(rec, commit=False)
            ref.close()
            _rm(d)
            rec = None
        return out
    finally:
        if rec is not None:
            _safe_close(rec, commit=False)
            ref.close()
            _rm(d)


def expand_state(args):
    """Crash-safe wrapper (a crash of the harness itself is reported as a note, never as a violation)."""
    try:
        return _expand_state(args)
    except Exception:  # noqa
        return {"history": args["history"], "succ": [], "evals": 0, "fails": [], "nops": 0, "skipped": False, "crash": traceback.format_exc()[-1500:]}


def n_workers() -> int:
    try:
        n = len(os.sched_getaffinity(0))
    except Exception:  # noqa
        n = os.cpu_count() or 1
    env = os.environ.get("RAC_WORKERS")
    if env:
        return max(1, int(env))
    return max(1, min(12, n - 4))


class Pool:
    """Tiny wrapper: fork pool with ordered batch map; falls back to serial execution."""

    def __init__(self, n=None):
        self.n = n or n_workers()
        self.pool = None
        if self.n > 1:
            try:
                self.pool = multiprocessing.get_context("fork").Pool(self.n)
            except Exception:  # noqa
                self.pool = None
                self.n = 1

    def map(self, fn, tasks):
        if self.pool is None:
            return [fn(t) for t in tasks]
        return self.pool.map(fn, tasks, chunksize=1)

    def imap(self, fn, tasks):
        """Ordered, lazily consumed results (no barrier between tasks)."""
        if self.pool is None:
            return (fn(t) for t in tasks)
        return self.pool.imap(fn, tasks, chunksize=1)

    def close(self):
        if self.pool is not None:
            self.pool.terminate()
            self.pool.join()
            self.pool = None

    def __enter__(self):
        return self

    def __exit__(self, *a):
        self.close()


def bfs(pool: Pool, root: Path, keys, level, max_len, max_containers, deadline, check=True, selfcopy=True, fails=True, on_result=None, max_states_per_level=None, seed=0):
    """Breadth-first exploration. Returns dict(states={key: history}, levels=[...], complete_len=int, partial=...)."""
    seen = {}
    frontier = [[]]
    # the empty record
    d, rec, ref = materialise([], root)
    try:
        seen[state_key(rec, dump_tree(ref))] = []
    finally:
        _safe_close(rec, commit=False)
        ref.close()
        _rm(d)
    levels = []
    complete_len = 0
    partial = None
    crashes = []
    for depth in range(max_len):
        if not frontier:
            break
        nxt = []
        t_lv = time.time()
        done = 0
        nsucc = 0
        if len(frontier) > 600:  # a level that may stay partial: expand a seeded uniform sample rather than a prefix
            base.rng(seed, f"bfs-frontier-{depth}").shuffle(frontier)
        todo = frontier if max_states_per_level is None else frontier[:max_states_per_level]
        seen_file = Path(root) / f"seen_{next(_ctr)}_{depth}.txt"
        seen_file.write_text("\n".join(seen.keys()))
        tasks = [{"history": h, "root": str(root), "keys": keys, "level": level, "max_containers": max_containers, "check": check, "selfcopy": selfcopy, "fails": fails, "deadline": deadline, "seen_file": str(seen_file)} for h in todo]
        for res in pool.imap(expand_state, tasks):
            if res["skipped"]:
                continue
            if res.get("crash"):
                crashes.append(res["crash"])
            done += 1
            nsucc += len(res["succ"])
            if on_result is not None:
                on_result(res)
            for op, changed, key, _ in res["succ"]:
                if changed and key is not None and key not in seen:
                    seen[key] = res["history"] + [op]
                    nxt.append(seen[key])
        seen_file.unlink()
        stop = done < len(todo)
        levels.append({"len": depth + 1, "expanded_states": done, "of": len(frontier), "successors": nsucc, "new_states": len(nxt), "wall_s": round(time.time() - t_lv, 1)})
        if stop or done < len(frontier):
            partial = {"len": depth + 1, "expanded_states": done, "of": len(frontier)}
            break
        complete_len = depth + 1
        frontier = nxt
    return {"states": seen, "levels": levels, "complete_len": complete_len, "partial": partial, "crashes": crashes}


# ---------------------------------------------------------------------------------------------------------------------
# random walks (thorough)

RANDOM_VALUES = [
    0, 1, -7, 2**40, 1.5, "s", "", "äß", [1, 2, 3], {"__bytes__": ""}, {"__bytes__": "00"}, {"__bytes__": "7f7f"},
    {"__bytes__": "1a"}, {"__bytes__": "007f"}, "a/b", "@",
]  # fmt: skip   (np.void(b'\x7f') itself is excluded: documented IH5 restriction)


def _random_walk(args):
    """Worker: one seeded random walk with all checks; returns dict(history, evals, fails, steps)."""
    seed, idx, length, keys, max_containers, root = args["seed"], args["idx"], args["length"], args["keys"], args["max_containers"], Path(args["root"])
    selfcopy = args["selfcopy"]
    rnd = base.rng(seed, f"c01-walk-{idx}")
    cls = _ih5record()
    d = fresh_dir(root)
    ref = new_ref()
    rec = cls(d / "rec", "x")
    history, evals, fails = [], 0, []
    try:
        before = dump_tree(ref)
        for i in range(length):
            ncont = 1 + n_commits(history)
            ops = gen_ops(before, keys, ncont - 1, ncont < max_containers, 2, selfcopy=selfcopy)
            good, bad = [], []
            for op in ops:
                (good if _would_succeed(ref, op) else bad).append(op)
            commit = [op for op in good if op[0] == "commit"]
            good = [op for op in good if op[0] != "commit"]
            r = rnd.random()
            if commit and r < 0.15:
                op = commit[0]
            elif bad and (r > 0.85 or not good):
                op = rnd.choice(bad)
            else:
                # balance op kinds: choose a kind first, then an op of that kind
                kinds = sorted({o[0] for o in good})
                if len(tree_nodes(before)) > 9:  # keep trees small: favour deletions
                    kinds += ["del"] * 2 if "del" in kinds else []
                k = rnd.choice(kinds)
                op = rnd.choice([o for o in good if o[0] == k])
            op = list(op)
            if op[0] == "set" and rnd.random() < 0.6:
                op[2] = rnd.choice(RANDOM_VALUES)
            if op[0] == "setattr" and rnd.random() < 0.6:
                op[3] = rnd.choice(RANDOM_VALUES)
            if op[0] != "commit" and rnd.random() < 0.2 and op[1] != "/":
                op[1] = "/" + op[1]  # absolute spelling of the same path
            history.append(op)
            s = lockstep(rec, ref, op, before)
            evals += len(s.evals)
            for ok, kind, what, dc in s.fails:
                fails.append({"kind": kind, "opkind": op[0], "idx": i, "what": f"op #{i} " + what, "cls": dc, "op": op})
            if s.fails:
                break
            before = s.d_ref
        if not fails:
            err = _safe_close(rec)
            evals += 1
            if err is not None:
                fails.append({"kind": "close-failed", "opkind": "close", "idx": len(history), "what": f"close() (commit) failed: {err}", "cls": "", "op": ["close"]})
            else:
                for ok, kind, what, dc in reopen_check(d / "rec", before):
                    if not ok:
                        fails.append({"kind": kind, "opkind": "reopen", "idx": len(history), "what": what, "cls": dc, "op": ["reopen"]})
        return {"history": history, "evals": evals, "fails": fails, "steps": len(history), "idx": idx}
    finally:
        _safe_close(rec, commit=False)
        ref.close()
        _rm(d)


def random_walk(args):
    try:
        return _random_walk(args)
    except Exception:  # noqa
        return {"history": [], "evals": 0, "fails": [], "steps": 0, "idx": args["idx"], "crash": traceback.format_exc()[-1500:]}


def _would_succeed(ref, op) -> bool:
    """Cheap prediction on the reference tree (only used to *bias* random choices, never as an oracle)."""
    k = op[0]
    try:
        if k == "commit":
            return True
        if k in ("set", "mkgrp"):
            return op[1] not in ref and _prefix_ok(ref, op[1])
        if k == "del":
            return op[1] in ref
        if k == "setattr":
            return op[1] == "/" or op[1] in ref
        if k == "delattr":
            return (op[1] == "/" or op[1] in ref) and op[2] in (ref if op[1] == "/" else ref[op[1]]).attrs
        if k in ("copy", "move"):
            return op[1] in ref and op[2] not in ref and _prefix_ok(ref, op[2])
    except Exception:  # noqa
        return False
    return False


def _prefix_ok(ref, path) -> bool:
    import h5py

    segs = path.strip("/").split("/")
    for i in range(1, len(segs)):
        p = "/".join(segs[:i])
        if p in ref and not isinstance(ref[p], h5py.Group):
            return False
    return True


# ---------------------------------------------------------------------------------------------------------------------
# curated multi-container scenario histories (always run, both tiers)

def _long_chain(n=12):
    """n containers: patch file names cross from one to two digits (foo.p9.ih5 -> foo.p10.ih5); each patch replaces a value and adds one"""
    h = [["set", "a/x", 0], ["set", "b/n0", 0]]
    for i in range(1, n):
        h += [["commit"], ["del", "a/x"], ["set", "a/x", i], ["set", f"b/n{i}", i]]
        if i % 4 == 0:
            h.append(["del", f"b/n{i - 1}"])
    return h


BAD = {"__unstorable__": 1}

SCENARIOS = {
    # a write that fails (value without HDF5 equivalent) after a delete in the same patch: the deleted node stays deleted
    "failed-set-after-delete": [["set", "a", 1], ["set", "g/x", 2], ["commit"], ["del", "a"], ["set", "a", BAD], ["del", "g/x"], ["set", "g/x", BAD], ["commit"], ["set", "b", 3], ["set", "a", BAD]],
    "failed-set-missing-parent": [["set", "k", 1], ["set", "n/m", BAD]],
    "failed-set-fresh": [["set", "a", BAD], ["mkgrp", "g"], ["set", "g/x", BAD], ["commit"], ["set", "g/y", BAD], ["setattr", "g", "k", BAD]],
    # user data that merely has the byte of the deletion marker
    "one-byte-opaque-values": [["set", "a", {"__bytes__": "61"}], ["set", "g/z", {"__bytes__": "00"}], ["setattr", "/", "k", {"__bytes__": "ff"}], ["commit"], ["set", "b", {"__bytes__": "7e"}], ["del", "a"], ["set", "a", {"__bytes__": "80"}],
                               ["commit"], ["copy", "g", "h"], ["set", "g/y", {"__bytes__": "61"}]],
    "marker-lookalike-values": [["set", "a", {"__np__": "uint8", "value": 127}], ["set", "b", {"__np__": "int8", "value": 127}], ["setattr", "/", "k", {"__np__": "uint8", "value": 127}], ["commit"],
                                ["set", "g/c", {"__np__": "uint8", "value": 127}], ["del", "a"], ["commit"], ["set", "a", {"__np__": "uint8", "value": 127}]],
    # moves between names one of which is a string prefix of the other (a -> ab is a rename, not a move into the own subtree)
    "move-to-prefix-related-name": [["set", "a", 1], ["set", "g/run", 2], ["mkgrp", "data"], ["set", "data/x", 3], ["commit"], ["move", "a", "ab"], ["move", "g/run", "g/run_old"], ["move", "data", "data2"],
                                    ["commit"], ["move", "ab", "a"], ["move", "data2", "dat"]],
    # many patches (reopen by name must find every container, also beyond .p9)
    "long-chain-12": _long_chain(12),
    # keys from the documented alphabet that are regular-expression metacharacters
    "regex-metachar-keys": [["mkgrp", "a+b"], ["set", "a+b/x", 1], ["mkgrp", "k(1)/c*"], ["set", "k(1)/c*/d?", 2], ["commit"], ["set", "a+b/y", 3], ["copy", "a+b", "e|f"],
                            ["move", "k(1)/c*", "$g"], ["commit"], ["set", "$g/x[0]", 4], ["setattr", "a+b", "{i}", "v"], ["set", "^h/\\j", 5], ["copy", "$g", "a+b/z"]],
    # replace-then-touch over three containers (the replaced subtree must not come back)
    "replace-then-touch": [["set", "a/x", 1], ["set", "a/y", 1], ["commit"], ["del", "a"], ["mkgrp", "a"], ["set", "a/z", 2], ["commit"], ["set", "a/w", 3]],
    "replace-then-touch-min": [["set", "a/x", 1], ["commit"], ["del", "a"], ["mkgrp", "a"], ["commit"], ["set", "a/w", 3]],
    "replace-then-touch-attr": [["set", "a/x", 1], ["commit"], ["del", "a"], ["mkgrp", "a"], ["commit"], ["setattr", "a", "k", "v3"]],
    "replace-then-touch-4": [["set", "a/x", 1], ["commit"], ["del", "a"], ["mkgrp", "a"], ["commit"], ["set", "a/w", 3], ["commit"], ["set", "a/v", 4], ["del", "a/w"]],
    "replace-nested-then-touch": [["set", "a/b/x", 1], ["set", "a/y", 1], ["commit"], ["del", "a/b"], ["mkgrp", "a/b"], ["commit"], ["set", "a/b/w", 3]],
    # delete-then-recreate (via implicit parent creation) then touch
    "delete-recreate-touch": [["set", "a/x", 1], ["commit"], ["del", "a"], ["set", "a/w", 2], ["commit"], ["set", "a/z", 3]],
    "delete-recreate-same-patch": [["set", "a/x", 1], ["setattr", "a", "k", "v1"], ["commit"], ["del", "a"], ["mkgrp", "a"], ["set", "a/x", 2], ["commit"], ["del", "a/x"], ["commit"], ["set", "a/q", 4]],
    "delete-then-touch-sibling": [["set", "a/x", 1], ["set", "a/y", 1], ["commit"], ["del", "a/x"], ["commit"], ["set", "a/z", 3], ["commit"], ["set", "a/x", 4]],
    # attribute on replaced group / dataset
    "attr-on-replaced-group": [["set", "a/x", 1], ["setattr", "a", "k", "v1"], ["commit"], ["del", "a"], ["mkgrp", "a"], ["commit"], ["setattr", "a", "j", "v3"]],
    "attr-on-replaced-dataset": [["set", "d", 1], ["setattr", "d", "k", "v1"], ["commit"], ["del", "d"], ["set", "d", 2], ["commit"], ["setattr", "d", "j", "v3"]],
    "attr-delete-readd": [["setattr", "/", "k", "v1"], ["mkgrp", "a"], ["setattr", "a", "k", "v1"], ["commit"], ["delattr", "/", "k"], ["delattr", "a", "k"], ["commit"], ["setattr", "/", "j", "v3"], ["setattr", "a", "j", "v3"], ["commit"], ["setattr", "a", "k", "v4"]],
    # dataset <-> group replacement
    "dataset-to-group": [["set", "a", 1], ["commit"], ["del", "a"], ["mkgrp", "a"], ["commit"], ["set", "a/w", 3]],
    "group-to-dataset": [["set", "a/x", 1], ["commit"], ["del", "a"], ["set", "a", 2], ["commit"], ["setattr", "a", "k", "v3"]],
    "group-to-dataset-to-group": [["set", "a/x", 1], ["commit"], ["del", "a"], ["set", "a", 2], ["commit"], ["del", "a"], ["set", "a/y", 3], ["commit"], ["set", "a/z", 4]],
    "dataset-to-group-implicit": [["set", "a/b", 1], ["commit"], ["del", "a/b"], ["set", "a/b/a", 2], ["commit"], ["set", "a/b/b", 3], ["del", "a/b/a"]],
    # copy into own subtree (inside the quantifier; h5py copies the entry snapshot)
    "copy-into-own-subtree": [["set", "a/x", 1], ["mkgrp", "a/g"], ["copy", "a", "a/sub"]],
    "copy-into-own-subtree-across-boundary": [["set", "a/x", 1], ["setattr", "a", "k", "v1"], ["commit"], ["copy", "a", "a/sub"], ["commit"], ["set", "a/sub/y", 3]],
    "copy-into-own-subtree-deep": [["mkgrp", "a"], ["copy", "a", "a/b/c"]],
    # copy / move across patch boundary
    "copy-across-boundary": [["set", "a/x", 1], ["setattr", "a", "k", "v1"], ["setattr", "a/x", "k", "v1"], ["commit"], ["copy", "a", "b"], ["del", "a"], ["commit"], ["set", "b/y", 3], ["copy", "b/x", "a"]],
    "move-across-boundary": [["set", "a/x", 1], ["set", "b/y", 1], ["commit"], ["move", "a", "b/a"], ["commit"], ["set", "a/z", 3], ["move", "b/a/x", "a/x"]],
    "move-onto-replaced": [["set", "a/x", 1], ["set", "b/y", 1], ["commit"], ["del", "a"], ["move", "b", "a"], ["commit"], ["set", "a/z", 3]],
    "copy-dataset-over-deleted-group": [["set", "a/x", 1], ["set", "d", 1], ["commit"], ["del", "a"], ["copy", "d", "a"], ["commit"], ["setattr", "a", "k", "v3"], ["del", "d"]],
    # deep carrier chains
    "carrier-chain": [["set", "a/b/a", 1], ["commit"], ["set", "a/b/b", 2], ["commit"], ["del", "a/b"], ["set", "a/b/k", 3], ["commit"], ["set", "a/b/a", 4]],
    "root-level-replace": [["set", "a", 1], ["set", "b/x", 1], ["commit"], ["del", "a"], ["del", "b"], ["commit"], ["mkgrp", "b"], ["commit"], ["set", "b/y", 4], ["set", "a", 4]],
    # creation below an ancestor that was deleted (deletion marker in the same / an earlier patch)
    "mkgrp-below-deleted-same-patch": [["set", "a", 1], ["commit"], ["del", "a"], ["mkgrp", "a/a"]],
    "mkgrp-below-deleted-earlier-patch": [["set", "a", 1], ["commit"], ["del", "a"], ["commit"], ["mkgrp", "a/b"], ["set", "a/b/x", 3]],
    "mkgrp-below-deleted-group-earlier-patch": [["mkgrp", "a"], ["commit"], ["del", "a"], ["commit"], ["mkgrp", "a/b"]],
    "set-below-deleted-earlier-patch": [["set", "a/x", 1], ["commit"], ["del", "a"], ["commit"], ["set", "a/y", 3]],
    "copy-below-deleted-earlier-patch": [["set", "a/x", 1], ["set", "b", 1], ["commit"], ["del", "a"], ["commit"], ["copy", "b", "a/c"]],
    # odd keys: '.', 2 chars, prefix-related names
    "odd-keys": [["set", "k.1/ab", 1], ["set", "a/ab", 1], ["set", "ab/a", 1], ["commit"], ["del", "a"], ["move", "ab", "a"], ["commit"], ["set", "a/k.1", 3], ["copy", "k.1", "a/ab"]],
}
SELFCOPY_SCENARIOS = ["copy-into-own-subtree", "copy-into-own-subtree-across-boundary", "copy-into-own-subtree-deep"]
