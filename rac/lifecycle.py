"""Record lifecycle alphabet and disk observers shared by the C02, C03, C04, C11 bounded drivers.

Everything the *oracles* need is observed independently of the code under test:
  * user blocks are parsed by `parse_ublock` (own 20-line parser of the documented format:
    magic line, size line, JSON up to the first NUL) -- never through IH5UserBlock;
  * "committed" = the on-disk user block carries a non-null `hdf5_hashsum` (DESIGN, C02 ghost state);
  * file contents are compared by sha256 of the raw bytes;
  * trees are compared by `ih5lib.dump_tree` (public group/dataset protocol only).

Lifecycle steps (JSON-able lists) executed by `World.step`:
  ["read"]                     dump the tree through the public protocol
  ["cp"]                       create_patch()
  ["data", op]                 one data operation of the ih5lib alphabet (op omitted => next of the world's queue)
  ["discard"]                  discard_patch()
  ["commit"]                   commit_patch()
  ["merge"]                    merge_files(<dir>/mrg<N>)  (fresh, not prefix-related name)
  ["mergeself"]                merge_files(<own path>)    (must refuse: target exists)
  ["close", commit]            close(commit=...)
  ["open", mode, how]          how = "name" | "list" (sorted) | "rlist" (reversed) | ["perm", [i,...]] (explicit list order)
  ["openx", mode]              open by name with the OTHER record class (IH5Record <-> IH5MFRecord; both must accept each other's files)
  ["stubself"]                 IH5MFRecord.create_stub(<the record's own path>, newest committed manifest): must be refused, nothing changes
  ["stub"]                     IH5MFRecord.create_stub(<dir>/stb<N>, newest committed manifest of the record); closed at once
"""
from __future__ import annotations

import gc
import hashlib
import json
import os
import shutil
from pathlib import Path

from . import base  # noqa: F401  (numpy shim first)
from .base import OpTimeout, watchdog  # noqa: E402
from .ih5lib import apply_op, dump_tree, new_ref  # noqa: E402

from metador_core.ih5.manifest import IH5MFRecord  # noqa: E402
from metador_core.ih5.record import IH5Record  # noqa: E402

CLASSES = {"ih5": IH5Record, "mf": IH5MFRecord}
UB_SIZE = 1024
MAGIC = "ih5_v01"
MF_EXT = "mf.json"
STEP_TIMEOUT_S = 10.0

# ---------------------------------------------------------------------------------------------
# fixed family of data histories: list of segments; segment i is written into container i
# (sets, attributes, deletes, replacements, group<->dataset replacement; 1..4 containers)
# ---------------------------------------------------------------------------------------------
BIG = {"__bytes__": (bytes(range(256)) * 12).hex()}  # 3 KiB opaque value
HISTORIES = [
    # H0: 1 container
    [[["set", "a/x", 1], ["setattr", "/", "k", "v"]]],
    # H1: 2 containers, delete + additions + root attr
    [[["set", "a/x", 1], ["set", "a/y", {"__bytes__": "00ff"}], ["setattr", "a", "k", 1]],
     [["del", "a/x"], ["set", "a/z", "str"], ["setattr", "/", "r", 2]]],
    # H2: 2 containers, dataset replaced (attribute of the old one must vanish)
    [[["set", "d", 1], ["setattr", "d", "u", 5]],
     [["del", "d"], ["set", "d", 2]]],
    # H3: 3 containers, delete / re-create a dataset, attribute set then deleted
    [[["mkgrp", "g"], ["set", "g/a", 1], ["set", "g/b", 2]],
     [["del", "g/a"], ["setattr", "g", "m", "x"]],
     [["set", "g/a", 3], ["delattr", "g", "m"]]],
    # H4: 3 containers, group replaced by a dataset, empty value
    [[["set", "p/q/r", 1], ["set", "p/s", {"__bytes__": ""}]],
     [["del", "p/q"]],
     [["set", "p/q", 7]]],
    # H5: 4 containers
    [[["set", "a", 1]],
     [["set", "b", 2], ["setattr", "a", "k", 1]],
     [["del", "a"]],
     [["set", "a", {"__bytes__": "00"}], ["set", "c/d", 4]]],
    # H6: 4 containers, root attribute overwritten / deleted, group deleted and re-created
    [[["mkgrp", "e"], ["setattr", "/", "t", 1]],
     [["setattr", "/", "t", 2], ["set", "e/f", 1]],
     [["delattr", "/", "t"], ["del", "e"]],
     [["mkgrp", "e"], ["set", "e/g", 5]]],
    # H7: 2 containers, bigger payload
    [[["set", "big", BIG], ["set", "n/m", 1]],
     [["setattr", "big", "k", 1], ["set", "n/o", "t"]]],
    # H8: 3 containers, empty middle patch
    [[["set", "x", 1]], [], [["set", "y", 2]]],
]  # fmt: skip

# data-op queues used by the lifecycle enumeration after the initial history (op j = j-th successful data step)
QUEUE_COMMON = [
    ["set", "zz/n0", 10],
    ["setattr", "/", "zk", 1],
    ["del", "zz/n0"],
    ["set", "zz/n0", {"__bytes__": "beef"}],
    ["delattr", "/", "zk"],
    ["set", "zz/n1", "s"],
    ["setattr", "zz", "za", 3],
    ["del", "zz"],
]


def first_dataset_path(segments):
    for seg in segments:
        for op in seg:
            if op[0] == "set":
                return op[1]
    return None


def data_queue(hidx: int):
    """Queue for history hidx: first replace something that lives in a committed container, then the common ops."""
    p = first_dataset_path(HISTORIES[hidx])
    pre = [["del", p], ["set", p, 99]] if p else []
    return pre + QUEUE_COMMON


def flat_ops(segments):
    return [op for seg in segments for op in seg]


def ref_dump(ops):
    """Dump of the single-plain-tree reference after applying `ops` (independent oracle for the tree)."""
    ref = new_ref()
    try:
        for op in ops:
            apply_op(ref, op, is_ih5=False)
        return dump_tree(ref)
    finally:
        ref.close()


# ---------------------------------------------------------------------------------------------
# independent disk observers
# ---------------------------------------------------------------------------------------------
def sha(path) -> str:
    return hashlib.sha256(Path(path).read_bytes()).hexdigest()


def dir_digests(d: Path) -> dict:
    """name -> sha256 of every regular file directly in d."""
    return {p.name: sha(p) for p in sorted(Path(d).iterdir()) if p.is_file()}


def parse_ublock_bytes(head: bytes):
    """Own parser of the documented user block layout. Returns dict or None (not a well-formed block)."""
    try:
        txt = head[:UB_SIZE].decode("utf-8")
    except UnicodeDecodeError:
        return None
    parts = txt.split("\n")
    if len(parts) != 3 or parts[0] != MAGIC:
        return None
    body = parts[2]
    nul = body.find("\x00")
    if nul >= 0:
        body = body[:nul]
    try:
        obj = json.loads(body)
    except ValueError:
        return None
    return obj if isinstance(obj, dict) else None


def parse_ublock(path):
    try:
        with open(path, "rb") as f:
            return parse_ublock_bytes(f.read(UB_SIZE))
    except OSError:
        return None


def is_committed(path) -> bool:
    ub = parse_ublock(path)
    return bool(ub) and ub.get("hdf5_hashsum") is not None


def stored_hash_wrong(path):
    """Independent check of a committed container: the hash recorded in its user block must be '<alg>:' + digest of the
    bytes after the user block (computed here with hashlib, not with the library). Returns None if fine / uncommitted,
    else a description."""
    import hashlib

    ub = parse_ublock(path)
    if not ub or ub.get("hdf5_hashsum") is None:
        return None
    alg, _, hx = str(ub["hdf5_hashsum"]).partition(":")
    try:
        h = hashlib.new(alg)
    except Exception:  # noqa
        return f"unknown algorithm in {ub['hdf5_hashsum']!r}"
    h.update(Path(path).read_bytes()[UB_SIZE:])
    return None if h.hexdigest() == hx else f"{Path(path).name}: recorded {ub['hdf5_hashsum'][:24]}..., payload hashes to {alg}:{h.hexdigest()[:16]}..."


def patch_index(path) -> int:
    ub = parse_ublock(path)
    return int(ub["patch_index"]) if ub and "patch_index" in ub else 1 << 30


def mf_path(container: Path) -> Path:
    return Path(str(container) + MF_EXT)


def containers_named(d: Path, name: str):
    """Container files of record `name` by the naming convention <name>.ih5 / <name>.p<k>.ih5, in patch order."""
    res = []
    for p in Path(d).iterdir():
        n = p.name
        if n == f"{name}.ih5":
            res.append(p)
        elif n.startswith(f"{name}.p") and n.endswith(".ih5") and n[len(name) + 2 : -4].isdigit():
            res.append(p)
    return sorted(res, key=lambda p: (patch_index(p), p.name))


def copy_files(files, dst: Path):
    dst.mkdir(parents=True, exist_ok=True)
    out = []
    for p in files:
        q = dst / Path(p).name
        shutil.copyfile(p, q)
        out.append(q)
    return out


_open_fail_count = [0]


def _close_leaked(tb):
    """A refused open leaves the h5py handles of the half-built record open (they hang in a reference cycle until the
    next gc run). libhdf5 shares the low-level file between handles of one process, so a leaked handle would make a
    later open of the (meanwhile modified) file see stale data. Close them: find the half-built record objects in the
    frames of the traceback. Harness-side hygiene only; the verdict (raised / opened) is already fixed at this point."""
    while tb is not None:
        for v in list(tb.tb_frame.f_locals.values()):
            if isinstance(v, IH5Record):
                for f in list(getattr(v, "__files__", None) or []):
                    try:
                        f.close()
                    except Exception:  # noqa
                        pass
        tb = tb.tb_next


def try_open(cls, paths, mode="r", timeout=STEP_TIMEOUT_S):
    """Open a record; returns (rec, None) or (None, "ExcName: msg"). Failed opens leak h5py handles held by a
    reference cycle inside the half-built record object => collect garbage every few failures."""
    try:
        with watchdog(timeout):
            return cls(paths, mode), None
    except OpTimeout:
        return None, "OpTimeout"
    except BaseException as e:  # noqa  (AssertionError etc. are "raises" too)
        if isinstance(e, (KeyboardInterrupt, SystemExit)):
            raise
        msg = f"{type(e).__name__}: {str(e)[:120]}"
        _close_leaked(e.__traceback__)
        del e
        _open_fail_count[0] += 1
        if _open_fail_count[0] % 256 == 0:
            gc.collect()
        return None, msg


def open_dump(cls, paths, mode="r"):
    """Open, dump, close. Returns (dump, meta, None) or (None, None, error). meta = list of newest-first facts."""
    rec, err = try_open(cls, paths, mode)
    if rec is None:
        return None, None, err
    try:
        with watchdog(STEP_TIMEOUT_S):
            d = dump_tree(rec)
            files = [Path(f.filename) for f in rec.__files__]
        return d, files, None
    except BaseException as e:  # noqa
        if isinstance(e, (KeyboardInterrupt, SystemExit)):
            raise
        return None, None, f"dump failed {type(e).__name__}: {str(e)[:120]}"
    finally:
        try:
            rec.close(commit=False)
        except Exception:  # noqa
            pass


def build_segments(cls, path: Path, segments, commit_last=True, on_commit=None, want_dumps=True):
    """Create record (mode 'x'), write segment i into container i. Returns (rec, [live dump after each commit]).

    on_commit(i, rec, dump) is called right after each commit_patch.
    If not commit_last the newest container is left uncommitted (record stays open and writable)."""
    rec = cls(path, "x")
    dumps = []
    n = len(segments)
    for i, seg in enumerate(segments):
        if i > 0:
            rec.create_patch()
        for op in seg:
            st, exc = apply_op(rec, op, is_ih5=True)
            if st != "ok":
                raise RuntimeError(f"history op failed: {op} -> {st} {exc}")
        if i < n - 1 or commit_last:
            rec.commit_patch()
            dmp = dump_tree(rec) if want_dumps else None
            dumps.append(dmp)
            if on_commit:
                on_commit(i, rec, dmp)
    return rec, dumps


# ---------------------------------------------------------------------------------------------
# the lifecycle executor
# ---------------------------------------------------------------------------------------------
class World:
    def __init__(self, d: Path, cls_key: str, name: str = "foo", queue=None):
        self.d = Path(d)
        self.d.mkdir(parents=True, exist_ok=True)
        self.cls_key = cls_key
        self.cls = CLASSES[cls_key]
        self.name = name
        self.path = self.d / name
        self.rec = None
        self.open_mode = None
        self.queue = list(queue or QUEUE_COMMON)
        self.qi = 0
        self.n_merge = 0
        self.n_stub = 0
        self.n_stubself = 0
        self.last_dump = None  # last live dump (taken while open)
        self.trace = []  # resolved steps actually executed (data ops made explicit)

    # -- observers
    def files(self):
        return containers_named(self.d, self.name)

    def live_dump(self):
        if self.rec is None:
            return None
        with watchdog(STEP_TIMEOUT_S):
            self.last_dump = dump_tree(self.rec)
        return self.last_dump

    def applicable(self, st) -> bool:
        k = st[0]
        if k in ("open", "openx"):
            return self.rec is None
        if k == "stub":
            return self.cls_key == "mf" and self.n_stub < 1
        if k == "stubself":
            return self.cls_key == "mf" and self.n_stubself < 1
        if k == "merge":
            return self.rec is not None and self.n_merge < 2
        return self.rec is not None

    # -- executor
    def step(self, st):
        """Execute one lifecycle step. Returns (status, excname) with status in ok|err|hang."""
        k = st[0]
        resolved = list(st)
        if k == "data" and len(st) < 2:
            resolved = ["data", self.queue[self.qi % len(self.queue)]]
        self.trace.append(resolved)
        try:
            with watchdog(STEP_TIMEOUT_S):
                r = self._do(resolved)
            return r
        except OpTimeout:
            return ("hang", None)
        except BaseException as e:  # noqa
            if isinstance(e, (KeyboardInterrupt, SystemExit)):
                raise
            return ("err", type(e).__name__)

    def _do(self, st):
        k = st[0]
        if k == "read":
            self.last_dump = dump_tree(self.rec)
        elif k == "cp":
            self.rec.create_patch()
        elif k == "data":
            r = apply_op(self.rec, st[1], is_ih5=True)
            if r[0] == "ok":
                self.qi += 1
            return r
        elif k == "discard":
            self.rec.discard_patch()
        elif k == "commit":
            self.rec.commit_patch()
        elif k == "merge":
            tgt = self.d / f"mrg{self.n_merge}"
            self.n_merge += 1
            self.rec.merge_files(tgt)
        elif k == "mergeself":
            self.rec.merge_files(self.path)
        elif k == "close":
            rec = self.rec
            rec.close(commit=bool(st[1]))
            self.rec = None
            self.open_mode = None
        elif k == "open":
            mode, how = st[1], st[2]
            if how == "name":
                arg = self.path
            else:
                fs = self.files()
                if how == "list":
                    arg = list(fs)
                elif how == "rlist":
                    arg = list(reversed(fs))
                elif how == "prefix":
                    # an older state of the record: all containers but the newest, given as explicit file list
                    if len(fs) < 2:
                        raise RuntimeError("no older state")
                    arg = list(fs[:-1])
                    kw = {}
                    if self.cls is IH5MFRecord and mf_path(fs[-2]).is_file():
                        kw["manifest_file"] = mf_path(fs[-2])
                    self.rec = self.cls(arg, mode, **kw)
                    self.open_mode = mode
                    return ("ok", None)
                else:
                    arg = [fs[i] for i in how[1]]
            self.rec = self.cls(arg, mode)
            self.open_mode = mode
        elif k == "openx":
            other = IH5Record if self.cls is IH5MFRecord else IH5MFRecord
            self.rec = other(self.path, st[1])
            self.open_mode = st[1]
        elif k == "stub":
            fs = [p for p in self.files() if is_committed(p) and mf_path(p).is_file()]
            if not fs:
                raise RuntimeError("no committed manifest")
            tgt = self.d / f"stb{self.n_stub}"
            self.n_stub += 1
            s = IH5MFRecord.create_stub(tgt, mf_path(fs[-1]))
            s.close()
        elif k == "stubself":
            # a stub requested at the path where the record itself lives: create_stub has no mode argument and must refuse an occupied path
            fs = [p for p in self.files() if is_committed(p) and mf_path(p).is_file()]
            if not fs:
                raise RuntimeError("no committed manifest")
            self.n_stubself += 1
            s = IH5MFRecord.create_stub(self.path, mf_path(fs[-1]))
            s.close()
        else:
            raise RuntimeError(f"unknown step {st}")
        return ("ok", None)

    def shutdown(self):
        if self.rec is not None:
            try:
                self.rec.close(commit=False)
            except Exception:  # noqa
                pass
            self.rec = None


OPEN_STEPS_C02 = [["open", "r", "name"], ["open", "r+", "name"], ["open", "a", "name"], ["open", "r", "rlist"], ["open", "r+", "rlist"], ["open", "a", "list"], ["open", "r+", "prefix"]]
LIVE_STEPS_C02 = [["read"], ["cp"], ["data"], ["discard"], ["commit"], ["merge"], ["mergeself"], ["close", True], ["close", False], ["stub"], ["stubself"]]
