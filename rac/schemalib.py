"""Shared helpers of the schema drivers (C12, C13, C14).

* a JSON-able *type grammar* (``tspec``) for the documented field types of metador schemas and a
  builder turning a JSON-able *schema family spec* into real ``MetadataSchema`` subclasses,
* a deterministic boundary-value corpus per type (raw, JSON-able inputs; sets are written as lists,
  durations / units / quantities as their strings, nested schemas as dicts),
* a generic, hint-driven generator of instance dicts that also works for installed schema plugins.

Nothing in here is an oracle: it only produces *inputs*.  Validity of an input is always decided by the
real code (``S.parse_obj``); invalid inputs are discarded by the drivers.

Type grammar (``tspec``)::

    atom name (str)            one of ATOMS (strict primitives, plain primitives, phantom / constrained
                               types, Duration, PintUnit, PintQuantity, AnyHttpUrl, an Enum ...)
    ["Optional", t]   ["Union", t1, t2, ...]   ["List", t]   ["Set", t]   ["Literal", v1, v2, ...]
    ["Schema", name]           nested schema of the same family (forward / recursive references allowed)
    ["Alias", t, alias]        Annotated[t, Field(alias=alias)]
    ["Field", t, {kwargs}]     Annotated[t, Field(**kwargs)]   (pydantic constraints; discouraged but documented)

Schema spec (one member of a family, a family is a list of these)::

    {"name": str, "base": None | name of an earlier family member,
     "fields": [[fname, tspec] | [fname, tspec, default], ...],
     "const": {k: v}            # @add_const_fields
     "ld": {"context": .., "type": ..}   # JSON-LD constants through ld_decorator (keys get '@')
     "mandatory": [fname, ...]  # @make_mandatory
     "override": [fname, ...]   # @override
     "extra": "forbid" | "ignore" | "allow"}
"""
from __future__ import annotations

import enum
import itertools
import json
import sys
from typing import Any, Dict, List, Literal, Optional, Set, Tuple, Union

import rac.base  # noqa: F401  (numpy shim first)
from rac.base import canon, digest

from phantom.interval import Inclusive  # noqa: E402
from pydantic import AnyHttpUrl, BaseModel, Extra, Field, NonNegativeInt, PositiveFloat, PositiveInt  # noqa: E402
from pydantic.types import ConstrainedList, ConstrainedSet  # noqa: E402
from typing_extensions import Annotated, get_args, get_origin  # noqa: E402

from metador_core.schema import MetadataSchema  # noqa: E402
from metador_core.schema import types as mt  # noqa: E402
from metador_core.schema.decorators import add_const_fields, make_mandatory, override  # noqa: E402
from metador_core.schema.ld import ld_decorator  # noqa: E402

_THIS = sys.modules[__name__]

# --------------------------------------------------------------------------------------------------
# user-defined phantom / enum types of the grammar (honestly narrowing subclasses only)


class Score(float, Inclusive, low=0, high=10):
    """Closed interval [0, 10] (phantom type, as in the schema tutorial)."""


class LowScore(Score, low=0, high=5):
    """Closed interval [0, 5], narrows Score."""


class PosInt(int, Inclusive, low=1):
    """Integers >= 1 (like widget.dashboard.DashboardGroup)."""


class Digit(PosInt, low=1, high=9):
    """Integers 1..9, narrows PosInt."""


class Color(str, enum.Enum):
    red = "red"
    green = "green"


class TextPlain(mt.MimeTypeStr, pattern=r"text/plain"):
    """One MIME type, narrows MimeTypeStr (as NicheMimetype in the tutorial)."""


ATOMS: Dict[str, Any] = {
    # strict primitives (recommended)
    "Bool": mt.Bool, "Int": mt.Int, "Float": mt.Float, "Str": mt.Str,
    # plain primitives ("basic types" of the PGSchema guidelines)
    "bool": bool, "int": int, "float": float, "str": str,
    # phantom / constrained strings shipped by the library
    "NonEmptyStr": mt.NonEmptyStr, "MimeTypeStr": mt.MimeTypeStr, "HashsumStr": mt.HashsumStr,
    "QualHashsumStr": mt.QualHashsumStr, "TextPlain": TextPlain,
    # custom value types with parsers / dynamic encoders
    "Duration": mt.Duration, "PintUnit": mt.PintUnit, "PintQuantity": mt.PintQuantity,
    # phantom intervals, enum, pydantic default types
    "Score": Score, "LowScore": LowScore, "PosInt": PosInt, "Digit": Digit, "Color": Color,
    "Url": AnyHttpUrl, "NonNegativeInt": NonNegativeInt, "PositiveInt": PositiveInt, "PositiveFloat": PositiveFloat,
}  # fmt: skip

# atoms whose values are hashable and therefore usable in Set[...]
SET_ATOMS = [a for a in ATOMS]

# specificity rank used to order Union members ("always list more specific types before more general
# types", schema tutorial).  Members whose serialised form is a string must precede string types, a unit
# must precede a quantity (every unit string is a quantity string).
_RANK = {
    "Bool": 0, "bool": 0, "Int": 1, "Digit": 1, "PosInt": 1, "NonNegativeInt": 1, "PositiveInt": 1, "int": 1,
    "Float": 2, "LowScore": 2, "Score": 2, "PositiveFloat": 2, "float": 2,
    "Duration": 4, "PintUnit": 5, "PintQuantity": 6, "Url": 6, "Color": 6,
    "QualHashsumStr": 7, "TextPlain": 7, "HashsumStr": 8, "MimeTypeStr": 8, "NonEmptyStr": 9, "Str": 10, "str": 11,
}  # fmt: skip


def union_rank(ts) -> int:
    if isinstance(ts, str):
        return _RANK.get(ts, 3)
    if ts[0] in ("Schema", "Literal"):
        return 3
    return 3


def ordered_union(*members):
    """Union tspec with members in documented specific-before-general order (stable)."""
    return ["Union"] + sorted(members, key=union_rank)


# --------------------------------------------------------------------------------------------------
# tspec -> typing hint


def tdepth(ts) -> int:
    if isinstance(ts, str) or ts[0] in ("Literal", "Schema"):
        return 0
    if ts[0] in ("Alias", "Field"):
        return tdepth(ts[1])
    return 1 + max(tdepth(a) for a in ts[1:])


def tleaves(ts):
    if isinstance(ts, str):
        yield ts
    elif ts[0] == "Schema":
        yield "Schema:" + ts[1]
    elif ts[0] == "Literal":
        yield "Literal"
    elif ts[0] in ("Alias", "Field"):
        yield from tleaves(ts[1])
    else:
        for a in ts[1:]:
            yield from tleaves(a)


def tstr(ts) -> str:
    if isinstance(ts, str):
        return ts
    if ts[0] == "Literal":
        return "Literal[" + ",".join(map(repr, ts[1:])) + "]"
    if ts[0] == "Schema":
        return "@" + ts[1]
    if ts[0] == "Alias":
        return f"Alias[{tstr(ts[1])},{ts[2]}]"
    if ts[0] == "Field":
        return f"Field[{tstr(ts[1])},{canon(ts[2])}]"
    return ts[0] + "[" + ",".join(tstr(a) for a in ts[1:]) + "]"


def mk_hint(ts, names: Optional[Dict[str, str]] = None):
    """tspec -> typing hint; nested schemas become string forward references to unique class names."""
    if isinstance(ts, str):
        return ATOMS[ts]
    op, args = ts[0], ts[1:]
    if op == "Optional":
        return Optional[mk_hint(args[0], names)]
    if op == "Union":
        return Union[tuple(mk_hint(a, names) for a in args)]
    if op == "List":
        return List[mk_hint(args[0], names)]
    if op == "Set":
        return Set[mk_hint(args[0], names)]
    if op == "Literal":
        return Literal[tuple(args)]
    if op == "Schema":
        uniq = (names or {})[args[0]]
        return getattr(_THIS, uniq, None) or uniq  # class if already built, else forward ref
    if op == "Alias":
        return Annotated[mk_hint(args[0], names), Field(alias=args[1])]
    if op == "Field":
        return Annotated[mk_hint(args[0], names), Field(**args[1])]
    raise ValueError(f"bad tspec {ts!r}")


# --------------------------------------------------------------------------------------------------
# family builder

_FAMILIES: Dict[str, Dict[str, type]] = {}
_EXTRA = {"forbid": Extra.forbid, "ignore": Extra.ignore, "allow": Extra.allow}


def build_family(fam: List[dict], fresh: bool = False) -> Dict[str, type]:
    """Build (cached) the real MetadataSchema subclasses described by a family spec: name -> class.

    Raises whatever the real metaclass / decorators raise for an illegal definition.
    fresh=True: build the classes again (new class objects with the SAME module and qualified names), not cached.
    """
    key = digest(fam)
    if key in _FAMILIES and not fresh:
        return _FAMILIES[key]
    names = {s["name"]: f"{s['name']}_{key}" for s in fam}
    out: Dict[str, type] = {}
    for s in fam:
        base = out[s["base"]] if s.get("base") else MetadataSchema
        anns, ns = {}, {"__module__": __name__}
        for f in s.get("fields", []):
            anns[f[0]] = mk_hint(f[1], names)
            if len(f) > 2:
                ns[f[0]] = f[2]
        ns["__annotations__"] = anns
        ns["__qualname__"] = names[s["name"]]
        if s.get("extra"):
            ns["Config"] = type("Config", (), {"extra": _EXTRA[s["extra"]]})
        cls = type(base)(names[s["name"]], (base,), ns)
        # decorators in the order the docs use them (LD / const innermost, then mandatory, override)
        if s.get("ld"):
            cls = ld_decorator()(cls, **s["ld"])
        if s.get("const"):
            cls = add_const_fields(dict(s["const"]), override=bool(s.get("const_override")))(cls)
        if s.get("mandatory"):
            cls = make_mandatory(*s["mandatory"])(cls)
        if s.get("override"):
            cls = override(*s["override"])(cls)
        if not fresh:
            setattr(_THIS, names[s["name"]], cls)
        out[s["name"]] = cls
    ns_all = {names[n]: c for n, c in out.items()}
    for c in out.values():
        c.update_forward_refs(**ns_all)
    if not fresh:
        _FAMILIES[key] = out
    return out


def single_field_family(ts, fname="f", extra_members: Optional[List[dict]] = None) -> List[dict]:
    """Family with the helper schemas plus `Top` holding one field of the given type."""
    return list(extra_members if extra_members is not None else HELPERS) + [{"name": "Top", "fields": [[fname, ts]]}]


# helper (nested) schemas every generated family may refer to: a parent/child chain, an unrelated sibling,
# a recursive model and a schema with special value types + JSON-LD constants.
HELPERS: List[dict] = [
    {"name": "Leaf", "fields": [["a", ["Union", "Int", "Str"]], ["b", ["Optional", "Float"]]]},
    {"name": "LeafKid", "base": "Leaf", "fields": [["a", "Int"], ["c", ["Optional", "Bool"]]]},
    {"name": "Other", "fields": [["a", "Float"]]},
    {"name": "Rec", "fields": [["v", "Int"], ["nxt", ["Optional", ["Schema", "Rec"]]]]},
    {"name": "Phys", "ld": {"context": "https://example.com/ctx", "type": "Phys"},
     "fields": [["d", ["Optional", "Duration"]], ["u", ["Optional", "PintUnit"]], ["q", ["Optional", "PintQuantity"]],
                ["m", "NonEmptyStr"]]},
]  # fmt: skip
HELPER_SCHEMAS = ["Leaf", "LeafKid", "Other", "Rec", "Phys"]


# --------------------------------------------------------------------------------------------------
# grammar enumeration

STRICT = ["Bool", "Int", "Float", "Str"]
PLAIN = ["bool", "int", "float", "str"]
PHANTOM = ["NonEmptyStr", "MimeTypeStr", "HashsumStr", "QualHashsumStr", "TextPlain", "Score", "LowScore", "PosInt", "Digit"]
SPECIAL = ["Duration", "PintUnit", "PintQuantity"]
MISC = ["Color", "Url", "NonNegativeInt", "PositiveInt", "PositiveFloat"]
LITERALS = [["Literal", 1], ["Literal", 1, 2], ["Literal", "a"], ["Literal", "a", "b"], ["Literal", True], ["Literal", 0, "a"]]
SCHEMAS = [["Schema", n] for n in HELPER_SCHEMAS]
FIELD_CONSTRAINED = [["Field", "int", {"ge": 0}], ["Field", "int", {"ge": 5}], ["Field", "str", {"max_length": 3}], ["Field", "str", {"max_length": 5}]]

ALL_ATOMS: List[Any] = STRICT + PLAIN + PHANTOM + SPECIAL + MISC + LITERALS + SCHEMAS


def _hashable_atom(a) -> bool:
    return not (isinstance(a, list) and a[0] == "Schema")


def types_depth0(atoms=None) -> List[Any]:
    return list(atoms if atoms is not None else ALL_ATOMS)


def types_depth1(atoms=None, union_atoms=None) -> List[Any]:
    """All one-constructor types over the atoms: Optional, List, Set, (ordered) binary Unions."""
    atoms = list(atoms if atoms is not None else ALL_ATOMS)
    out: List[Any] = []
    for a in atoms:
        out.append(["Optional", a])
        out.append(["List", a])
        if _hashable_atom(a):
            out.append(["Set", a])
    ua = list(union_atoms if union_atoms is not None else atoms)
    for a, b in itertools.combinations(ua, 2):
        if union_rank(a) != union_rank(b) or (isinstance(a, list) and isinstance(b, list)):
            out.append(ordered_union(a, b))
    return out


UNION_CORE = ["Bool", "Int", "Float", "Str", "NonEmptyStr", "Duration", "PintUnit", "PintQuantity", "Digit", "Url",
              ["Literal", "a", "b"], ["Schema", "LeafKid"], ["Schema", "Leaf"], ["Schema", "Other"]]  # fmt: skip


def _u(a, b):
    # keep schema members in the given (specific first) order
    if isinstance(a, list) and isinstance(b, list):
        return ["Union", a, b]
    return ordered_union(a, b)


def core_unions() -> List[Any]:
    out = []
    for a, b in itertools.combinations(UNION_CORE, 2):
        if a == ["Schema", "Leaf"] and b == ["Schema", "LeafKid"]:
            continue
        if union_rank(a) == union_rank(b) and not (isinstance(a, list) and isinstance(b, list)):
            continue
        out.append(_u(a, b))
    out.append(["Union", "Bool", "Int", "Float", "Str"])
    out.append(["Union", "Int", "Duration", "NonEmptyStr"])
    return out


def types_depth2(atoms=None) -> List[Any]:
    """Two-constructor types of the mergeable shape (Optional?(singular | List/Set of singular))."""
    atoms = list(atoms if atoms is not None else ALL_ATOMS)
    out: List[Any] = []
    for a in atoms:
        out.append(["Optional", ["List", a]])
        if _hashable_atom(a):
            out.append(["Optional", ["Set", a]])
    for u in core_unions():
        out.append(["Optional", u])
        out.append(["List", u])
        if all(_hashable_atom(m) for m in u[1:]):
            out.append(["Set", u])
    # shapes the plugin check is documented to refuse (not mergeable): kept to exercise the refusal
    out += [["List", ["Optional", "Int"]], ["Union", "Int", ["List", "Int"]], ["List", ["List", "Int"]]]
    return out


def grammar(max_depth=2, atoms=None) -> List[Any]:
    ts = types_depth0(atoms)
    if max_depth >= 1:
        ts = ts + [t for t in types_depth1(atoms, union_atoms=[]) ] + core_unions()
    if max_depth >= 2:
        ts = ts + types_depth2(atoms)
    seen, out = set(), []
    for t in ts:
        k = canon(t)
        if k not in seen:
            seen.add(k)
            out.append(t)
    return out


# --------------------------------------------------------------------------------------------------
# boundary-value corpus (raw JSON-able inputs)

BOOLS = [False, True]
INTS = [0, -1, 1, 7, 9, 10, 2**31, -(2**63) - 1, 10**30]
FLOATS = [0.0, -0.0, 1.5, -2.25, 5.0, 10.0, 1e300, 5e-324, 0.1, 1e16]
STRS = ["a", "é", "日本語 text", " pad ", "true", "null", "1", "1e3", "2020-01-01", "a: b", "- x", "#c", "a\nb",
        "'q'\"", "~", "\U0001F600", "x" * 300, "abc", "abcd"]  # fmt: skip
BAD_STRS = ["", "  "]
DURS = ["PT0S", "PT1H", "P1DT12H", "-PT1H", "PT0.000001S", "P10000D", "P1W", "PT1.5S"]
UNITS = ["meter", "1/second", "dimensionless", "kg*m/s**2", "m", "percent", "degC", "µm"]
QUANTS = ["5 meter", "0 meter", "-2.5e-3 kg*m/s**2", "5", "1e300 m", "0.1 m", "1e22 m", "3 km/h", "meter", "degC"]
MIMES = ["text/plain", "application/json;charset=utf-8", "a/b"]
HASHES = ["0", "abcDEF0123", "ff" * 32]
QHASHES = ["sha256:ab12", "sha512:0", "sha256:" + "0f" * 32]
URLS = ["http://a.bc", "https://example.com/x?y=1#z", "https://orcid.org/0000-0002-1825-0097", "https://ror.org/02nv7yv05",
        "http://localhost:8080/p"]  # fmt: skip
DATES = ["2020-02-29", "1970-01-01"]
DATETIMES = ["2020-02-29T12:30:00", "1999-12-31T23:59:59.999999+00:00", "2020-01-01T00:00:00"]
TIMES = ["12:30:00", "23:59:59.500000", "00:00:00"]

_TABLE = [
    (mt.Bool, BOOLS), (bool, BOOLS + ["yes", 0]), (mt.Int, INTS), (int, INTS + ["5", True]), (mt.Float, FLOATS),
    (float, FLOATS + [5, "1.5"]), (mt.Str, STRS), (str, STRS + [5, 1.5]), (mt.NonEmptyStr, STRS), (mt.MimeTypeStr, MIMES),
    (mt.HashsumStr, HASHES), (mt.QualHashsumStr, QHASHES), (TextPlain, ["text/plain"]), (mt.Duration, DURS),
    (mt.PintUnit, UNITS), (mt.PintQuantity, QUANTS), (Score, [0.0, 10.0, 5.0, 0.1, 1.5]), (LowScore, [0.0, 5.0, 0.1, 1.5]),
    (PosInt, [1, 7, 9, 10, 2**31, 10**30]), (Digit, [1, 7, 9]), (Color, ["red", "green"]), (AnyHttpUrl, URLS),
    (NonNegativeInt, [0, 1, 7, 2**31]), (PositiveInt, [1, 7, 2**31]), (PositiveFloat, [1.5, 5e-324, 1e300, 0.1]),
]  # fmt: skip


def _is_model(h) -> bool:
    return isinstance(h, type) and issubclass(h, BaseModel)


def universal_corpus() -> List[Any]:
    """Raw values from every atom's corpus plus structural boundary values (used by C13 against all types)."""
    vals: List[Any] = []
    for _, vs in _TABLE:
        vals += vs
    vals += BAD_STRS + DATES + DATETIMES + TIMES
    vals += [None, [], [1], [1, 1], ["a"], [1, "a"], [True], [1.5], [0], [False], [[1]], [None], ["PT1H"], ["meter"],
             {}, {"a": 1}, {"a": "x"}, {"a": 1.5}, {"a": 1, "b": 2.5}, {"a": 1, "c": True}, {"a": "x", "c": 5},
             {"v": 1}, {"v": 1, "nxt": {"v": 2}}, {"m": "x"}, {"m": "x", "q": "5 meter", "d": "PT1H", "u": "meter"},
             [{"a": 1}], [{"a": 1.5}], [{"a": "x"}]]  # fmt: skip
    seen, out = set(), []
    for v in vals:
        k = canon(["v", type(v).__name__, v])
        if k not in seen:
            seen.add(k)
            out.append(v)
    return out


_CAND_CACHE: Dict[Any, List[Any]] = {}


def _hint_key(h) -> str:
    if isinstance(h, type):
        return f"{h.__module__}.{h.__qualname__}#{id(h)}"
    return repr(h)


def _dedup(vals):
    seen, out = set(), []
    for v in vals:
        k = canon(["v", type(v).__name__, v])
        if k not in seen:
            seen.add(k)
            out.append(v)
    return out


def _take(vals, cap):
    return vals if cap is None or len(vals) <= cap else vals[:cap]


def candidates(hint, depth: int = 2, cap: Optional[int] = None) -> List[Any]:
    """Raw candidate inputs for a typing hint (boundary corpus); generic so it also serves installed schemas."""
    key = (_hint_key(hint), depth, cap)
    if key in _CAND_CACHE:
        return _CAND_CACHE[key]
    _CAND_CACHE[key] = []  # recursion guard
    res = _dedup(_candidates(hint, depth, cap))
    _CAND_CACHE[key] = res
    return res


def _candidates(hint, depth, cap):
    from datetime import date, datetime, time
    from pathlib import Path

    origin = get_origin(hint)
    args = get_args(hint)
    if origin is Annotated:
        return candidates(args[0], depth, cap)
    if origin is Union:
        out = []
        members = [a for a in args if a is not type(None)]
        for a in members:
            out += _take(candidates(a, depth, cap), 4 if len(members) > 1 else cap)
        return out
    if origin is Literal:
        return list(args)
    if origin in (list, List):
        el = candidates(args[0], depth, cap)
        return _list_shapes(el, dupes=True)
    if origin in (set, Set, frozenset):
        el = [e for e in candidates(args[0], depth, cap) if not isinstance(e, (dict, list))]
        return _list_shapes(el, dupes=False)
    if origin in (tuple, Tuple):
        if len(args) == 2 and args[1] is Ellipsis:
            return _list_shapes(candidates(args[0], depth, cap), dupes=True)
        cols = [candidates(a, depth, cap) for a in args]
        if any(not c for c in cols):
            return []
        n = max(len(c) for c in cols)
        return [[c[i % len(c)] for c in cols] for i in range(min(n, 4))]
    if origin in (dict, Dict):
        vs = candidates(args[1], depth, cap) if len(args) == 2 and args[1] is not Any else ["x", 1]
        return [{}] + ([{"k": vs[0]}] if vs else []) + ([{"k": vs[0], "k2": vs[-1]}] if len(vs) > 1 else [])
    if hint is Any:
        return [1, "x", {"k": [1]}]
    if isinstance(hint, type):
        if issubclass(hint, ConstrainedList) and getattr(hint, "item_type", None) is not None:
            return _list_shapes(candidates(hint.item_type, depth, cap), dupes=True)
        if issubclass(hint, ConstrainedSet) and getattr(hint, "item_type", None) is not None:
            return _list_shapes([e for e in candidates(hint.item_type, depth, cap) if not isinstance(e, (dict, list))], dupes=False)
        for t, vs in _TABLE:
            if hint is t:
                return list(vs)
        if _is_model(hint):
            return model_dicts(hint, depth - 1)
        if issubclass(hint, enum.Enum):
            return [m.value for m in hint]
        if issubclass(hint, datetime):
            return DATETIMES
        if issubclass(hint, date):
            return DATES
        if issubclass(hint, time):
            return TIMES
        if issubclass(hint, Path):
            return ["a/b.txt", "/abs/p"]
        # unknown leaf class (pydantic constrained types, other phantom types): filter the leaf pool
        return _filter_pool(hint)
    return []


def _list_shapes(el, dupes):
    if not el:
        return [[]]
    out = [[], [el[0]]]
    if len(el) > 1:
        out.append([el[0], el[1]] + ([el[0]] if dupes else []))
        out.append(list(el[:6]))
        out.append([el[-1]])
    elif dupes:
        out.append([el[0], el[0]])
    return out


_LEAF_POOL = None


def _filter_pool(hint):
    from pydantic import parse_obj_as

    global _LEAF_POOL
    if _LEAF_POOL is None:
        _LEAF_POOL = [v for v in universal_corpus() if not isinstance(v, (list, dict)) and v is not None]
    ok = []
    for v in _LEAF_POOL:
        try:
            parse_obj_as(hint, v)
            ok.append(v)
        except Exception:
            pass
        if len(ok) >= 8:
            break
    return ok


def model_fields(model) -> List[Tuple[str, Any, bool]]:
    """(alias, outer type, required) of the non-constant public fields of a pydantic model class."""
    consts = getattr(model, "__constants__", {}) or {}
    out = []
    for name, f in model.__fields__.items():
        if name in consts or name.startswith("_"):
            continue
        out.append((f.alias or name, f.outer_type_, bool(f.required)))
    return out


_MD_CACHE: Dict[Any, List[dict]] = {}


def _nerr(model, d) -> int:
    from pydantic import ValidationError

    try:
        with rac.base.watchdog(10):
            model.parse_obj(d)
        return 0
    except ValidationError as e:
        return len(e.errors())
    except Exception:
        return 10**6


def _repair(model, d, cands, steps: int = 6):
    """Greedy hill-climb on the number of validation errors: smallest valid extension of `d` (or None)."""
    d = dict(d)
    n = _nerr(model, d)
    for _ in range(steps):
        if n == 0:
            return d
        best = None
        for a, vs in cands.items():
            for v in vs:
                if a in d and canon(d[a]) == canon(v):
                    continue
                m = _nerr(model, {**d, a: v})
                if m < n and (best is None or m < best[0]):
                    best = (m, a, v)
                    if m == 0:
                        break
            if best and best[0] == 0:
                break
        if best is None:
            return None
        n, d[best[1]] = best[0], best[2]
    return d if n == 0 else None


def _accepts(model, d) -> bool:
    try:
        with rac.base.watchdog(10):
            model.parse_obj(d)
        return True
    except Exception:
        return False


def model_dicts(model, depth: int = 2, validate: bool = True) -> List[dict]:
    """Systematic raw instance dicts of a model: minimal, full, and every field x every candidate.

    With `validate`, only dicts the real model accepts are returned (nested candidates are pre-filtered).
    """
    key = (_hint_key(model), depth, validate)
    if key in _MD_CACHE:
        return _MD_CACHE[key]
    _MD_CACHE[key] = []
    fields = model_fields(model)
    cands = {}
    if depth < 0:
        fields = [f for f in fields if f[2]]
    for alias, hint, req in fields:
        cands[alias] = candidates(hint, depth, cap=None if depth >= 1 else 3)
    out: List[dict] = []
    if all(cands[a] for a, _, req in fields if req):
        req_only = {a: cands[a][0] for a, _, req in fields if req}
        full = dict(req_only)
        full2 = dict(req_only)
        for a, _, _r in fields:
            if cands[a]:
                full[a] = cands[a][0]
                full2[a] = cands[a][-1]
        out += [dict(req_only), dict(full), full2]
        # vary one field at a time over the first *valid* base (required-only, else everything set:
        # some schemas need more than their required fields, e.g. validators or min_items defaults)
        base = _repair(model, req_only, cands)
        if base is None:
            base = full
        if depth >= 0:
            for a, _, req in fields:
                for v in cands[a] if depth >= 1 else cands[a][:2]:
                    d = dict(base)
                    d[a] = v
                    out.append(d)
                if not req and a in base:
                    d = dict(base)
                    del d[a]
                    out.append(d)
    out = _dedup(out)
    if validate:
        out = [d for d in out if _accepts(model, d)]
    _MD_CACHE[key] = out
    return out


def random_dicts(model, rng, n: int, depth: int = 2, p_opt: float = 0.5):
    """Seeded random combinations of candidates (thorough tier extra)."""
    fields = model_fields(model)
    cands = {a: candidates(h, depth) for a, h, _ in fields}
    if any(not cands[a] for a, _, req in fields if req):
        return
    for _ in range(n):
        d = {}
        for a, _, req in fields:
            if cands[a] and (req or rng.random() < p_opt):
                d[a] = rng.choice(cands[a])
        yield d


# --------------------------------------------------------------------------------------------------
# installed schema plugins


def installed_schemas() -> Dict[str, type]:
    """name -> real (version-pinned) class of every installed schema plugin."""
    from metador_core.plugins import schemas

    out = {}
    for ref in schemas.keys():
        out[ref.name] = cls = schemas.get(ref.name, ref.version)
        # core.packerinfo refers to 'PGPacker.PluginRef', which only resolves once the packer plugin group is
        # loaded; do what the pydantic error message asks a user to do (no effect on resolved models)
        if any(type(f.outer_type_).__name__ == "ForwardRef" for f in cls.__fields__.values()):
            try:
                from metador_core.plugins import packers  # noqa: F401

                cls.update_forward_refs()
            except Exception:
                pass
    return out


def schema_ancestors(cls) -> List[type]:
    """All proper ancestor schema classes along the MRO (closest first), excluding MetadataSchema's own bases."""
    return [c for c in cls.__mro__[1:] if isinstance(c, type) and issubclass(c, MetadataSchema)]


def resolve_schema(ref: dict) -> type:
    """JSON-able schema reference -> class. {"installed": name} | {"family": [...], "name": member}."""
    if "installed" in ref:
        S = installed_schemas()[ref["installed"]]
    else:
        S = build_family(ref["family"])[ref.get("name", "Top")]
    if ref.get("unversioned"):
        S = unversioned_handle(S)
    return S


def unversioned_handle(S: type) -> type:
    """The class `schemas[name]` / `schemas.get(name)` hand out when no version is given: a marker subclass made by the schema metaclass."""
    from metador_core.plugin.metaclass import UndefVersion

    return UndefVersion._mark_class(S)


# --------------------------------------------------------------------------------------------------
# generic text helpers


def yaml_load(text: str):
    """Schema-independent YAML reader (ruamel safe loader) used only to look for constant fields."""
    from ruamel.yaml import YAML

    return YAML(typ="safe").load(text)


def yaml_dump(obj) -> str:
    import io

    from ruamel.yaml import YAML

    buf = io.StringIO()
    y = YAML(typ="safe")
    y.default_flow_style = False
    y.dump(obj, buf)
    return buf.getvalue()


def short(x, n=200) -> str:
    s = x if isinstance(x, str) else repr(x)
    s = s.replace("\n", " | ")
    return s if len(s) <= n else s[: n - 3] + "..."


def exc_sig(e: BaseException) -> str:
    """Stable short description of an exception (class + first message line without addresses / values)."""
    import re

    msg = (str(e).strip().splitlines() or [""])[0]
    msg = re.sub(r"0x[0-9a-f]+", "0x", msg)
    return f"{type(e).__name__}:{msg[:80]}"



# --------------------------------------------------------------------------------------------------
# direct (uncached) class construction for drivers that create very many throw-away classes

_HELPER_NAMES: Dict[str, str] = {}


def helper_names() -> Dict[str, str]:
    """Build the helper family once; mapping helper schema name -> unique class name (for mk_hint)."""
    if not _HELPER_NAMES:
        fam = build_family(HELPERS)
        for n, c in fam.items():
            _HELPER_NAMES[n] = c.__name__
    return _HELPER_NAMES


def helper_classes() -> Dict[str, type]:
    helper_names()
    return build_family(HELPERS)


def make_class(name: str, base, fields: Dict[str, Any], extra: Optional[str] = None, plain: Optional[Dict[str, Any]] = None):
    """Create one real schema class `name(base)` with the given {field: tspec}; not cached, not registered.
    `plain`: class attributes without annotation (pydantic infers a field from a bare default value)."""
    names = helper_names()
    ns = {"__module__": __name__, "__qualname__": name, "__annotations__": {k: mk_hint(v, names) for k, v in fields.items()}}
    ns.update(plain or {})
    if extra:
        ns["Config"] = type("Config", (), {"extra": _EXTRA[extra]})
    return type(base)(name, (base,), ns)
