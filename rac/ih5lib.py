"""Shared helpers for the IH5 bounded drivers (C01, C02, C03, C05, C09, C10, C11, C17).

Reference semantics: the *single plain HDF5-like tree* of the properties is an in-memory `h5py.File`
(driver="core", backing_store=False). IH5 and the reference are both driven only through the public
group/dataset protocol and compared by canonical dumps.

Operation alphabet (JSON-able lists):
  ["set", path, val]       rec[path] = val              (create_dataset)
  ["mkgrp", path]          rec.create_group(path)
  ["del", path]            del rec[path]
  ["setattr", path, key, val]   rec[path].attrs[key] = val      (path "/" = root)
  ["delattr", path, key]        del rec[path].attrs[key]
  ["copy", src, dst]       rec.copy(src, dst)
  ["move", src, dst]       rec.move(src, dst)
  ["commit"]               IH5 only: commit_patch(); create_patch()   (patch boundary; no-op on the reference)
Values are JSON-able: int, str, {"__bytes__": hex} (stored as np.void, or h5py.Empty("S1") if empty).
"""
from __future__ import annotations

import uuid
from pathlib import Path

from . import base  # noqa: F401  (numpy shim)

import h5py  # noqa: E402
import numpy as np  # noqa: E402

from .base import OpTimeout, watchdog  # noqa: E402

OP_TIMEOUT_S = 10.0


def to_h5_value(v):
    """JSON-able value -> value handed to the API."""
    if isinstance(v, dict) and "__bytes__" in v:
        bs = bytes.fromhex(v["__bytes__"])
        return np.void(bs) if len(bs) else h5py.Empty("S1")
    if isinstance(v, dict) and "__unstorable__" in v:
        return np.array([{}], dtype=object)  # a value HDF5 has no type for: the write fails on every driver
    if isinstance(v, dict) and "__np__" in v:
        return np.dtype(v["__np__"]).type(v["value"])  # typed numpy scalar, e.g. {"__np__": "uint8", "value": 127}
    return v


def canon_val(v):
    """Canonical, comparable, JSON-able form of a value read back through the API."""
    if isinstance(v, h5py.Empty):
        return ["empty", str(v.dtype)]
    if isinstance(v, np.void):
        return ["void", v.tobytes().hex()]
    if isinstance(v, (bytes, np.bytes_)):
        return ["bytes", bytes(v).hex()]
    if isinstance(v, (str, np.str_)):
        return ["bytes", str(v).encode("utf-8").hex()]  # h5py hands variable-length strings back as bytes/str
    if isinstance(v, (bool, np.bool_)):
        return ["bool", bool(v)]
    if isinstance(v, (int, np.integer)):
        return ["int", int(v)]
    if isinstance(v, (float, np.floating)):
        return ["float", repr(float(v))]
    if isinstance(v, np.ndarray):
        return ["arr", v.dtype.str, list(v.shape), v.tobytes().hex()]
    return ["other", type(v).__name__, repr(v)]


def is_grouplike(node) -> bool:
    return hasattr(node, "keys") and hasattr(node, "create_group")


def dump_tree(node, with_attrs: bool = True):
    """Canonical dump through keys()/[]/attrs.items()/[()] only."""
    out = {}
    if with_attrs:
        out["attrs"] = {k: canon_val(v) for k, v in node.attrs.items()}
    if is_grouplike(node):
        out["ch"] = {k: dump_tree(node[k], with_attrs) for k in node.keys()}
    else:
        out["v"] = canon_val(node[()])
    return out


def dump_visit(node):
    """Flat dump via visititems (pre-order listing of relative paths with kinds)."""
    acc = []

    def cb(name, obj):
        acc.append([name, "g" if is_grouplike(obj) else "d"])

    node.visititems(cb)
    return acc


def flat_paths(dump, prefix=""):
    """Set of (path, kind) of a dump_tree result."""
    res = []
    for k, ch in (dump.get("ch") or {}).items():
        p = f"{prefix}/{k}"
        res.append((p, "g" if "ch" in ch else "d"))
        res += flat_paths(ch, p)
    return res


def new_ref():
    """Fresh in-memory single-tree reference."""
    return h5py.File(f"ref-{uuid.uuid4().hex}", "w", driver="core", backing_store=False)


def _node(target, path):
    return target if path == "/" else target[path]


def apply_op(target, op, is_ih5: bool = False, timeout: float = OP_TIMEOUT_S):
    """Apply one operation through the public protocol. Returns ("ok", None) | ("err", ExcName) | ("hang", None)."""
    kind = op[0]
    try:
        with watchdog(timeout):
            if kind == "set":
                target[op[1]] = to_h5_value(op[2])
            elif kind == "mkgrp":
                target.create_group(op[1])
            elif kind == "del":
                del target[op[1]]
            elif kind == "setattr":
                _node(target, op[1]).attrs[op[2]] = to_h5_value(op[3])
            elif kind == "delattr":
                del _node(target, op[1]).attrs[op[2]]
            elif kind == "copy":
                target.copy(op[1], op[2])
            elif kind == "move":
                target.move(op[1], op[2])
            elif kind == "commit":
                if is_ih5:
                    target.commit_patch()
                    target.create_patch()
            else:
                raise RuntimeError(f"unknown op {op}")
        return ("ok", None)
    except OpTimeout:
        return ("hang", None)
    except Exception as e:  # noqa
        return ("err", type(e).__name__)


def under(path: str, anc: str) -> bool:
    """True iff `path` is `anc` or lies below it (absolute, normalised paths)."""
    a = anc.rstrip("/")
    return path == anc or path.startswith(a + "/")


def norm(path: str) -> str:
    return "/" + "/".join(s for s in path.split("/") if s)


def is_move_into_own_subtree(op) -> bool:
    return op[0] == "move" and under(norm(op[2]), norm(op[1]))


def phys_state(rec):
    """Canonical dump of *all physical container files* of an open IH5 record (markers and SUBST attrs included)."""
    res = []
    for f in rec.__files__:
        res.append(dump_tree(f))
    return res


def file_bytes_digest(path: Path) -> str:
    import hashlib

    return hashlib.sha256(Path(path).read_bytes()).hexdigest()


def record_files(dirpath: Path, name: str):
    return sorted(p for p in Path(dirpath).iterdir() if p.name == f"{name}.ih5" or (p.name.startswith(name + ".p") and p.name.endswith(".ih5")) or p.name.startswith(name + ".") and p.name.endswith("mf.json"))


def build_record(cls, path: Path, history, strict: bool = True):
    """Create a record at `path` (mode 'x') and apply a history. Returns the open record."""
    rec = cls(path, "x")
    for op in history:
        st, exc = apply_op(rec, op, is_ih5=True)
        if strict and st != "ok":
            raise RuntimeError(f"history op failed: {op} -> {st} {exc}")
    return rec


def run_lockstep(rec, ref, history):
    """Apply history to both; yields (i, op, (st_rec, exc_rec), (st_ref, exc_ref))."""
    for i, op in enumerate(history):
        r1 = apply_op(rec, op, is_ih5=True)
        r2 = apply_op(ref, op, is_ih5=False)
        yield i, op, r1, r2
