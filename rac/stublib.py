"""Helpers for the C10 (stubs / manifests) and C17 (embedded bytes) bounded drivers.

* a small fixed family of *data histories* (ih5lib operation alphabet, plus ["commit", exts?]) that build the
  real records (1-4 containers; sets, attrs, deletes, replacements, nested groups, manifest extensions);
* an *existence model* (path -> kind, attribute names) used to enumerate existence-based update histories;
* the manifest-on-disk contract (hash / uuid / skeleton / extensions), evaluated with hashlib + json only.

Must be imported after rac.base (numpy shim).
"""
from __future__ import annotations

import hashlib
import json
from pathlib import Path

from . import base  # noqa: F401
from . import ih5lib
from .base import OpTimeout, watchdog

MF_EXT_NAME = "ih5mf_v01"  # user block extension section (manifest.py: IH5UBExtManifest.ext_name)
MF_FILE_SUFFIX = "mf.json"  # manifest file = <container file name> + this suffix


def B(hexstr: str):
    return {"__bytes__": hexstr}


def S(tag: str) -> str:
    """Distinctive payload string (searched for in the stub's bytes: a stub must not carry data)."""
    return f"PAYLOAD<{tag}>" + "x" * 8


E1 = {"note": {"k": 1, "l": ["a", "b"]}}
E2 = {"other": "override", "n": 2}

# ---------------------------------------------------------------------------------------------------------
# data histories (the final commit is implicit unless the last op is a commit)
# ---------------------------------------------------------------------------------------------------------
DATA_HISTORIES = {
    "h00-empty": [],
    "h01-flat": [
        ["set", "/a", 1], ["set", "/b", S("h01b")], ["set", "/c", B("00ff7f00")],
        ["setattr", "/", "r", 1], ["setattr", "/a", "k", S("h01ak")], ["setattr", "/b", "v", B("0001")],
    ],
    "h02-nested": [
        ["mkgrp", "/g"], ["set", "/g/x", 5], ["set", "/g/h/y", S("h02y")], ["mkgrp", "/e"],
        ["setattr", "/g", "ga", 1], ["setattr", "/g/h/y", "da", S("h02da")], ["setattr", "/g/h", "ha", B("")],
    ],
    "h03-patch": [
        ["mkgrp", "/g"], ["set", "/g/x", 5], ["set", "/g/h/y", S("h03y")], ["setattr", "/g", "ga", 1],
        ["setattr", "/g/h/y", "da", 2], ["setattr", "/", "r", S("h03r")],
        ["commit"],
        ["del", "/g/x"], ["set", "/g/z", S("h03z")], ["setattr", "/g", "ga", 7], ["delattr", "/g/h/y", "da"],
        ["set", "/n", B("000000")], ["setattr", "/n", "na", 1],
    ],
    "h04-replace": [
        ["set", "/a", S("h04a")], ["setattr", "/a", "k", 1], ["set", "/g/x", 1], ["setattr", "/g", "ga", S("h04ga")],
        ["commit"],
        ["del", "/a"], ["mkgrp", "/a"], ["set", "/a/x", 2], ["setattr", "/a", "k2", 1],
        ["del", "/g"], ["set", "/g", S("h04g")],
    ],
    "h05-regroup": [
        ["set", "/a/x", 1], ["set", "/a/y", S("h05y")], ["setattr", "/a", "k", 1],
        ["commit"],
        ["del", "/a"], ["mkgrp", "/a"], ["set", "/a/z", 3],
        ["commit"],
        ["set", "/a/w", 4], ["setattr", "/a/z", "za", S("h05za")],
    ],
    "h06-attrs": [
        ["set", "/d", 1], ["mkgrp", "/g"], ["setattr", "/", "r1", 1], ["setattr", "/", "r2", S("h06r2")],
        ["setattr", "/d", "d1", 1], ["setattr", "/d", "d2", 2], ["setattr", "/g", "g1", 1],
        ["commit"],
        ["delattr", "/", "r1"], ["delattr", "/d", "d1"], ["delattr", "/g", "g1"], ["setattr", "/g", "g2", 2],
        ["commit"],
        ["setattr", "/", "r1", 9], ["setattr", "/d", "d1", S("h06d1")], ["setattr", "/d", "d3", B("7f00")],
    ],
    "h07-deep4": [
        ["set", "/p/q/r/s", S("h07s")], ["set", "/p/t", 1], ["setattr", "/p/q", "qa", 1],
        ["commit"],
        ["del", "/p/q/r/s"], ["set", "/p/q/r/u", 2], ["set", "/top", B("0102")],
        ["commit"],
        ["set", "/p/q/r/s", S("h07s2")], ["del", "/p/t"], ["setattr", "/p/q/r/s", "sa", 1],
        ["commit"],
        ["del", "/p/q/r/s"], ["set", "/p/q/r/s", 3], ["del", "/top"], ["mkgrp", "/top"], ["set", "/top/in", S("h07in")],
    ],
    "h08-exts": [
        ["set", "/a", 1], ["setattr", "/a", "k", 1],
        ["commit", E1],
        ["set", "/b", S("h08b")], ["mkgrp", "/g"],
    ],
    "h09-exts3": [
        ["set", "/g/x", S("h09x")],
        ["commit", E1],
        ["set", "/g/y", 2], ["setattr", "/g", "ga", 1],
        ["commit"],
        ["del", "/g/x"], ["setattr", "/", "r", 1],
        ["commit", E2],
    ],
    "h10-emptypatch": [
        ["set", "/a", 1], ["mkgrp", "/g"],
        ["commit"],
        ["commit"],
        ["set", "/g/x", S("h10x")], ["setattr", "/g/x", "xa", 1],
    ],
    "h11-copymove": [
        ["set", "/src/d", S("h11d")], ["setattr", "/src/d", "da", 1], ["setattr", "/src", "sa", 2],
        ["commit"],
        ["copy", "/src", "/cp"], ["move", "/src/d", "/mv"], ["set", "/z", B("")],
    ],
    # base container written by a plain IH5Record (no manifest); turned into an IH5MFRecord by committing a patch
    "h12-plainbase": [
        ["plain-base"],
        ["set", "/a", S("h12a")], ["mkgrp", "/g"], ["setattr", "/g", "ga", 1],
        ["commit"],
        ["set", "/g/x", 2], ["del", "/a"],
    ],
}


def history_payloads(history):
    """Byte strings that are *data* of the real record (long enough to be searched for in a stub)."""
    res = set()
    for op in history:
        for v in op[1:]:
            if isinstance(v, str) and v.startswith("PAYLOAD<"):
                res.add(v.encode())
    return sorted(res)


def n_containers(history) -> int:
    n = sum(1 for op in history if op[0] == "commit")
    if not history or history[-1][0] != "commit":
        n += 1
    return n


# ---------------------------------------------------------------------------------------------------------
# structural skeleton (paths, kinds, attribute names) -- derived from a dump taken through the public protocol
# ---------------------------------------------------------------------------------------------------------
def struct_of_dump(dump):
    """{path: [kind, sorted attr names]} incl. "/" from an ih5lib.dump_tree result."""
    res = {"/": ["g", sorted(dump.get("attrs", {}))]}

    def rec(d, pref):
        for k, ch in (d.get("ch") or {}).items():
            p = f"{pref}/{k}"
            res[p] = ["g" if "ch" in ch else "d", sorted(ch.get("attrs", {}))]
            rec(ch, p)

    rec(dump, "")
    return res


def struct_of_skeleton(skel_json):
    """Same shape from the JSON form of an IH5Skeleton ({path: {node_type, patch_index, attrs}})."""
    return {p: [{"group": "g", "dataset": "d"}.get(v["node_type"], v["node_type"]), sorted(v["attrs"])] for p, v in skel_json.items()}


def dump_values(dump):
    """All canonical values (dataset values and attribute values) of a dump with their location."""
    res = []

    def rec(d, p):
        for k, v in d.get("attrs", {}).items():
            res.append((f"{p or '/'}@{k}", v))
        if "v" in d:
            res.append((p, d["v"]))
        for k, ch in (d.get("ch") or {}).items():
            rec(ch, f"{p}/{k}")

    rec(dump, "")
    return res


# ---------------------------------------------------------------------------------------------------------
# existence model + enumeration of existence-based update operations
# ---------------------------------------------------------------------------------------------------------
class ExistModel:
    """path -> (kind, attr names); only what an existence-based update may rely on."""

    def __init__(self, struct):
        self.nodes = {p: [k, set(a)] for p, (k, a) in struct.items()}
        self.touched = []  # paths created / deleted / re-attributed by the update so far (most recent last)
        self.deleted_attrs = []

    def clone(self):
        m = ExistModel({})
        m.nodes = {p: [k, set(a)] for p, (k, a) in self.nodes.items()}
        m.touched = list(self.touched)
        m.deleted_attrs = list(self.deleted_attrs)
        return m

    # -- validity -------------------------------------------------------------------------------------
    @staticmethod
    def prefixes(path):
        segs = path.strip("/").split("/")
        return ["/" + "/".join(segs[:i]) for i in range(1, len(segs))]

    def can_create(self, path):
        if path in self.nodes:
            return False
        return all(self.nodes.get(q, ["g"])[0] == "g" for q in self.prefixes(path))

    def valid(self, op):
        k = op[0]
        if k in ("set", "mkgrp"):
            return self.can_create(op[1])
        if k == "del":
            return op[1] != "/" and op[1] in self.nodes
        if k == "setattr":
            return op[1] in self.nodes
        if k == "delattr":
            return op[1] in self.nodes and op[2] in self.nodes[op[1]][1]
        return False

    def apply(self, op):
        k = op[0]
        if k in ("set", "mkgrp"):
            for q in self.prefixes(op[1]):
                self.nodes.setdefault(q, ["g", set()])
            self.nodes[op[1]] = ["d" if k == "set" else "g", set()]
            self._touch(op[1])
        elif k == "del":
            for p in [p for p in self.nodes if ih5lib.under(p, op[1])]:
                del self.nodes[p]
            self._touch(op[1])
        elif k == "setattr":
            self.nodes[op[1]][1].add(op[2])
            self._touch(op[1])
        elif k == "delattr":
            self.nodes[op[1]][1].discard(op[2])
            self.deleted_attrs.append((op[1], op[2]))
            self._touch(op[1])

    def _touch(self, p):
        if p in self.touched:
            self.touched.remove(p)
        self.touched.append(p)

    # -- alphabet --------------------------------------------------------------------------------------
    def fresh(self, parent, stem):
        par = "" if parent == "/" else parent
        i = 0
        while f"{par}/{stem}{i}" in self.nodes:
            i += 1
        return f"{par}/{stem}{i}"

    def _ordered(self, kind=None):
        """Existing paths, those touched by the update first (most recent first), then by depth/name."""
        ps = [p for p in self.nodes if kind is None or self.nodes[p][0] == kind]
        recent = [p for p in reversed(self.touched) if p in ps]
        rest = sorted((p for p in ps if p not in recent), key=lambda p: (p.count("/") if p != "/" else 0, p))
        return recent + rest

    def alphabet(self, limit=None, vals=None):
        """Valid existence-based operations in the current state. `limit` = max ops per operation class
        (None: all). Values never depend on anything read from the record."""
        vals = vals or [7, B("00ff00"), "new-value"]

        def cut(xs):
            return xs if limit is None else xs[:limit]

        ops = []
        groups = self._ordered("g")
        if limit is not None:  # spread: most recent / root / deepest
            deepest = sorted(groups, key=lambda p: -p.count("/"))[:1]
            groups = list(dict.fromkeys(groups[:limit] + ["/"] + deepest))
        # create at fresh paths (in existing groups; nested with fresh intermediates; at paths deleted by U)
        cr = []
        for i, g in enumerate(groups):
            cr.append(["set", self.fresh(g, "n"), vals[i % len(vals)]])
        cr.append(["set", self.fresh("/", "m") + "/sub/leaf", vals[1]])
        for p in reversed(self.touched):
            if p not in self.nodes and self.can_create(p):
                cr.append(["set", p, vals[2]])
                cr.append(["mkgrp", p])
        for g in cut(groups):
            cr.append(["mkgrp", self.fresh(g, "ng")])
        ops += cr
        # delete existing nodes
        ops += [["del", p] for p in cut([p for p in self._ordered() if p != "/"])]
        # delete existing attributes
        das = [(p, a) for p in self._ordered() for a in sorted(self.nodes[p][1])]
        ops += [["delattr", p, a] for p, a in cut(das)]
        # set attributes: new key, existing key, key deleted by U
        sa = []
        tgt = self._ordered()
        if limit is not None:
            firstd = [p for p in tgt if self.nodes[p][0] == "d"][:1]
            tgt = list(dict.fromkeys(tgt[:limit] + ["/"] + firstd))
        for i, p in enumerate(tgt):
            sa.append(["setattr", p, "nk", vals[i % len(vals)]])
        for p, a in cut(das):
            sa.append(["setattr", p, a, vals[0]])
        for p, a in self.deleted_attrs:
            if p in self.nodes and a not in self.nodes[p][1]:
                sa.append(["setattr", p, a, vals[1]])
        ops += sa
        # de-duplicate, keep order
        seen, res = set(), []
        for op in ops:
            key = json.dumps(op, sort_keys=True)
            if key not in seen and self.valid(op):
                seen.add(key)
                res.append(op)
        return res


def enumerate_updates(struct, max_len, limit):
    """All valid existence-based update histories of length 1..max_len over the (state dependent) alphabet."""

    def rec(model, prefix):
        if prefix:
            yield list(prefix)
        if len(prefix) >= max_len:
            return
        for op in model.alphabet(limit=limit):
            m2 = model.clone()
            m2.apply(op)
            yield from rec(m2, prefix + [op])

    yield from rec(ExistModel(struct), [])


def random_update(struct, length, rnd):
    model, upd = ExistModel(struct), []
    for _ in range(length):
        alpha = model.alphabet(limit=None)
        if not alpha:
            break
        op = rnd.choice(alpha)
        model.apply(op)
        upd.append(op)
    return upd


def shape_of(update):
    return "+".join(op[0] for op in update)


# ---------------------------------------------------------------------------------------------------------
# manifest on disk vs. newest container (hashlib/json only; the classes under test are not used here)
# ---------------------------------------------------------------------------------------------------------
def read_userblock_json(container_file: Path):
    """Parse the IH5 user block of a container file by hand: 'ih5_v01\\n<size>\\n<json>\\0'."""
    raw = Path(container_file).read_bytes()[:1024]
    head = raw.split(b"\x00", 1)[0].decode("utf-8")
    magic, size, js = head.split("\n", 2)
    assert magic == "ih5_v01", magic
    return json.loads(js)


def manifest_path_for(container_file: Path) -> Path:
    return Path(str(container_file) + MF_FILE_SUFFIX)


def manifest_link_state(container_file: Path):
    """-> dict(ext=<ub ext or None>, mf_exists, mf_bytes_sha, mf_json)"""
    ub = read_userblock_json(container_file)
    ext = (ub.get("ub_exts") or {}).get(MF_EXT_NAME)
    mfp = manifest_path_for(container_file)
    st = {"ub": ub, "ext": ext, "mf_path": str(mfp), "mf_exists": mfp.is_file(), "mf_sha": None, "mf_json": None}
    if st["mf_exists"]:
        bs = mfp.read_bytes()
        st["mf_sha"] = "sha256:" + hashlib.sha256(bs).hexdigest()
        try:
            st["mf_json"] = json.loads(bs.decode("utf-8"))
        except Exception:  # noqa
            st["mf_json"] = None
    return st


def guarded(fn, timeout=20.0):
    """Run fn() under the watchdog -> ("ok", value) | ("err", "ExcName: msg") | ("hang", None)."""
    try:
        with watchdog(timeout):
            return ("ok", fn())
    except OpTimeout:
        return ("hang", None)
    except Exception as e:  # noqa
        return ("err", f"{type(e).__name__}: {e}")
