"""Replay of a deductive counter-model against the real function — for a FIXED list of value-level functions only.

plan = {"fn": <key of REPLAYABLE>, "args": [...json data...], "expect": <json data, optional>}
Only the functions listed in REPLAYABLE can be called, only with plain data arguments; nothing is imported or evaluated
by name. The expected result is either given as data by the contract (`expect`) or computed by the oracle written next
to the entry (the contract's statement of the result, independent of the code).
Output (stdout, one JSON line): {"confirmed": bool, "observed": ..., "expected": ...}; confirmed = the real function
disagrees with the contract on this very input.
"""
from __future__ import annotations

import json
import sys
from pathlib import Path

from . import base  # noqa: F401  (numpy shim)


def _tuple(v):
    return tuple(v["__tuple__"]) if isinstance(v, dict) and "__tuple__" in v else v


def _types():
    from metador_core.plugin import types as T

    return T


def _utils():
    from metador_core.container import utils as U

    return U


def _infer_name(path_text):
    from metador_core.ih5.record import IH5Record

    return IH5Record._infer_name(Path(path_text))


def _last(p):
    return p.rsplit("/", 1)[-1]


# key -> (call(args) on the real code, oracle(args) or None when the plan must carry `expect`)
REPLAYABLE = {
    "to_semver_str": (lambda a: _types().to_semver_str(_tuple(a[0])), lambda a: ".".join(str(x) for x in _tuple(a[0]))),
    "from_semver_str": (lambda a: _types().from_semver_str(a[0]), None),
    "to_ep_name": (lambda a: str(_types().to_ep_name(a[0], _tuple(a[1]))), lambda a: a[0] + "__" + ".".join(str(x) for x in _tuple(a[1]))),
    "from_ep_name": (lambda a: _types().from_ep_name(a[0]), None),
    "_infer_name": (lambda a: _infer_name(a[0]), None),
    "is_internal_path": (lambda a: _utils().is_internal_path(a[0]), lambda a: any(seg.startswith("metador_") for seg in a[0].split("/"))),
    "is_meta_base_path": (lambda a: _utils().is_meta_base_path(a[0]), lambda a: _last(a[0]).startswith("metador_meta_")),
    "to_meta_base_path": (
        lambda a: _utils().to_meta_base_path(a[0], bool(a[1])),
        lambda a: (a[0].rsplit("/", 1)[0] + "/metador_meta_" + _last(a[0])) if a[1] else ("/metador_meta_" if a[0] == "/" else a[0] + "/metador_meta_"),
    ),
    "to_data_node_path": (lambda a: _utils().to_data_node_path(a[0]), None),
}


def enc(v):
    if isinstance(v, tuple):
        return {"__tuple__": [enc(x) for x in v]}
    if isinstance(v, list):
        return [enc(x) for x in v]
    if isinstance(v, (str, int, float, bool)) or v is None:
        return v
    return {"__repr__": repr(v)}


def run(plan):
    key = plan.get("fn")
    if key not in REPLAYABLE:
        return {"confirmed": False, "error": f"not a replayable function: {key!r}"}
    call, oracle = REPLAYABLE[key]
    args = plan.get("args", [])
    if not isinstance(args, list):
        return {"confirmed": False, "error": "arguments must be a list of plain data"}
    try:  # the library itself must import: a tree that cannot be imported is not judged by a replay
        _types(), _utils()
        from metador_core.ih5.record import IH5Record  # noqa: F401
    except Exception as e:  # noqa
        return {"confirmed": False, "error": f"the library does not import: {type(e).__name__}: {e}"[:300]}
    try:
        obs = {"value": enc(call(args))}
    except Exception as e:  # noqa
        obs = {"raises": type(e).__name__, "msg": str(e)[:200]}
    if "expect" in plan:
        exp = {"value": plan["expect"]}
    elif oracle is not None:
        exp = {"value": enc(oracle(args))}
    else:
        return {"confirmed": False, "error": "no expected value for this function"}
    return {"confirmed": obs != exp and not (obs.get("value") is not None and obs.get("value") == exp.get("value")), "observed": obs, "expected": exp, "fn": key, "args": args}


if __name__ == "__main__":
    print(json.dumps(run(json.load(sys.stdin))))
