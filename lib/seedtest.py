"""Evaluate one seeded change against the checks.

usage: python3-vt lib/seedtest.py <src_dir with patch.diff demo.py notes.md> <PID> <seed-name> [--props C02,C04] [--no-baseline]

Steps (on /repo itself, undone afterwards): confirm demo passes unchanged; apply patch; confirm demo fails;
confirm the baseline suite still passes (66); run ./check for each property; undo; store seeded/<name>/{patch.diff,demo.py,meta.json}.
"""
from __future__ import annotations

import json
import os
import re
import shutil
import subprocess
import sys
import time
from pathlib import Path

ROOT = Path(__file__).resolve().parent.parent
REPO = "/repo"
WT = None  # scratch worktree (default mode): the patch is applied there and the checks run with VERIF_REPO=<worktree>


def sh(cmd, timeout=1800, env=None, cwd=None):
    e = dict(os.environ)
    if env:
        e.update(env)
    p = subprocess.run(cmd, shell=True, capture_output=True, text=True, timeout=timeout, env=e, cwd=cwd)
    return p.returncode, (p.stdout + p.stderr)


def run_demo(demo, repo=None):
    rc, out = sh(f"timeout 600 /venv/bin/python {demo}", env={"PYTHONPATH": f"{repo or REPO}/src:{ROOT / 'seeded'}:/tmp"})  # seeded/np_shim.py: the demos import it first
    return rc, out[-1500:]


def main():
    src, pid, name = Path(sys.argv[1]), sys.argv[2], sys.argv[3]
    props = [pid]
    baseline = True
    for a in sys.argv[4:]:
        if a.startswith("--props"):
            props = a.split("=", 1)[1].split(",")
        if a == "--no-baseline":
            baseline = False
    wt = f"/tmp/seedwt_{name}"
    sh(f"git -C {REPO} worktree remove --force {wt}")
    rc, st = sh(f"git -C {REPO} worktree add -q {wt} HEAD")
    if rc != 0:
        print("WORKTREE FAILED", st)
        return 2
    out_dir = ROOT / "seeded" / name
    out_dir.mkdir(parents=True, exist_ok=True)
    shutil.copy(src / "patch.diff", out_dir / "patch.diff")
    shutil.copy(src / "demo.py", out_dir / "demo.py")
    if (src / "notes.md").is_file():
        shutil.copy(src / "notes.md", out_dir / "notes.md")
    meta = {"name": name, "breaks_property": pid, "checked_properties": props, "ran": []}
    rc0, o0 = run_demo(out_dir / "demo.py", wt)
    meta["demo_unchanged"] = {"rc": rc0, "tail": o0[-400:]}
    meta["how"] = f"scratch worktree {wt} of /repo HEAD; git apply patch.diff there; checks run with VERIF_REPO={wt} (P-tier reads its src, B-tier imports it via PYTHONPATH); worktree removed afterwards"
    rc, out = sh(f"git -C {wt} apply {out_dir / 'patch.diff'}")
    if rc != 0:
        meta["apply_error"] = out[-800:]
        json.dump(meta, open(out_dir / "meta.json", "w"), indent=1)
        print("APPLY FAILED", out[-400:])
        return 2
    try:
        rc1, o1 = run_demo(out_dir / "demo.py", wt)
        meta["demo_with_change"] = {"rc": rc1, "tail": o1[-400:]}
        if baseline:
            rcb, ob = sh(f"cd {wt} && timeout 1200 /venv/bin/python -m pytest -q -p no:cacheprovider --timeout=900 --continue-on-collection-errors 2>&1 | tail -1", env={"PYTHONPATH": f"{wt}/src"})
            m = re.search(r"(\d+) passed", ob)
            meta["baseline_passed"] = int(m.group(1)) if m else None
        results = {}
        for p in props:
            t0 = time.time()
            rcc, oc = sh(f"cd {ROOT} && ./check {p} --tier quick", timeout=2400, env={"VERIF_REPO": wt})
            lines = [ln for ln in oc.splitlines() if ln.startswith(("VIOLATION", "KNOWN-FINDING", "UNDECIDED", "CHECKER-ERROR", p + " tier="))]
            what = [ln.strip() for ln in oc.splitlines() if ln.strip().startswith("what:")]
            results[p] = {"exit": rcc, "wall_s": round(time.time() - t0, 1), "lines": lines[:12], "what": what[:6]}
            meta["ran"].append(f"VERIF_REPO={wt} ./check {p} --tier quick  -> exit {rcc}")
        meta["check_results"] = results
        meta["detected"] = any(r["exit"] == 1 for r in results.values())
    finally:
        sh(f"git -C {REPO} worktree remove --force {wt}")
    meta["confirmed_seed"] = (meta["demo_unchanged"]["rc"] == 0) and (meta.get("demo_with_change", {}).get("rc") not in (0, None)) and (meta.get("baseline_passed") in (66, None))
    json.dump(meta, open(out_dir / "meta.json", "w"), indent=1)
    print(json.dumps({k: meta[k] for k in ("name", "confirmed_seed", "detected", "baseline_passed") if k in meta}))
    for p, r in meta.get("check_results", {}).items():
        print(p, "exit", r["exit"], r["lines"][:3], r["what"][:2])
    return 0


if __name__ == "__main__":
    sys.exit(main())
