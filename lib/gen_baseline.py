"""Write lib/oblig_baseline.json from the current evidence files (run after a clean full quick run on the unchanged tree):
per property and function under contract its source sha and the number of named obligations it yields."""
import glob
import json
from pathlib import Path

ROOT = Path(__file__).resolve().parent.parent


def stable_excluded(name):
    last = name.rsplit("/", 1)[-1]
    return last.startswith(("unspecified-exception:", "engine-scope:"))

out = {}
for f in sorted(glob.glob(str(ROOT / "evidence" / "C*.json"))):
    d = json.load(open(f))
    pid = d["property_id"]
    # obligations that only exist on paths the quick feasibility check may or may not prune are not part of the baseline
    out[pid] = {x["fn"]: {"sha": x.get("sha"), "names": [n for n in x.get("obligation_names", []) if not stable_excluded(n)]} for x in d["coverage"].get("functions_under_contract", []) if x.get("status") == "ok"}
import sys

sys.path.insert(0, str(ROOT))
from lib import vcommon as vc  # noqa: E402

out["_tree"] = vc.tree_digest()
json.dump(out, open(ROOT / "lib" / "oblig_baseline.json", "w"), indent=1, sort_keys=True)
print(sum(len(v) for k, v in out.items() if k != "_tree"), "function entries; tree", out["_tree"])
