"""Shared plumbing for the /verif checks (stdlib only; runs under python3-vt 3.11 and /venv 3.12).

Verdict policy (DESIGN 3.4):
  exit 0  held on everything explored (possibly with KNOWN-FINDING lines)
  exit 1  violation (refuted obligation or fired runtime contract), VIOLATION line printed
  exit 2  undecided obligations not covered by a clean bounded run
  exit 3  checker crash / self-check (canary, vacuity) failed
"""
from __future__ import annotations

import hashlib
import json
import os
import sys
import time
from pathlib import Path

ROOT = Path(__file__).resolve().parent.parent
REPO = Path(os.environ.get("VERIF_REPO", "/repo"))
SRC = REPO / "src" / "metador_core"
EVIDENCE_DIR = ROOT / "evidence"
REPLAY_DIR = ROOT / "replays"
KNOWN_FILE = ROOT / "known_findings.json"

PY_P = "python3-vt"  # P-tier interpreter (z3, cvc5)
PY_B = "/venv/bin/python"  # B-tier interpreter (repo deps)


def seed_from_env() -> int:
    try:
        return int(os.environ.get("VERIF_SEED", "0"))
    except ValueError:
        return 0


def jdump(obj, path: Path):
    path.parent.mkdir(parents=True, exist_ok=True)
    tmp = path.with_suffix(path.suffix + ".tmp")
    with open(tmp, "w") as f:
        json.dump(obj, f, indent=1, sort_keys=False, default=_json_default)
        f.write("\n")
    os.replace(tmp, path)


def _json_default(o):
    if isinstance(o, (set, frozenset)):
        return sorted(map(str, o))
    if isinstance(o, bytes):
        return {"__bytes__": o.hex()}
    if isinstance(o, Path):
        return str(o)
    return repr(o)


def load_known():
    """Return list of entries of known_findings.json (never written at run time)."""
    if not KNOWN_FILE.is_file():
        return []
    with open(KNOWN_FILE) as f:
        return json.load(f).get("findings", [])


def match_known(pid: str, signature: str):
    """Return the `known` entry whose signature matches, or None. `fixed` entries suppress nothing."""
    for e in load_known():
        if e.get("property") != pid or e.get("status") != "known":
            continue
        sig = e.get("signature", "")
        if sig and (signature == sig or signature.startswith(sig)):
            return e
    return None


def write_replay(pid: str, data: dict) -> Path:
    blob = json.dumps(data, sort_keys=True, default=_json_default).encode()
    h = hashlib.sha256(blob).hexdigest()[:12]
    p = REPLAY_DIR / pid / f"{h}.json"
    jdump(data, p)
    return p


def tree_digest() -> str:
    """digest of every .py file of the library under check (used to tell the tree the obligation baseline was taken on)"""
    import hashlib

    h = hashlib.sha256()
    for f in sorted(SRC.rglob("*.py")):
        h.update(str(f.relative_to(SRC)).encode())
        h.update(f.read_bytes())
    return h.hexdigest()[:20]


def src_sha(path: Path, lo: int, hi: int) -> str:
    lines = path.read_text().splitlines()[lo - 1 : hi]
    return hashlib.sha256("\n".join(lines).encode()).hexdigest()[:16]


class Timer:
    def __enter__(self):
        self.t0 = time.time()
        return self

    def __exit__(self, *a):
        self.s = time.time() - self.t0


def eprint(*a, **k):
    print(*a, file=sys.stderr, **k)
