"""Orchestrator: ./check <ID> [--tier quick|thorough] [--replay FILE] [--p-only|--b-only]

Runs the deductive tier (pyvc, python3-vt) and the bounded runtime-contract tier (rac, /venv python)
for one property against /repo's current working tree, merges their reports, applies the
known-findings file, writes evidence/<ID>.json and prints the verdict lines.
"""
from __future__ import annotations

import argparse
import json
import os
import subprocess
import sys
import tempfile
import time
from pathlib import Path

sys.path.insert(0, str(Path(__file__).resolve().parent.parent))
from lib import vcommon as vc  # noqa: E402

LEVELS = json.load(open(vc.ROOT / "lib" / "levels.json"))


def run_tier(cmd, out_json: Path, timeout: int, env):
    t0 = time.time()
    try:
        p = subprocess.run(cmd, cwd=vc.ROOT, env=env, capture_output=True, text=True, timeout=timeout)
        rc, so, se = p.returncode, p.stdout, p.stderr
    except subprocess.TimeoutExpired as e:
        rc, so, se = 124, (e.stdout or b"").decode(errors="replace") if isinstance(e.stdout, bytes) else (e.stdout or ""), "TIMEOUT"
    res = None
    if out_json.is_file():
        try:
            res = json.load(open(out_json))
        except Exception as ex:  # noqa
            res = None
            se += f"\n[unreadable tier output: {ex}]"
    return {"rc": rc, "stdout": so, "stderr": se, "res": res, "wall": time.time() - t0}


def main(argv=None):
    ap = argparse.ArgumentParser()
    ap.add_argument("pid")
    ap.add_argument("--tier", default=os.environ.get("VERIF_TIER") or "quick", choices=["quick", "thorough"])
    ap.add_argument("--replay")
    ap.add_argument("--no-baseline", dest="p_only_subset", action="store_true", help="skip the obligation-count self-check (used while regenerating the baseline)")
    ap.add_argument("--p-only", action="store_true")
    ap.add_argument("--b-only", action="store_true")
    ap.add_argument("--verbose", "-v", action="store_true")
    a = ap.parse_args(argv)
    pid = a.pid.upper()
    seed = vc.seed_from_env()
    env = dict(os.environ)
    env["PYTHONPATH"] = str(vc.ROOT)
    if os.environ.get("VERIF_REPO"):
        # testing aid (seeded changes in a scratch worktree): both tiers use that tree instead of /repo
        env["PYTHONPATH"] = f"{os.environ['VERIF_REPO']}/src:{vc.ROOT}"
    env["PYTHONDONTWRITEBYTECODE"] = "1"
    env["PYTHONHASHSEED"] = "0"
    env.setdefault("VERIF_SEED", str(seed))

    if a.replay:
        return do_replay(pid, Path(a.replay), env)

    t0 = time.time()
    tmpd = Path(tempfile.mkdtemp(prefix=f"verif_{pid}_"))
    try:
        return run_check(pid, a, seed, env, tmpd, t0)
    finally:
        import shutil

        shutil.rmtree(tmpd, ignore_errors=True)


def run_native(plan, env):
    """Call the real function on the counter-model's arguments (rac/native.py, the repo's interpreter). Never raises."""
    try:
        p = subprocess.run([vc.PY_B, "-m", "rac.native"], input=json.dumps(plan), capture_output=True, text=True, cwd=vc.ROOT, env=env, timeout=120)
        last = [ln for ln in p.stdout.splitlines() if ln.startswith("{")]
        if p.returncode == 0 and last:
            return json.loads(last[-1])
        return {"confirmed": False, "error": (p.stderr or p.stdout)[-400:]}
    except Exception as e:  # noqa
        return {"confirmed": False, "error": repr(e)}


def do_replay(pid, path: Path, env):
    data = json.load(open(path))
    kind = data.get("kind")
    if kind == "rac":
        p = subprocess.run([vc.PY_B, "-m", "rac.run", pid, "--replay", str(path)], cwd=vc.ROOT, env=env)
        return p.returncode
    if kind == "vc":
        # re-run the named obligation(s) only
        p = subprocess.run([vc.PY_P, "-m", "pyvc.run", pid, "--only", data.get("obligation", ""), "--show"], cwd=vc.ROOT, env=env)
        w = data.get("witness")
        if w and w.get("kind") == "native":
            nat = run_native(data.get("native_plan") or {}, env)
            print(json.dumps(nat)[:1000])
            return 1 if nat.get("confirmed") else 0
        if w:
            wf = path.with_suffix(".witness.json")
            vc.jdump({"kind": "rac", **w}, wf)
            q = subprocess.run([vc.PY_B, "-m", "rac.run", pid, "--replay", str(wf)], cwd=vc.ROOT, env=env)
            return q.returncode
        return p.returncode
    print(f"unknown replay kind in {path}")
    return 3


def run_check(pid, a, seed, env, tmpd, t0):
    tier = a.tier
    procs = {}
    import concurrent.futures as cf

    p_json, b_json = tmpd / "p.json", tmpd / "b.json"
    p_to = 900 if tier == "quick" else 3600
    b_to = 1500 if tier == "quick" else 3 * 3600
    with cf.ThreadPoolExecutor(2) as ex:
        futs = {}
        if not a.b_only:
            futs["P"] = ex.submit(run_tier, [vc.PY_P, "-m", "pyvc.run", pid, "--tier", tier, "--json", str(p_json)], p_json, p_to, env)
        if not a.p_only:
            futs["B"] = ex.submit(run_tier, [vc.PY_B, "-m", "rac.run", pid, "--tier", tier, "--seed", str(seed), "--json", str(b_json)], b_json, b_to, env)
        for k, f in futs.items():
            procs[k] = f.result()

    P = procs.get("P", {}).get("res") or {}
    B = procs.get("B", {}).get("res") or {}
    crashes = []
    for k in procs:
        r = procs[k]
        if r["res"] is None:
            crashes.append(f"{k}-tier produced no report (rc={r['rc']}): {r['stderr'][-2000:]}")
        elif r["res"].get("crash"):
            crashes.append(f"{k}-tier: {r['res']['crash']}")
    if a.verbose:
        for k in procs:
            sys.stderr.write(procs[k]["stdout"][-4000:])
            sys.stderr.write(procs[k]["stderr"][-4000:])

    # self-check against silently lost obligations: a function whose source text is the one of the committed baseline must
    # produce at least as many obligations as it did there (a path that became infeasible through a spec/registry mistake
    # drops its obligations without any failure — this happened once, see DESIGN 0.6)
    if P.get("present") and not a.p_only_subset:
        try:
            allb = json.load(open(vc.ROOT / "lib" / "oblig_baseline.json"))
            # only on the very tree the baseline was taken on: a changed helper may legitimately change what an unchanged caller yields
            base = allb.get(pid, {}) if allb.get("_tree") == vc.tree_digest() else {}
        except Exception:  # noqa
            base = {}
        for f in P.get("functions", []):
            b = base.get(f.get("fn"))
            if b and b.get("sha") == f.get("sha") and f.get("status") == "ok":
                lost = sorted(set(b.get("names", [])) - set(f.get("obligation_names", [])))
                if lost:
                    crashes.append(f"P-tier: {f['fn']} is unchanged (sha {f['sha']}) but no longer yields the obligations {lost[:4]}{'...' if len(lost) > 4 else ''} of the committed baseline: some path lost its obligations (spec or registry error)")
    obligations = P.get("obligations", []) if P.get("present") else []
    n_obl = len(obligations)
    discharged = [o for o in obligations if o["verdict"] == "discharged"]
    failed = [o for o in obligations if o["verdict"] == "failed"]
    undecided = [o for o in obligations if o["verdict"] in ("undecided", "unsupported", "stale")]
    b_viol = B.get("violations", []) if B.get("present") else []

    lines = []
    n_unknown_viol = 0
    n_known = 0
    seen_known = set()

    def report(signature, what, replay_data, no_input=False):
        nonlocal n_unknown_viol, n_known
        k = vc.match_known(pid, signature)
        if k is not None:
            if k["signature"] not in seen_known:
                seen_known.add(k["signature"])
                lines.append(f"KNOWN-FINDING: property={pid} {k.get('what', what)}")
            n_known += 1
            return
        path = vc.write_replay(pid, replay_data)
        tail = " no-failing-input-found" if no_input else ""
        lines.append(f"VIOLATION property={pid} replay={path}{tail}")
        lines.append(f"  what: {what}")
        n_unknown_viol += 1

    for v in b_viol:
        report(v["signature"], v["what"], {"kind": "rac", "property": pid, "signature": v["signature"], "what": v["what"], **v.get("replay", {})})
    for o in failed:
        # pair with a bounded-tier witness for the same function if there is one
        wit = o.get("witness")
        partner = next((v for v in b_viol if o.get("fn") and o["fn"] in v.get("fns", [])), None)
        data = {
            "kind": "vc",
            "property": pid,
            "obligation": o["name"],
            "fn": o.get("fn"),
            "line": o.get("line"),
            "clause": o.get("clause"),
            "solver": o.get("backend"),
            "solver_output": o.get("solver_output", "sat"),
            "model": o.get("model"),
            "native_plan": o.get("native_plan"),
        }
        no_input = True
        what_extra = ""
        if o.get("native_plan") and not (wit and wit.get("confirmed")):
            # the counter-model names concrete arguments of a value-level function: call the real function on them
            nat = run_native(o["native_plan"], env)
            data["native_replay"] = nat
            if nat.get("confirmed"):
                wit = {"confirmed": True, "kind": "native", **nat}
                what_extra = f"; replayed on the real code: {nat.get('fn')}(*{json.dumps(nat.get('args'))[:200]}) gives {json.dumps(nat.get('observed'))[:160]}, the contract demands {json.dumps(nat.get('expected'))[:160]}"
        if wit and wit.get("confirmed"):
            data["witness"] = wit
            no_input = False
        elif partner is not None:
            data["witness"] = {"driver": partner.get("replay", {}).get("driver"), "case": partner.get("replay", {}).get("case")}
            no_input = False
        report("vc:" + o["name"], f"obligation {o['name']} refuted ({o.get('clause','')}) at {o.get('fn')}:{o.get('line')}" + what_extra, data, no_input)

    # coverage / level (a bounded run whose only reports are listed known findings still covers an undecided obligation)
    b_unknown = [v for v in b_viol if vc.match_known(pid, v["signature"]) is None]
    b_clean = bool(B.get("present")) and not b_unknown and not B.get("crash")
    uncovered_undecided = [o for o in undecided if not (b_clean and o.get("bounded_fallback", True))]
    for o in undecided:
        tag = "covered bounded" if o not in uncovered_undecided else "NOT covered"
        lines.append(f"UNDECIDED {o['name']} [{o['verdict']}] ({tag})")

    spec_level = LEVELS.get(pid, {})
    proof_complete = bool(spec_level.get("proof_complete")) and n_obl > 0 and len(discharged) == n_obl
    level = "proof" if proof_complete else "other"

    exitcode = 0
    if n_unknown_viol:
        exitcode = 1
    elif crashes:
        exitcode = 3
    elif uncovered_undecided:
        exitcode = 2
    elif P.get("present") and n_obl == 0:
        crashes.append("P-tier generated zero obligations")
        exitcode = 3
    elif not P.get("present") and not B.get("present"):
        crashes.append("no tier present for this property")
        exitcode = 3

    backends = {}
    for o in discharged:
        backends[o.get("backend", "?")] = backends.get(o.get("backend", "?"), 0) + 1
    samples = []
    for o in obligations[:3] + failed[:2]:
        samples.append({"obligation": o["name"], "kind": o.get("kind"), "verdict": o["verdict"], "backend": o.get("backend"), "secs": o.get("secs"), "goal": o.get("goal_txt", "")[:400]})
    for s in (B.get("samples") or [])[:4]:
        samples.append({"bounded_case": s})
    if not samples:
        samples = [{"note": "no cases"}]

    expl = spec_level.get("explanation", "")
    cov = {
        "obligations": n_obl,
        "discharged": len(discharged),
        "failed": len(failed),
        "undecided": len(undecided),
        "by_backend": backends,
        "solver_s": round(P.get("solver_s", 0.0), 3),
        "checker_cmd": f"./check {pid} --tier {tier}",
        "trusted_base": sorted(set((P.get("trusted") or []) + (B.get("trusted_base") or []))),
        "functions_under_contract": P.get("functions", []),
        "extraction_drops": P.get("dropped", []),
        "self_checks": P.get("self_checks", {}),
        "undecided_obligations": [o["name"] for o in undecided],
        "evaluations": int(B.get("evaluations", 0)) if B.get("present") else max(n_obl, 1),
        "distinct_nontrivial": int(B.get("distinct_nontrivial", 0)) if B.get("present") else max(len(discharged), 0),
        "rule": (B.get("rule") or "") if B.get("present") else "one evaluation per generated obligation; distinct = discharged obligations (no bounded tier for this property)",
        "bound": B.get("bound", ""),
        "bounded_label": "bounded stand-in (runtime-checked contracts under small-scope enumeration); never counted as proved" if B.get("present") else "",
        "samples": samples,
        "explanation": expl
        + f" This run: {len(discharged)}/{n_obl} obligations discharged deductively"
        + (f"; bounded tier: {B.get('evaluations')} contract evaluations, {B.get('distinct_nontrivial')} distinct non-trivial cases, bound: {B.get('bound','')}" if B.get("present") else "; no bounded tier")
        + ".",
        "exhaustive": bool(B.get("exhaustive", False)),
        "known_findings_matched": n_known,
    }
    ev = {
        "property_id": pid,
        "tier": tier,
        "seed": seed,
        "level": level,
        "coverage": cov,
        "assumptions": sorted(set((P.get("assumptions") or []) + (B.get("assumptions") or []))),
        "wall_s": round(time.time() - t0, 2),
        "violations": n_unknown_viol,
        "crashes": crashes,
        "exit": exitcode,
    }
    ev_dir = vc.EVIDENCE_DIR if not os.environ.get("VERIF_REPO") else vc.REPLAY_DIR / "_scratch_evidence"
    vc.jdump(ev, ev_dir / f"{pid}.json")

    for ln in lines:
        print(ln)
    for c in crashes:
        print(f"CHECKER-ERROR {pid}: {c[:1500]}")
    print(
        f"{pid} tier={tier} level={level} obligations={n_obl} discharged={len(discharged)} failed={len(failed)} undecided={len(undecided)} "
        f"bounded_evals={B.get('evaluations', 0) if B.get('present') else 0} bounded_violations={len(b_viol)} known={n_known} wall={ev['wall_s']}s exit={exitcode}"
    )
    return exitcode


if __name__ == "__main__":
    sys.exit(main())
