"""Re-run the target property's check against every stored seeded change (regression of the detection table).

usage: python3-vt lib/seedregress.py [--round 1|2|3|4|5|6|all] [--only C03,C09] [--jobs 3] [--out FILE]
Each seed: scratch worktree of /repo HEAD under /tmp, git apply seeded/<name>/patch.diff, VERIF_REPO=<wt> ./check <ID> --tier quick,
worktree removed.  Nothing under seeded/ is modified."""
import concurrent.futures as cf
import json
import subprocess
import sys
from pathlib import Path

ROOT = Path(__file__).resolve().parent.parent


def one(name):
    d = ROOT / "seeded" / name
    meta = json.load(open(d / "meta.json"))
    pid = meta.get("breaks_property") or name[:3]
    wt = f"/tmp/seedrg_{name}"
    subprocess.run(f"git -C /repo worktree remove --force {wt}", shell=True, capture_output=True)
    r = subprocess.run(f"git -C /repo worktree add -q {wt} HEAD && git -C {wt} apply {d / 'patch.diff'}", shell=True, capture_output=True, text=True)
    if r.returncode != 0:
        subprocess.run(f"git -C /repo worktree remove --force {wt}", shell=True, capture_output=True)
        return name, pid, "apply-failed", r.stderr[-200:]
    try:
        p = subprocess.run(f"cd {ROOT} && VERIF_REPO={wt} ./check {pid} --tier quick", shell=True, capture_output=True, text=True, timeout=2400)
        last = [ln for ln in p.stdout.splitlines() if ln.startswith(pid + " tier=")]
        return name, pid, p.returncode, (last[-1] if last else p.stdout[-200:])
    finally:
        subprocess.run(f"git -C /repo worktree remove --force {wt}", shell=True, capture_output=True)


def main():
    rnd, jobs, out, only = "all", 3, "/tmp/seedregress.json", None
    a = sys.argv[1:]
    for i, x in enumerate(a):
        if x == "--round":
            rnd = a[i + 1]
        if x == "--jobs":
            jobs = int(a[i + 1])
        if x == "--out":
            out = a[i + 1]
        if x == "--only":
            only = set(a[i + 1].split(","))
    names = sorted(p.name for p in (ROOT / "seeded").iterdir() if (p / "patch.diff").is_file())
    if rnd == "1":
        names = [n for n in names if "-r" not in n]
    elif rnd in ("2", "3", "4", "5", "6"):
        names = [n for n in names if f"-r{rnd}-" in n]
    if only:
        names = [n for n in names if n[:3] in only]
    res = {}
    with cf.ThreadPoolExecutor(jobs) as ex:
        for name, pid, rc, line in ex.map(one, names):
            res[name] = {"property": pid, "exit": rc, "line": line}
            print(name, rc, line[:160], flush=True)
    json.dump(res, open(out, "w"), indent=1)
    bad = [n for n, r in res.items() if r["exit"] != 1]
    print(f"{len(res) - len(bad)}/{len(res)} reported with exit 1; not: {bad}")


if __name__ == "__main__":
    main()
