"""Regenerate MANIFEST.json from lib/levels.json (per-property claim table). Run: python3-vt lib/gen_manifest.py"""
import json
from pathlib import Path

ROOT = Path(__file__).resolve().parent.parent
L = json.load(open(ROOT / "lib" / "levels.json"))
props = [json.loads(l) for l in open(ROOT / "properties.jsonl")]
checks, na = [], []
for p in props:
    pid = p["id"]
    e = L.get(pid)
    if not e or e.get("not_applicable"):
        na.append({"property_id": pid, "reason": (e or {}).get("not_applicable", "check not built yet (work in progress)")})
        continue
    checks.append({
        "property_id": pid,
        "quick_cmd": f"./check {pid} --tier quick",
        "thorough_cmd": f"./check {pid} --tier thorough",
        "evidence_file": f"/verif/evidence/{pid}.json",
        "replay_cmd_template": f"./check {pid} --replay {{path}}",
        "engine": "pyvc+rac",
        "level_claimed": {"category": "proof" if e.get("proof_complete") else "other", "text": e["text"], "design_ref": f"DESIGN.md section 4, {pid}"},
        "level_note": e["note"],
        "technique": e["technique"],
    })
m = {
    "version": 1,
    "setup_cmd": "sh ./setup.sh",
    "hooks": {
        "guard": "METADOR_CORE_VERIF",
        "enable": "none needed: all contracts are sidecars in /verif/specs and runtime contracts are attached by the harness process; no guarded source hooks exist in /repo",
        "baseline_off_cmd": "cd /repo && /venv/bin/python -m pytest -ra -q -p no:cacheprovider --timeout=900 --continue-on-collection-errors",
        "source_commits": [],
        "add_only": True,
    },
    "engines": [
        {"name": "pyvc", "path": "/verif/pyvc", "serves_properties": [c["property_id"] for c in checks], "kind_free_text": "self-written VC generator: symbolic execution of the real function ASTs (re-read from /repo on every run) against sidecar contracts, discharged by z3 5.1 with cvc5 fallback"},
        {"name": "rac", "path": "/verif/rac", "serves_properties": [c["property_id"] for c in checks], "kind_free_text": "bounded stand-in: the same contracts checked at run time on the real code under small-scope enumeration; never counted as proved"},
    ],
    "checks": checks,
    "not_applicable": na,
    "notes": "See DESIGN.md. Exit codes: 0 held, 1 violation (VIOLATION line), 2 undecided, 3 checker error.",
}
json.dump(m, open(ROOT / "MANIFEST.json", "w"), indent=1)
print(f"{len(checks)} checks, {len(na)} not_applicable")
