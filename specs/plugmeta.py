"""Contract for plugin/metaclass.py PluginMetaclassMixin.__new__ — C16 (a class obtained without a version cannot be subclassed)."""
from __future__ import annotations

import z3

from pyvc.api import A, FnSpec
from pyvc.containers import SObj
from pyvc.values import SBool, SStr, SVal, Unsupported, fresh_name

B = z3.BoolSort()


class Cls(SObj):
    """a class object in the bases tuple"""

    def __init__(self, name, marked, has_plugin):
        SObj.__init__(self, "BaseCls", name=name)
        self.marked, self.has_plugin = marked, has_plugin
        self.fields["__dict__"] = ClsDict(self)


class ClsDict(SVal):
    def __init__(self, c):
        self.c = c

    def meth_get(self, cx, k, default=None):
        if k != "Plugin":
            raise Unsupported("class dict lookup of " + repr(k))
        if cx.decide(self.c.has_plugin):
            p = SObj("PluginInfo", name=self.c.name + "_plugin")
            p.fields["name"] = SStr(z3.String(self.c.name + "_plugin_name"))
            return p
        return None


class UVStub(SObj):
    """UndefVersion itself"""

    def __init__(self):
        SObj.__init__(self, "UndefVersionCls", name="UndefVersion")

    def meth__is_marked(self, cx, c):
        if c is self:
            return False
        return SBool(c.marked)

    def meth__unwrap(self, cx, c):
        return "<original class>"


class Namespace(SVal):
    """the class body namespace `dct`: only the key "Plugin" matters here"""

    def __init__(self, has_plugin):
        self.has_plugin = has_plugin
        self.set_none = False

    def py_contains(self, cx, k):
        if k != "Plugin":
            raise Unsupported("namespace membership of " + repr(k))
        return True if self.set_none else self.has_plugin

    def py_setitem(self, cx, k, v):
        if k != "Plugin" or v is not None:
            raise Unsupported("namespace write other than Plugin = None")
        self.set_none = True
        cx.effect("plugin-set-none")


class MetaNew(FnSpec):
    file = "plugin/metaclass.py"
    qual = "PluginMetaclassMixin.__new__"
    props = ("C16",)

    def setup(self, cx):
        uv = UVStub()
        self.bindings["UndefVersion"] = uv
        shape = cx.choose(3)
        mk = lambda n: Cls(n, z3.Bool(n + "_is_marked_versionless"), z3.Bool(n + "_defines_Plugin"))  # noqa: E731
        if shape == 0:
            bases = (mk("b0"),)
        elif shape == 1:
            bases = (uv, mk("b1"))  # how the plugin group itself builds the marked copy of a class
        else:
            bases = (mk("b0"), mk("b1"))
        dct = Namespace(z3.Bool("body_defines_Plugin"))
        a = A(cls=SObj("Meta", name="cls"), name="N", bases=bases, dct=dct)
        a.uv, a.shape = uv, shape
        ret = SObj("NewCls", name="ret")
        cx.ghost["meta_new"] = (a, ret)
        return a

    def _marked(self, a):
        return z3.Or(*[b.marked for b in a.bases if b is not a.uv])

    def raises(self, cx, a):
        return {"TypeError": self._marked(a)}

    def ensures(self, cx, a, res):
        _, ret = cx.ghost["meta_new"]
        calls = [e for e in cx.fx if e[0] == "type-new"]
        ok = len(calls) == 1 and res is ret
        want = tuple(b for b in a.bases if b is not a.uv)
        out = [
            ("never-from-a-versionless-class", z3.Not(self._marked(a)), "a plugin class obtained without stating a version cannot be subclassed — whatever the subclass body defines"),
            ("class-built-without-the-marker-base", z3.BoolVal(ok and calls[0][2] == want and calls[0][1] == a.name and calls[0][3] is a.dct), "the class is built by the parent metaclass from the bases without the marker"),
            ("plugin-section-not-inherited", z3.BoolVal(a.dct.set_none) == z3.Not(a.dct.has_plugin), "the inner Plugin section is never inherited: it is set to None unless the body defines one"),
            ("marker-restored-iff-hidden", z3.BoolVal((ret.fields.get("__bases__") == (a.uv,) + want) == (a.shape == 1) and (a.shape == 1 or ret.fields.get("__bases__") == want)), "the marker base is put back exactly when it was hidden"),
        ]
        return out


def type_new(cx, obj, cls, name, bases, dct):
    a, ret = cx.ghost["meta_new"]
    cx.effect("type-new", name, tuple(bases), dct)
    ret.fields["__bases__"] = tuple(bases)
    return ret


def add_plugmeta(reg):
    reg.method_bindings[("PluginMetaclassMixin", "super.__new__")] = type_new
    reg.method_bindings[("UndefVersionCls", "_is_marked")] = lambda cx, uv, c: uv.meth__is_marked(cx, c)
    reg.method_bindings[("UndefVersionCls", "_unwrap")] = lambda cx, uv, c: uv.meth__unwrap(cx, c)
    s = MetaNew()
    reg.add(s)
    return [s]
