"""Contract for IH5Record.find_files — C03, C01, C02 (which container files belong to a record name)."""
from __future__ import annotations

import z3

from pyvc import regex as RX
from pyvc.api import A, FnSpec, filter_comprehension
from pyvc.containers import SSeq
from pyvc.engine import SClass
from pyvc.values import SMaybe, SStr, SVal, Unsupported, fresh_name

S, B, I = z3.StringSort(), z3.BoolSort(), z3.IntSort()
BASENAME = z3.Function("path_basename", S, S)
DIRNAME = z3.Function("path_parent", S, S)
DIRENT = z3.Function("directory_has_entry", S, S, B)  # (directory, full path of the entry)
GIDX = z3.Function("glob_position_of", S, I)

T_FIND = [
    "T2 pathlib: Path(p).name / .parent are the last component / the rest; parent.glob(NAME + '*' + EXT), for a NAME without glob metacharacters, lists without repetition exactly the entries of the directory whose name starts with NAME and ends with EXT",
    "regular-expression fragments are matched as in pyvc.regex (literals, classes, ranges, repetition, anchors at the ends); a record name that passed the validity check contains no metacharacter, so inside a pattern it matches literally",
]


class TFPath:
    def sort(self):
        return S

    def wrap(self, t):
        return FPath(t)

    def unwrap(self, cx, v):
        if isinstance(v, FPath):
            return v.t
        raise Unsupported("not a path")


class FPath(SVal):
    def __init__(self, t):
        self.t = t

    def py_truth(self, cx):
        return True

    def py_getattr(self, cx, name):
        if name == "name":
            return SStr(BASENAME(self.t))
        if name == "parent":
            return FPath(DIRNAME(self.t))
        raise Unsupported("Path." + name)

    def meth_glob(self, cx, pat):
        a = cx.ghost["ff"]
        # the glob pattern must be NAME*EXT (checked structurally against the term the code built)
        want = z3.Concat(a.name_t, z3.StringVal("*"), z3.StringVal(a.ext))
        if not z3.eq(z3.simplify(pat.t), z3.simplify(want)):
            raise Unsupported("glob pattern is not NAME + '*' + EXT")
        G = SSeq.fresh(TFPath(), "globbed")
        i, j = z3.Int(fresh_name("gi")), z3.Int(fresh_name("gj"))
        f = z3.String(fresh_name("gf"))
        gm = lambda b: z3.And(z3.PrefixOf(a.name_t, b), z3.SuffixOf(z3.StringVal(a.ext), b), z3.Length(b) >= z3.Length(a.name_t) + len(a.ext))  # noqa: E731
        cx.assume(z3.ForAll([i], z3.Implies(z3.And(0 <= i, i < G.n), z3.And(DIRENT(self.t, G.at_term(i)), gm(BASENAME(G.at_term(i))), GIDX(G.at_term(i)) == i))))
        cx.assume(z3.ForAll([f], z3.Implies(z3.And(DIRENT(self.t, f), gm(BASENAME(f))), z3.And(0 <= GIDX(f), GIDX(f) < G.n, G.at_term(GIDX(f)) == f))))
        a.globbed, a.dir_t = G, self.t
        return G


def decompose(t):
    """Concat(...) of string constants and symbolic terms -> [("re", text) | ("lit", term)]"""
    def flat(x):
        if z3.is_app(x) and x.decl().kind() == z3.Z3_OP_SEQ_CONCAT:
            for c in x.children():
                yield from flat(c)
        else:
            yield x

    kids = list(flat(z3.simplify(t)))
    out = []
    for k in kids:
        if z3.is_string_value(k):
            out.append(("re", k.as_string()))
        else:
            out.append(("lit", k))
    return out


class Match(SVal):
    def py_truth(self, cx):
        return True


RE_ESCAPE = z3.Function("re_escape", z3.StringSort(), z3.StringSort())


class ReMod(SVal):
    def meth_escape(self, cx, s):
        if isinstance(s, str):
            import re

            return re.escape(s)
        return SStr(RE_ESCAPE(s.t))

    def meth_compile(self, cx, pat):
        mod = self

        class Compiled(SVal):
            def meth_match(self2, cx2, s):
                return mod.meth_match(cx2, pat, s)

        return Compiled()

    def meth_match(self, cx, pat, s):
        st = s.t if isinstance(s, SStr) else z3.StringVal(s)
        if isinstance(pat, str):
            return SMaybe(z3.Not(RX.match_prefix(pat, st)), Match())
        parts = decompose(pat.t)
        a = cx.ghost["ff"]
        # re.escape(name) inside a pattern matches exactly the text of name (T2 re): a literal part without any condition on its characters
        parts = [("lit*", x.arg(0)) if kind == "lit" and z3.is_app(x) and x.decl().name() == "re_escape" else (kind, x) for kind, x in parts]
        for i, (kind, x) in enumerate(parts):
            if kind == "lit*":
                if not z3.eq(x, a.name_t):
                    raise Unsupported(f"pattern contains a symbolic part other than the record name: {x} in {parts}")
                parts[i] = ("lit", x)
            elif kind == "lit":
                if not z3.eq(x, a.name_t):
                    raise Unsupported(f"pattern contains a symbolic part other than the record name: {x} in {parts}")
                # literal-safety of the name inside a pattern: an obligation, not an assumption
                cx.oblige("pattern-name-is-literal", "call-pre", z3.InRe(x, z3.Star(z3.Union(z3.Range("A", "Z"), z3.Range("a", "z"), z3.Range("0", "9"), z3.Re(z3.StringVal("-")), z3.Re(z3.StringVal("\n"))))), clause="the record name is put into a regular expression unescaped: it must not contain metacharacters (guaranteed by the validity check before)")
        return SMaybe(z3.Not(RX.match_prefix_parts(parts, st)), Match())


def class_consts():
    """_ALLOWED_NAME_CHARS and _FILE_EXT as written in the real class body"""
    import ast

    from pyvc.api import SRC

    tree = ast.parse(open(SRC / "ih5/record.py").read())
    out = {}
    for n in tree.body:
        if isinstance(n, ast.ClassDef) and n.name == "IH5Record":
            for st in n.body:
                if isinstance(st, ast.Assign) and isinstance(st.targets[0], ast.Name) and isinstance(st.value, ast.Constant):
                    out[st.targets[0].id] = st.value.value
    return out


ALLOWED = z3.Union(z3.Range("A", "Z"), z3.Range("a", "z"), z3.Range("0", "9"), z3.Re(z3.StringVal("-")))  # the documented record-name alphabet


class FindFiles(FnSpec):
    file = "ih5/record.py"
    qual = "IH5Record.find_files"
    props = ("C03", "C01", "C02")

    def init(self):
        self.bindings["re"] = ReMod()
        self.bindings["Path"] = lambda cx, p: p if isinstance(p, FPath) else FPath(p.t)
        self.inline |= {"IH5Record._is_valid_record_name"}
        self.comps[0] = filter_comprehension

    def setup(self, cx):
        rec = FPath(z3.String("record_path"))
        a = A(cls=SClass("IH5Record"), record=rec)
        a.name_t = BASENAME(rec.t)
        a.ext = class_consts().get("_FILE_EXT", ".ih5")
        cx.ghost["ff"] = a
        return a

    def valid(self, a):
        return z3.InRe(a.name_t, z3.Plus(ALLOWED))

    raises_exact = False  # names outside the documented alphabet are outside the statement (the code's `$` also lets a trailing newline pass)

    def raises(self, cx, a):
        return {"ValueError": z3.Not(self.valid(a))}

    def ensures(self, cx, a, res):
        if not isinstance(res, SSeq):
            return [("returns-a-list", z3.BoolVal(False), "list of paths")]
        j = z3.Int(fresh_name("fj"))
        f = z3.String(fresh_name("ff"))
        rest = z3.String(fresh_name("fr"))
        ext = z3.StringVal(a.ext)
        b = BASENAME(res.at_term(j))
        nxt = z3.SubString(b, z3.Length(a.name_t), 1)
        d = DIRNAME(a.record.t)
        bf = BASENAME(f)
        own = z3.And(DIRENT(d, f), z3.PrefixOf(a.name_t, bf), z3.SubString(bf, z3.Length(a.name_t), 1) == z3.StringVal("."), z3.SuffixOf(ext, bf), z3.Length(bf) >= z3.Length(a.name_t) + len(a.ext))
        k = z3.Int(fresh_name("fk"))
        flt = [x for x in cx.ghost.get("filters", []) if x[0] is res]
        wit = flt[0][3](GIDX(f)) if flt else None  # position of f in the result (the filter schema's embedding)
        return [
            ("only-files-of-this-record", z3.ForAll([j], z3.Implies(z3.And(0 <= j, j < res.n), z3.And(DIRENT(d, res.at_term(j)), z3.PrefixOf(a.name_t, b), z3.SuffixOf(ext, b), z3.Not(z3.InRe(nxt, ALLOWED))))), "only entries of the record's directory named NAME<non-name-character>...<EXT>: never a container of a record whose name merely extends NAME (foo vs foo2, foo-bar)"),
            ("all-files-of-this-record", z3.ForAll([f], z3.Implies(own, z3.And(0 <= wit, wit < res.n, res.at_term(wit) == f))) if wit is not None else z3.ForAll([f], z3.Implies(own, z3.Exists([k], z3.And(0 <= k, k < res.n, res.at_term(k) == f)))), "EVERY container the library creates for the record — NAME.ih5 and NAME.p<any number of digits>.ih5, in general NAME.<anything>.ih5 — is found (reopening by name sees the whole chain, however long)"),
        ]


def add_findfiles(reg):
    if reg.class_homes.get("IH5Record") is None:
        reg.set_class_home("IH5Record", "ih5/record.py")
    s = FindFiles()
    reg.add(s)
    return [s]
