"""Contracts for the schema/package reference counting of a container TOC — C06, C20.

TOCPackages._add_providers / _register / _unregister and TOCSchemas._register / _unregister
(container/interface.py).  The raw container is a call-logging stub (T1): what is proved is that every
in-memory change is paired with the corresponding raw write/delete, and that the in-memory bookkeeping
keeps its invariant (PkgInv below, together with the index invariant of specs/toc.py).
"""
from __future__ import annotations

import z3

from pyvc.api import A, ContractStale, FnSpec, LoopSpec
from pyvc.containers import INT, STR, ClassDecl, SMap, SObj, SRef, SSeq, SSet, TRef, TSetT, TTuple
from pyvc.engine import SClass
from pyvc.values import SBool, SInt, SStr, STuple, SVal, Unsupported, fresh_name

from . import toc
from .toc import RT, Ref

VER = TTuple(INT, INT, INT)
PD = TTuple(STR, VER)  # PythonDep = (package name, version)
PDs = PD.sort()
Info = Ref  # all object references share one sort (TRef)
ClassDecl("PkgInfo", {})
IT = TRef("PkgInfo")
B = z3.BoolSort()
PL = z3.Function("schemas_listed_by_pkginfo", Info, z3.ArraySort(Ref, B))  # info.plugins["schema"] as a set
PKGPATH = z3.Function("pkginfo_path", PDs, z3.StringSort())
INFO_BYTES = z3.Function("bytes_of_pkginfo", Info, z3.StringSort())

T_TOCREG = [
    "raw container (h5py / IH5 node protocol) is a call-logging stub here: `raw[p] = v`, `del raw[p]`, `require_group(p).keys()`; that a delete removes the whole subtree and a write creates missing parents is T1",
    "a PluginPkgMeta lists each schema at most once (its plugin list is iterated as a set)",
    "the TOC group of package records / schema records has a child exactly per key of the in-memory table (coupling of raw state and memory, established by __init__ and maintained by the paired effects proved here)",
]


def _iname():
    return z3.Const(fresh_name("inf"), Info)


class RawStub(SVal):
    """the raw container: logs writes and deletes; emptiness of a bookkeeping group is read off the coupled in-memory table"""

    def __init__(self, empty_of):
        self.empty_of = empty_of  # path constant name -> callable(cx) -> z3 Bool "group has no children"

    def py_setitem(self, cx, k, v):
        cx.effect("raw-set", k, v)

    def py_delitem(self, cx, k):
        cx.effect("raw-del", k)

    def meth_require_group(self, cx, path):
        return GroupStub(self, path)

    def py_truth(self, cx):
        return True


class GroupStub(SVal):
    def __init__(self, raw, path):
        self.raw, self.path = raw, path

    def meth_keys(self, cx):
        return KeysStub(self)


class KeysStub(SVal):
    def __init__(self, g):
        self.g = g

    def py_truth(self, cx):
        f = self.g.raw.empty_of.get(self.g.path)
        if f is None:
            raise Unsupported(f"emptiness of group {self.g.path!r}")
        return z3.Not(f(cx))

    def py_len(self, cx):
        raise Unsupported("len of raw keys")


class PluginsStub(SVal):
    def __init__(self, info_t):
        self.info_t = info_t

    def py_getitem(self, cx, k):
        return SSet(RT, PL(self.info_t))


def pkgs_obj(cx, name="pkgs"):
    o = SObj("TOCPackages", name=name)
    o.fields["_pkginfos"] = SMap.fresh(PD, IT, "pkginfos")
    o.fields["_providers"] = SMap.fresh(RT, TSetT(PD), "providers")
    o.fields["_raw"] = RawStub({PKGS_PATH: lambda cx: is_empty_map(o.fields["_pkginfos"])})
    return o


PKGS_PATH = "<METADOR_PACKAGES_PATH>"
SCHEMAS_PATH = "<METADOR_SCHEMAS_PATH>"


class MStub(SVal):
    def py_getattr(self, cx, name):
        return {"METADOR_PACKAGES_PATH": PKGS_PATH, "METADOR_SCHEMAS_PATH": SCHEMAS_PATH, "METADOR_LINKS_PATH": "<METADOR_LINKS_PATH>"}[name]


def is_empty_map(m):
    k = z3.Const(fresh_name("ek"), m.kt.sort())
    return z3.Not(z3.Exists([k], m.has(k)))


def member(P, s, p):
    """p is in the set stored under key s of the map P (absent key = no members)"""
    return z3.And(P.has(s), z3.Select(P.get_term(s), p))


def providers_inverse_of_infos(pk, tag="pi"):
    """_providers is exactly the inverse of the plugin lists of the stored package infos, without empty entries"""
    P, I = pk.fields["_providers"], pk.fields["_pkginfos"]
    s = z3.Const(fresh_name(tag + "s"), Ref)
    p = z3.Const(fresh_name(tag + "p"), PDs)
    return z3.ForAll([s, p], z3.And(P.has(s), z3.Select(P.get_term(s), p)) == z3.And(I.has(p), z3.Select(PL(I.get_term(p)), s)))


def providers_no_empty(pk, tag="pe"):
    P = pk.fields["_providers"]
    s = z3.Const(fresh_name(tag + "s"), Ref)
    p = z3.Const(fresh_name(tag + "p"), PDs)
    wit = z3.Function(fresh_name("some_provider"), Ref, PDs)
    return z3.ForAll([s], z3.Implies(P.has(s), z3.Select(P.get_term(s), wit(s))))


class AddProviders(FnSpec):
    file = "container/interface.py"
    qual = "TOCPackages._add_providers"
    props = ("C06", "C20")

    def init(self):
        self.bindings["schemas"] = SchemasName()

        def inv(cx, env, it):
            a = cx.ghost["ap"]
            P, P0 = a.self.fields["_providers"], a.prov0
            s = z3.Const(fresh_name("ls"), Ref)
            p = z3.Const(fresh_name("lp"), PDs)
            pkg = PD.unwrap(cx, a.pkg)
            return [("processed-get-the-package-others-unchanged", z3.ForAll([s, p], z3.And(member(P, s, p) == z3.Or(z3.And(z3.Select(it.processed, s), p == pkg), member(P0, s, p)), P.has(s) == z3.Or(P0.has(s), z3.Select(it.processed, s)))))]

        self.loops[0] = LoopSpec(inv, modifies=["schema_ref"], havoc_inplace=["self._providers"])

    def setup(self, cx):
        pk = pkgs_obj(cx, "self")
        pkg = STuple((SStr(z3.String("pkg_name")), VER.wrap(z3.Const("pkg_ver", VER.sort()))))
        info = SRef("PkgInfo", z3.Const("info", Info))
        a = A(self=pk, pkg=pkg, pkginfo=info)
        a.prov0 = pk.fields["_providers"].snapshot()
        cx.ghost["ap"] = a
        return a

    def post(self, cx, a, P, P0):
        s = z3.Const(fresh_name("es"), Ref)
        p = z3.Const(fresh_name("ep"), PDs)
        pkg = PD.unwrap(cx, a.pkg)
        listed = z3.Select(PL(a.pkginfo.t), s)
        return z3.ForAll([s, p], z3.And(P.has(s) == z3.Or(P0.has(s), listed), member(P, s, p) == z3.Or(z3.And(listed, p == pkg), member(P0, s, p))))

    def effects(self, cx, a):
        a.prov0 = a.self.fields["_providers"].snapshot()
        a.self.fields["_providers"].havoc_inplace(cx, "providers_after_add")

    def ensures(self, cx, a, res):
        return [("package-added-as-provider-of-each-listed-schema", self.post(cx, a, a.self.fields["_providers"], a.prov0), "the schema -> providing packages table gains exactly this package for exactly the schemas its info lists")]


class SchemasName(SVal):
    def py_getattr(self, cx, name):
        if name == "name":
            return "schema"
        raise Unsupported("schemas." + name)


EPN = z3.Function("ep_name", z3.StringSort(), VER.sort(), z3.StringSort())  # plugin.types.to_ep_name (injective; C16 codec)


def to_ep_name(cx, name, ver):
    return SStr(EPN(name.t if isinstance(name, SStr) else z3.StringVal(name), VER.unwrap(cx, ver)))


def pkg_path(cx, pkg):
    return z3.Concat(z3.StringVal(PKGS_PATH), z3.StringVal("/"), EPN(pkg.items[0].t, VER.unwrap(cx, pkg.items[1])))


def same_str(v, t):
    return (v.t == t) if isinstance(v, SStr) else (z3.StringVal(v) == t if isinstance(v, str) else z3.BoolVal(False))


class InfoBytes(SVal):
    def __init__(self, t):
        self.t = t


class PkgKeyed(FnSpec):
    """callee side: the package key may arrive as a python tuple of symbolic parts"""

    def bind_call(self, interp, cx, f, args, kwargs):
        a = FnSpec.bind_call(self, interp, cx, f, args, kwargs)
        if isinstance(a.pkg, tuple):
            a.pkg = STuple(tuple(a.pkg))
        if isinstance(a.pkg, STuple) and isinstance(a.pkg.items[1], tuple):
            a.pkg = STuple((a.pkg.items[0], STuple(a.pkg.items[1])))
        return a


def common_pkg_bindings(spec):
    spec.bindings["schemas"] = SchemasName()
    spec.bindings["M"] = MStub()
    spec.bindings["to_ep_name"] = to_ep_name
    spec.bindings["bytes"] = lambda cx, o: InfoBytes(o.t)
    spec.inline.add("TOCPackages._pkginfo_path_for")


class PkgRegister(PkgKeyed):
    file = "container/interface.py"
    qual = "TOCPackages._register"
    props = ("C06", "C20")

    def init(self):
        common_pkg_bindings(self)

    def setup(self, cx):
        pk = pkgs_obj(cx, "self")
        pkg = STuple((SStr(z3.String("pkg_name")), VER.wrap(z3.Const("pkg_ver", VER.sort()))))
        info = SRef("PkgInfo", z3.Const("info", Info))
        a = A(self=pk, pkg=pkg, info=info)
        a.prov0, a.infos0 = pk.fields["_providers"].snapshot(), pk.fields["_pkginfos"].snapshot()
        return a

    def effects(self, cx, a):
        a.prov0, a.infos0 = a.self.fields["_providers"].snapshot(), a.self.fields["_pkginfos"].snapshot()
        a.fx0 = len(cx.fx)
        cx.effect("raw-set", SStr(pkg_path(cx, a.pkg)), InfoBytes(a.info.t))
        a.self.fields["_providers"].havoc_inplace(cx, "providers_after_reg")
        a.self.fields["_pkginfos"].havoc_inplace(cx, "pkginfos_after_reg")

    def ensures(self, cx, a, res):
        pk = a.self
        P, I = pk.fields["_providers"], pk.fields["_pkginfos"]
        s = z3.Const(fresh_name("es"), Ref)
        p = z3.Const(fresh_name("ep"), PDs)
        pkg = PD.unwrap(cx, a.pkg)
        listed = z3.Select(PL(a.info.t), s)
        fx = cx.fx[getattr(a, "fx0", 0):]
        wrote = len(fx) == 1 and fx[0][0] == "raw-set" and isinstance(fx[0][2], InfoBytes)
        return [
            ("record-written", z3.And(z3.BoolVal(wrote), same_str(fx[0][1], pkg_path(cx, a.pkg)) if wrote else False, (fx[0][2].t == a.info.t) if wrote else False), "exactly one raw write: the package record <packages>/<name__version> = bytes(info)"),
            ("info-stored", z3.ForAll([p], z3.And(I.has(p) == z3.Or(a.infos0.has(p), p == pkg), I.get_term(p) == z3.If(p == pkg, a.info.t, a.infos0.get_term(p)))), "the in-memory table gains exactly this package"),
            ("providers-updated", z3.ForAll([s, p], z3.And(P.has(s) == z3.Or(a.prov0.has(s), listed), member(P, s, p) == z3.Or(z3.And(listed, p == pkg), member(a.prov0, s, p)))), "the schema -> providers table gains exactly this package for the schemas its info lists"),
        ]


class PkgUnregister(PkgKeyed):
    file = "container/interface.py"
    qual = "TOCPackages._unregister"
    props = ("C06", "C20")

    def init(self):
        common_pkg_bindings(self)

        def inv(cx, env, it):
            a = cx.ghost["pu"]
            P, P0 = a.self.fields["_providers"], a.prov0
            s = z3.Const(fresh_name("ls"), Ref)
            p, q = z3.Const(fresh_name("lp"), PDs), z3.Const(fresh_name("lq"), PDs)
            pkg = PD.unwrap(cx, a.pkg)
            return [
                ("processed-lose-the-package-others-unchanged", z3.ForAll([s, p], member(P, s, p) == z3.And(member(P0, s, p), z3.Not(z3.And(z3.Select(it.processed, s), p == pkg))))),
                ("entries-dropped-exactly-when-emptied", z3.ForAll([s], P.has(s) == z3.And(P0.has(s), z3.Or(z3.Not(z3.Select(it.processed, s)), z3.Exists([q], z3.And(member(P0, s, q), q != pkg)))))),
                ("pkginfos-fixed", a.self.fields["_pkginfos"].same(cx, a.infos1)),
            ]

        self.loops[0] = LoopSpec(inv, modifies=["schema_ref", "providers"], havoc_inplace=["self._providers"])

    def setup(self, cx):
        pk = pkgs_obj(cx, "self")
        pkg = STuple((SStr(z3.String("pkg_name")), VER.wrap(z3.Const("pkg_ver", VER.sort()))))
        a = A(self=pk, pkg=pkg)
        self.snap(cx, a)
        cx.ghost["pu"] = a
        return a

    def snap(self, cx, a):
        pk = a.self
        a.prov0, a.infos0 = pk.fields["_providers"].snapshot(), pk.fields["_pkginfos"].snapshot()
        pkg = PD.unwrap(cx, a.pkg)
        # table after the pop (what the loop must keep fixed)
        a.infos1 = SMap(PD, IT, name="infos1")
        a.infos1.dom, a.infos1.val = z3.Store(a.infos0.dom, pkg, False), a.infos0.val

    def requires(self, cx, a):
        pkg = PD.unwrap(cx, a.pkg)
        return [("package-is-stored", a.self.fields["_pkginfos"].has(pkg)), ("providers-is-inverse-of-infos", providers_inverse_of_infos(a.self))]

    def effects(self, cx, a):
        self.snap(cx, a)
        a.fx0 = len(cx.fx)
        pkg = PD.unwrap(cx, a.pkg)
        cx.effect("raw-del", SStr(pkg_path(cx, a.pkg)))
        a.self.fields["_providers"].havoc_inplace(cx, "providers_after_unreg")
        I = a.self.fields["_pkginfos"]
        I.dom, I.val = a.infos1.dom, a.infos1.val
        if cx.decide(is_empty_map(I)):
            cx.effect("raw-del", PKGS_PATH)

    def ensures(self, cx, a, res):
        pk = a.self
        P, I = pk.fields["_providers"], pk.fields["_pkginfos"]
        P0 = a.prov0
        s = z3.Const(fresh_name("es"), Ref)
        p, q = z3.Const(fresh_name("ep"), PDs), z3.Const(fresh_name("eq"), PDs)
        pkg = PD.unwrap(cx, a.pkg)
        info0 = a.infos0.get_term(pkg)
        listed = z3.Select(PL(info0), s)
        fx = cx.fx[getattr(a, "fx0", 0):]
        first = len(fx) >= 1 and fx[0][0] == "raw-del"
        group_removed = len(fx) == 2 and fx[1][0] == "raw-del" and fx[1][1] == PKGS_PATH
        return [
            ("record-deleted", z3.And(z3.BoolVal(first and len(fx) <= 2), same_str(fx[0][1], pkg_path(cx, a.pkg)) if first else False), "the package record is deleted from the raw container"),
            ("info-dropped", z3.ForAll([p], z3.And(I.has(p) == z3.And(a.infos0.has(p), p != pkg), z3.Implies(p != pkg, I.get_term(p) == a.infos0.get_term(p)))), "the in-memory table loses exactly this package"),
            ("providers-updated", z3.ForAll([s, p], member(P, s, p) == z3.And(member(P0, s, p), z3.Not(z3.And(listed, p == pkg)))), "the package is no longer a provider of any schema; other providers are untouched"),
            ("no-empty-provider-entries", z3.ForAll([s], P.has(s) == z3.And(P0.has(s), z3.Or(z3.Not(listed), z3.Exists([q], z3.And(member(P0, s, q), q != pkg))))), "a schema whose last provider went away has no entry left"),
            ("providers-still-inverse-of-infos", providers_inverse_of_infos(pk), "the providers table stays the exact inverse of the stored package infos"),
            ("empty-packages-group-removed", z3.BoolVal(group_removed) == is_empty_map(I), "no empty bookkeeping group is left behind: the packages group is deleted exactly when the last package record went away"),
        ]


# ---- TOCSchemas._register / _unregister ---------------------------------------------------------------

S_ = z3.StringSort()
REF_NAME = z3.Function("pluginref_name", Ref, S_)
REF_VER = z3.Function("pluginref_version", Ref, VER.sort())
SCHEMA_JSON = z3.Function("schema_json_of_installed_class", Ref, S_)  # schemas.get(name, version).schema_json()
CLS_REF = z3.Function("ref_of_installed_class_for", Ref, Ref)  # schemas.get(name, version).Plugin.ref()
ENV_INFO = z3.Function("provider_info_in_environment", Ref, Ref)  # schemas.provider(ref)
INFO_NAME = z3.Function("pkginfo_name", Ref, S_)
INFO_VER = z3.Function("pkginfo_version", Ref, VER.sort())
PROVW = z3.Function("tracking_provider_witness_before", Ref, PDs)
USEW = z3.Function("used_schema_witness_before", PDs, Ref)

T_PLUGINSYS = [
    "plugin system: schemas.get(name, version) is the installed class, its schema_json() the JSON Schema, schemas.parent_path(name, version) the parent chain (the values the embedded records must equal, C20); schemas.provider(ref) returns the info of an installed package that lists ref",
    "the schema ref handed to TOCSchemas._register is the ref of the installed class itself (it comes from the class used to attach the object)",
    "a package record stored in the container under the same (name, version) as an installed package has the same plugin list (otherwise re-registering it would reset its use set)",
]


def PROVW_R(P0, r):
    """some member of P0[r] (choice function on non-empty sets of package keys)"""
    ch = z3.Function("choose_pkg", z3.ArraySort(PDs, B), PDs)
    return ch(P0.get_term(r))


def env_key(r):
    return PD.mk(INFO_NAME(ENV_INFO(r)), INFO_VER(ENV_INFO(r)))


def schema_path(r):
    return z3.Concat(z3.StringVal(SCHEMAS_PATH), z3.StringVal("/"), EPN(REF_NAME(r), REF_VER(r)))


class EncodedVal(SVal):
    def __init__(self, what, t):
        self.what, self.t = what, t


class TextVal(SVal):
    def __init__(self, what, t):
        self.what, self.t = what, t

    def meth_encode(self, cx, enc="utf-8"):
        if enc != "utf-8":
            raise Unsupported("other encoding")
        return EncodedVal(self.what, self.t)


class InstalledCls(SVal):
    def __init__(self, r):
        self.r = r

    def meth_schema_json(self, cx):
        return TextVal("schema_json", SCHEMA_JSON(self.r))

    def py_getattr(self, cx, name):
        if name == "Plugin":
            return PluginInner(self.r)
        raise Unsupported("class attribute " + name)


class PluginInner(SVal):
    def __init__(self, r):
        self.r = r

    def meth_ref(self, cx):
        return SRef("SchemaRef", CLS_REF(self.r))


def ref_of(cx, name, ver):
    """the PluginRef with this name and version (refs are values: determined by name and version, C16)"""
    r = z3.Const(fresh_name("ref"), Ref)
    cx.assume(z3.And(REF_NAME(r) == name.t, REF_VER(r) == VER.unwrap(cx, ver)))
    return r


class SchemasGroup(SVal):
    """the installed schema plugin group, as far as _register uses it"""

    def __init__(self, r):
        self.r = r  # lookups by (r.name, r.version) denote r itself (refs are determined by name and version)

    def _check(self, cx, name, ver):
        ok = isinstance(name, SStr) and z3.eq(name.t, REF_NAME(self.r)) and isinstance(ver, STuple) and len(ver.items) == 3 and all(z3.eq(z3.simplify(it.t), z3.simplify(acc(REF_VER(self.r)))) for it, acc in zip(ver.items, VER.acc))
        if not ok:
            raise Unsupported("plugin group lookup with something else than the name and version of the schema ref")

    def meth_get(self, cx, name, ver=None):
        self._check(cx, name, ver)
        return InstalledCls(self.r)

    def meth_parent_path(self, cx, name, ver=None):
        self._check(cx, name, ver)
        return SSeq(RT, toc.PP(self.r))

    def meth_provider(self, cx, ref):
        if getattr(self, "lookups_may_fail", False) and cx.choose(2) == 1:
            # a schema registered without an entry point (notebook style) has no provider: the lookup raises
            cx.py_raise("AttributeError", "no provider")
        return SRef("PkgInfo", ENV_INFO(ref.t))

    def py_getattr(self, cx, name):
        if name == "name":
            return "schema"
        raise Unsupported("schemas." + name)


class MappedSeq(SVal):
    def __init__(self, what, seq):
        self.what, self.seq = what, seq


def bind_map(cx, f, seq):
    import ast

    node = getattr(f, "node", None)
    if not (isinstance(node, ast.Lambda) and ast.unparse(node.body) == f"{node.args.args[0].arg}.dict()" and isinstance(seq, SSeq)):
        raise Unsupported("map() with another function than `lambda x: x.dict()` over the parent path")
    return MappedSeq("dict-of-each", seq)


def bind_list(cx, v):
    if isinstance(v, MappedSeq):
        return v
    raise Unsupported("list() of this value")


class JsonStub(SVal):
    def meth_dumps(self, cx, v):
        if not isinstance(v, MappedSeq):
            raise Unsupported("json.dumps of this value")
        return TextVal("json-of-ref-dicts", v.seq.t)


def schemas_obj(cx):
    o = toc.toc_obj(cx)
    o.fields["_used"] = SMap.fresh(PD, TSetT(RT), "used")
    pk = pkgs_obj(cx, "pkgs")
    o.fields["_pkgs"] = pk
    raw = RawStub({SCHEMAS_PATH: lambda cx2: is_empty_set(o.fields["_schemas"]), PKGS_PATH: lambda cx2: is_empty_map(pk.fields["_pkginfos"])})
    o.fields["_raw"] = raw
    pk.fields["_raw"] = raw
    return o


def is_empty_set(st):
    k = z3.Const(fresh_name("ek"), st.kt.sort())
    return z3.Not(z3.Exists([k], st.has(k)))


def kinv(o, tag, entry, use_wit=None, prov_wit=None):
    """bookkeeping invariant of schemas-in-use vs stored packages; entry=True: skolemised with global witnesses (usable as hypothesis and as call-site goal), else with Exists"""
    S, U = o.fields["_schemas"], o.fields["_used"]
    pk = o.fields["_pkgs"]
    P, I = pk.fields["_providers"], pk.fields["_pkginfos"]
    s = z3.Const(fresh_name(tag + "s"), Ref)
    p = z3.Const(fresh_name(tag + "p"), PDs)
    if entry or use_wit is not None:
        pw = prov_wit or (lambda x: PROVW(x))
        uw = use_wit or (lambda x: USEW(x))
        tracked = z3.ForAll([s], z3.Implies(S.has(s), z3.And(member(P, s, pw(s)), z3.Select(U.get_term(pw(s)), s))))
        nonempty = z3.ForAll([p], z3.Implies(I.has(p), z3.Select(U.get_term(p), uw(p))))
    else:
        q = z3.Const(fresh_name(tag + "q"), PDs)
        s2 = z3.Const(fresh_name(tag + "t"), Ref)
        tracked = z3.ForAll([s], z3.Implies(S.has(s), z3.Exists([q], z3.And(member(P, s, q), z3.Select(U.get_term(q), s)))))
        nonempty = z3.ForAll([p], z3.Implies(I.has(p), z3.Exists([s2], z3.Select(U.get_term(p), s2))))
    return [
        ("providers-inverse-of-stored-package-infos", providers_inverse_of_infos(pk, tag)),
        ("every-used-schema-has-a-stored-provider-tracking-it", tracked),
        ("use-sets-hold-only-used-schemas-the-package-lists", z3.ForAll([p, s], z3.Implies(z3.And(I.has(p), z3.Select(U.get_term(p), s)), z3.And(S.has(s), z3.Select(PL(I.get_term(p)), s))))),
        ("every-stored-package-is-used", nonempty),
        ("every-stored-package-has-a-use-set", z3.ForAll([p], z3.Implies(I.has(p), U.has(p)))),
    ]


CL_SYNC = "schema and package records exist exactly for the schemas in use"


class SchemaRegister(FnSpec):
    file = "container/interface.py"
    qual = "TOCSchemas._register"
    props = ("C06", "C20")

    def init(self):
        self.bindings["M"] = MStub()
        self.bindings["to_ep_name"] = to_ep_name
        self.bindings["map"] = bind_map
        self.bindings["list"] = bind_list
        self.bindings["json"] = JsonStub()
        self.inline |= {"TOCSchemas._jsonschema_path_for", "TOCSchemas._schema_path_for", "TOCPackages._pkginfo_path_for"}

        def inv(cx, env, it):
            a = cx.ghost["sr"]
            if a.used1 is None:  # first evaluation = loop entry (before the havoc)
                a.used1 = a.self.fields["_used"].snapshot()
            U, U1 = a.self.fields["_used"], a.used1
            p = z3.Const(fresh_name("lp"), PDs)
            s = z3.Const(fresh_name("ls"), Ref)
            r = a.schema_ref.t
            return [
                ("processed-packages-track-the-schema", z3.ForAll([p, s], z3.And(U.has(p) == U1.has(p), z3.Select(U.get_term(p), s) == z3.Or(z3.Select(U1.get_term(p), s), z3.And(z3.Select(it.processed, p), s == r))))),
            ]

        self.loops[0] = LoopSpec(inv, modifies=["pkg"], havoc_inplace=["self._used"])

    def setup(self, cx):
        for ax in toc.path_axioms():
            cx.assume(ax)
        o = schemas_obj(cx)
        r = SRef("SchemaRef", z3.Const("schema_ref", Ref))
        self.bindings["schemas"] = SchemasGroup(r.t)
        self.bindings["schemas"].lookups_may_fail = True
        a = A(self=o, schema_ref=r)
        pk = o.fields["_pkgs"]
        a.S0, a.U0, a.P0, a.I0 = o.fields["_schemas"].snapshot(), o.fields["_used"].snapshot(), pk.fields["_providers"].snapshot(), pk.fields["_pkginfos"].snapshot()
        a.par0, a.chi0 = o.fields["_parents"].snapshot(), o.fields["_children"].snapshot()
        a.used1 = None
        cx.ghost["sr"] = a
        # plugin-system facts (trusted, listed in the evidence)
        rt = r.t
        cx.assume(CLS_REF(rt) == rt)
        cx.assume(z3.Select(PL(ENV_INFO(rt)), rt))
        cx.assume(z3.Implies(a.I0.has(env_key(rt)), a.I0.get_term(env_key(rt)) == ENV_INFO(rt)))
        # definitional: the choice function picks a member of a non-empty set
        pp = z3.Const(fresh_name("chp"), PDs)
        cx.assume(z3.Implies(z3.Exists([pp], member(a.P0, rt, pp)), member(a.P0, rt, PROVW_R(a.P0, rt))))
        return a

    def requires(self, cx, a):
        o = a.self
        S = o.fields["_schemas"]
        return [(n, g) for n, g in toc.index_inv(lambda x: S.has(x), o.fields["_parents"], o.fields["_children"], "pre", toc.W0)] + kinv(o, "k0", True)

    raises_exact = False  # when the plugin system's lookups fail is theirs to say

    def raises(self, cx, a):
        return {"AttributeError": z3.BoolVal(True)}

    def on_raise(self, cx, a, exc):
        # a failing lookup (no provider for the schema, package name that cannot be stored) must leave NOTHING half-registered: a schema record
        # without a package record makes every later open of the container fail
        o = a.self
        pk = o.fields["_pkgs"]
        return [
            ("refused-before-anything-is-written", z3.BoolVal(not [e for e in cx.fx if e[0] == "raw-set"]), "a registration that fails writes nothing into the container"),
            ("refused-without-touching-the-index", z3.And(o.fields["_schemas"].same(cx, a.S0), o.fields["_used"].same(cx, a.U0), pk.fields["_providers"].same(cx, a.P0), pk.fields["_pkginfos"].same(cx, a.I0)), "a registration that fails leaves the in-memory index as it was"),
        ]

    def ensures(self, cx, a, res):
        o = a.self
        r = a.schema_ref.t
        S, U = o.fields["_schemas"], o.fields["_used"]
        pk = o.fields["_pkgs"]
        P, I = pk.fields["_providers"], pk.fields["_pkginfos"]
        x = z3.Const(fresh_name("ex"), Ref)
        p = z3.Const(fresh_name("ep"), PDs)
        fx = cx.fx
        known = a.S0.has(r)
        out = []
        if not fx:
            out.append(("nothing-to-do-only-if-already-recorded", known, "a schema without a record always gets one"))
            out.append(("state-untouched", z3.And(S.same(cx, a.S0), U.same(cx, a.U0), P.same(cx, a.P0), I.same(cx, a.I0)), "an already recorded schema changes nothing"))
            return out
        sets = [e for e in fx if e[0] == "raw-set"]
        js_ok = len(sets) >= 2 and isinstance(sets[0][2], EncodedVal) and sets[0][2].what == "schema_json"
        cp_ok = len(sets) >= 2 and isinstance(sets[1][2], EncodedVal) and sets[1][2].what == "json-of-ref-dicts"
        out.append(("only-for-new-schemas", z3.Not(known), "records are written once, when a schema is first used"))
        out.append(("embedded-json-schema-is-the-plugin-systems", z3.And(z3.BoolVal(js_ok), same_str(sets[0][1], z3.Concat(schema_path(r), z3.StringVal("/jsonschema.json"))) if js_ok else False, (sets[0][2].t == SCHEMA_JSON(r)) if js_ok else False), "the container stores, under <schemas>/<name__version>/jsonschema.json, the JSON Schema the plugin system reports for exactly this schema (UTF-8)"))
        out.append(("embedded-parent-chain-is-the-plugin-systems", z3.And(z3.BoolVal(cp_ok), same_str(sets[1][1], z3.Concat(schema_path(r), z3.StringVal("/compat"))) if cp_ok else False, (sets[1][2].t == toc.PP(r)) if cp_ok else False), "the stored parent chain (compat) is the JSON list of the refs of schemas.parent_path for exactly this schema"))
        had_provider = z3.Exists([p], member(a.P0, r, p))
        pkg_written = len(sets) == 3 and len(fx) == 3
        out.append(("provider-recorded-iff-none-stored", z3.And(z3.BoolVal(len(fx) == len(sets) and len(sets) in (2, 3)), z3.BoolVal(pkg_written) == z3.Not(had_provider)), "a package record is added exactly when no stored package provides the schema"))
        if pkg_written:
            e = sets[2]
            out.append(("provider-record-is-the-environments", z3.And(same_str(e[1], z3.Concat(z3.StringVal(PKGS_PATH), z3.StringVal("/"), EPN(INFO_NAME(ENV_INFO(r)), INFO_VER(ENV_INFO(r))))), (e[2].t == ENV_INFO(r)) if isinstance(e[2], InfoBytes) else False), "the stored provider is the package the plugin system reports for the schema, under its name and version"))
        out.append(("schema-marked-used", z3.ForAll([x], S.has(x) == z3.Or(a.S0.has(x), x == r)), CL_SYNC))
        for n, g in toc.index_inv_post(lambda y: S.has(y), o.fields["_parents"], o.fields["_children"], "post"):
            out.append(("index:" + n, g, "the incrementally maintained index equals the one rebuilt from the stored parent paths"))
        # explicit witnesses (stronger than the existential form): an old package keeps a schema it tracked, the new one tracks r;
        # an old schema keeps its tracking provider, r is tracked by any provider it has now
        some_now = z3.Const(fresh_name("some_provider_now"), PDs)
        use_wit = lambda q: z3.If(a.I0.has(q), USEW(q), r)  # noqa: E731
        prov_wit = lambda y: z3.If(y == r, z3.If(had_provider, PROVW_R(a.P0, r), env_key(r)), PROVW(y))  # noqa: E731
        for n, g in kinv(o, "k1", False, use_wit, prov_wit):
            out.append(("bookkeeping:" + n, g, CL_SYNC))
        return out


class SchemaUnregister(FnSpec):
    file = "container/interface.py"
    qual = "TOCSchemas._unregister"
    props = ("C06", "C20")

    def init(self):
        self.bindings["M"] = MStub()
        self.bindings["to_ep_name"] = to_ep_name
        self.inline |= {"TOCSchemas._schema_path_for"}

        def inv(cx, env, it):
            a = cx.ghost["su"]
            o = a.self
            pk = o.fields["_pkgs"]
            U, I, P, S = o.fields["_used"], pk.fields["_pkginfos"], pk.fields["_providers"], o.fields["_schemas"]
            r = a.schema_ref.t
            p = z3.Const(fresh_name("lp"), PDs)
            s = z3.Const(fresh_name("ls"), Ref)
            only_r = lambda q: z3.ForAll([s], z3.Implies(z3.Select(a.U0.get_term(q), s), s == r))  # noqa: E731
            if a.par1 is None:  # first evaluation = loop entry: the index after _update_parents_children
                a.par1, a.chi1 = o.fields["_parents"].snapshot(), o.fields["_children"].snapshot()
            return [
                ("use-sets-lose-the-schema-for-processed-packages", z3.ForAll([p, s], z3.And(U.has(p) == a.U0.has(p), z3.Select(U.get_term(p), s) == z3.And(z3.Select(a.U0.get_term(p), s), z3.Not(z3.And(z3.Select(it.processed, p), s == r)))))),
                ("packages-dropped-exactly-when-their-use-set-emptied", z3.ForAll([p], z3.And(I.has(p) == z3.And(a.I0.has(p), z3.Not(z3.And(z3.Select(it.processed, p), only_r(p)))), I.get_term(p) == a.I0.get_term(p)))),
                ("providers-inverse-of-stored-package-infos", providers_inverse_of_infos(pk, "li")),
                ("schemas-fixed", S.same(cx, a.S1)),
                ("index-fixed", z3.And(o.fields["_parents"].same(cx, a.par1), o.fields["_children"].same(cx, a.chi1))),
            ]

        self.loops[0] = LoopSpec(inv, modifies=["pkg", "pkg_used"], havoc_inplace=["self._used", "self._pkgs._pkginfos", "self._pkgs._providers"])

    def setup(self, cx):
        for ax in toc.path_axioms():
            cx.assume(ax)
        o = schemas_obj(cx)
        r = SRef("SchemaRef", z3.Const("schema_ref", Ref))
        a = A(self=o, schema_ref=r)
        pk = o.fields["_pkgs"]
        a.S0, a.U0, a.P0, a.I0 = o.fields["_schemas"].snapshot(), o.fields["_used"].snapshot(), pk.fields["_providers"].snapshot(), pk.fields["_pkginfos"].snapshot()
        a.S1 = SSet(RT, z3.Store(a.S0.dom, r.t, False))
        a.par1 = a.chi1 = None
        cx.ghost["su"] = a
        # definitional: the choice function picks a member other than r whenever there is one
        q = z3.Const(fresh_name("chq"), PDs)
        s = z3.Const(fresh_name("chs"), Ref)
        st = a.U0.get_term(q)
        cx.assume(z3.ForAll([q], z3.Implies(z3.Exists([s], z3.And(z3.Select(st, s), s != r.t)), z3.And(z3.Select(st, OTHER_USE(st, r.t)), OTHER_USE(st, r.t) != r.t))))
        return a

    def requires(self, cx, a):
        o = a.self
        S = o.fields["_schemas"]
        return [("schema-is-in-use", S.has(a.schema_ref.t))] + [(n, g) for n, g in toc.index_inv(lambda x: S.has(x), o.fields["_parents"], o.fields["_children"], "pre", toc.W0)] + kinv(o, "k0", True)

    def ensures(self, cx, a, res):
        o = a.self
        r = a.schema_ref.t
        S, U = o.fields["_schemas"], o.fields["_used"]
        pk = o.fields["_pkgs"]
        P, I = pk.fields["_providers"], pk.fields["_pkginfos"]
        x = z3.Const(fresh_name("ex"), Ref)
        p = z3.Const(fresh_name("ep"), PDs)
        s = z3.Const(fresh_name("es"), Ref)
        fx = cx.fx
        first = len(fx) >= 1 and fx[0][0] == "raw-del"
        group_removed = len(fx) == 2 and fx[1][0] == "raw-del" and fx[1][1] == SCHEMAS_PATH
        out = [
            ("schema-record-deleted", z3.And(z3.BoolVal(first and len(fx) <= 2), same_str(fx[0][1], schema_path(r)) if first else False), "the whole record group <schemas>/<name__version> (JSON Schema and parent chain) is deleted"),
            ("schema-no-longer-used", z3.ForAll([x], S.has(x) == z3.And(a.S0.has(x), x != r)), CL_SYNC),
            ("empty-schemas-group-removed", z3.BoolVal(group_removed) == is_empty_set(S), "no empty bookkeeping group is left behind: the schemas group is deleted exactly when no schema is in use any more"),
            ("packages-dropped-exactly-when-unused", z3.ForAll([p], z3.And(I.has(p) == z3.And(a.I0.has(p), z3.Exists([s], z3.And(z3.Select(a.U0.get_term(p), s), s != r))), z3.Implies(I.has(p), I.get_term(p) == a.I0.get_term(p)))), "a package record goes away exactly when the schema was the last one in use that the package tracked"),
        ]
        for n, g in toc.index_inv_post(lambda y: S.has(y), o.fields["_parents"], o.fields["_children"], "post"):
            out.append(("index:" + n, g, "the incrementally maintained index equals the one rebuilt from the stored parent paths"))
        for n, g in kinv(o, "k1", False, lambda q: z3.If(USEW(q) == r, OTHER_USE(a.U0.get_term(q), r), USEW(q)), lambda y: PROVW(y)):
            out.append(("bookkeeping:" + n, g, CL_SYNC))
        return out


def OTHER_USE(st, r):
    """some member of the set other than r (choice function; constrained where used)"""
    ch = z3.Function("choose_other_schema", z3.ArraySort(Ref, B), Ref, Ref)
    return ch(st, r)


# ---- TOCLinks.register / unregister / update (C06) ------------------------------------------------------

LINKS_PATH = "<METADOR_LINKS_PATH>"
UU = z3.DeclareSort("UUID")
UUID_STR = z3.Function("str_of_uuid", UU, S_)
PARENT_PATH = z3.Function("h5_parent_path", S_, S_)
N_CHILDREN = z3.Function("number_of_children_at_entry", S_, z3.IntSort())
LAST_SEG = z3.Function("last_path_segment", S_, S_)
REF_FOR_EP = z3.Function("schema_ref_for_ep_name", S_, Ref)  # _schema_ref_for (C16 codec: inverse of the ep name)


class TUuid:
    def sort(self):
        return UU

    def wrap(self, t):
        return UuidV(t)

    def unwrap(self, cx, v):
        if isinstance(v, UuidV):
            return v.t
        raise Unsupported("not a uuid")


class UuidV(SVal):
    def __init__(self, t):
        self.t = t

    def py_str(self, cx):
        return SStr(UUID_STR(self.t))


class LinksRaw(SVal):
    """raw container as TOCLinks sees it: writes/deletes are logged; group sizes are entry sizes minus what this call deleted below them"""

    def __init__(self):
        self.deleted = []

    def py_setitem(self, cx, k, v):
        cx.effect("raw-set", k.t if isinstance(k, SStr) else z3.StringVal(k), v)

    def py_delitem(self, cx, k):
        kt = k.t if isinstance(k, SStr) else z3.StringVal(k)
        cx.effect("raw-del", kt)
        self.deleted.append(kt)

    def py_getitem(self, cx, k):
        return RawNodeAt(self, k.t if isinstance(k, SStr) else z3.StringVal(k))


class RawNodeAt(SVal):
    def __init__(self, raw, path_t):
        self.raw, self.path_t = raw, path_t

    def py_getattr(self, cx, name):
        if name == "parent":
            return RawNodeAt(self.raw, PARENT_PATH(self.path_t))
        if name == "name":
            return PathStr(self.path_t)
        raise Unsupported("raw node attribute " + name)

    def py_isinstance(self, cx, c):
        return c == "H5GroupLike"

    def py_setitem(self, cx, idx, v):  # node[...] = v: a write INTO an existing dataset (not a replacement of the node)
        cx.effect("raw-write-in-place", self.path_t, idx, v)

    def _count(self):
        n = N_CHILDREN(self.path_t)
        for d in self.raw.deleted:
            n = n - z3.If(PARENT_PATH(d) == self.path_t, 1, 0)
        return n

    def py_len(self, cx):
        return SInt(self._count())

    def meth_keys(self, cx):
        return self


class PathStr(SStr):
    def meth_split(self, cx, sep):
        if sep != "/":
            raise Unsupported("split by something else")
        return SegsOf(self.t)


class SegsOf(SVal):
    def __init__(self, t):
        self.t = t

    def py_getitem(self, cx, i):
        if i != -1:
            raise Unsupported("only the last segment is used")
        return SStr(LAST_SEG(self.t))


def links_obj(cx):
    o = SObj("TOCLinks", name="self")
    o.fields["_raw"] = LinksRaw()
    o.fields["_toc_path"] = SMap.fresh(TUuid(), STR, "toc_path")
    ts = SObj("TocSchemasStub", name="toc_schemas")
    o.fields["_toc_schemas"] = ts
    return o


class LinksRegister(FnSpec):
    file = "container/interface.py"
    qual = "TOCLinks.register"
    props = ("C06",)

    def init(self):
        self.bindings["M"] = MStub()
        self.bindings["_ep_name_for"] = lambda cx, r: SStr(EPN(REF_NAME(r.t), REF_VER(r.t)))
        self.inline |= {"TOCLinks._link_path_for"}

    def setup(self, cx):
        o = links_obj(cx)
        st = SObj("StoredObj", name="obj")
        st.fields["schema"] = SRef("SchemaRef", z3.Const("obj_schema", Ref))
        st.fields["uuid"] = UuidV(z3.Const("obj_uuid", UU))
        node = SObj("StoredNode", name="node")
        node.fields["name"] = SStr(z3.String("obj_node_path"))
        st.fields["node"] = node
        a = A(self=o, obj=st)
        a.tp0 = o.fields["_toc_path"].snapshot()
        return a

    def ensures(self, cx, a, res):
        o = a.self
        tp = o.fields["_toc_path"]
        r, u = a.obj.fields["schema"].t, a.obj.fields["uuid"].t
        path = z3.Concat(z3.StringVal(LINKS_PATH), z3.StringVal("/"), EPN(REF_NAME(r), REF_VER(r)), z3.StringVal("/"), UUID_STR(u))
        fx = cx.fx
        ok = [e[0] for e in fx] == ["schemas-register", "raw-set"]
        k = z3.Const(fresh_name("uk"), UU)
        out = [("protocol", z3.BoolVal(ok), "the schema is registered as used first, then exactly one link is written")]
        if ok:
            out.append(("schema-of-the-object-registered", fx[0][1].t == r, "the object's schema gets its schema/package records"))
            out.append(("link-written", z3.And(fx[1][1] == path, same_str(fx[1][2], a.obj.fields["node"].fields["name"].t)), "the link <links>/<schema__version>/<uuid> holds the path of the metadata object"))
        out.append(("link-table-updated", z3.ForAll([k], z3.And(tp.has(k) == z3.Or(a.tp0.has(k), k == u), tp.get_term(k) == z3.If(k == u, path, a.tp0.get_term(k)))), "the UUID now resolves to exactly this link; all others are untouched"))
        return out


class LinksUnregister(FnSpec):
    file = "container/interface.py"
    qual = "TOCLinks.unregister"
    props = ("C06",)

    def init(self):
        self.bindings["M"] = MStub()
        self.bindings["H5GroupLike"] = SClass("H5GroupLike")
        self.bindings["_schema_ref_for"] = lambda cx, ep: SRef("SchemaRef", REF_FOR_EP(ep.t))

    def setup(self, cx):
        o = links_obj(cx)
        a = A(self=o, uuid=UuidV(z3.Const("uuid", UU)))
        a.tp0 = o.fields["_toc_path"].snapshot()
        return a

    def requires(self, cx, a):
        tp = a.tp0
        k = z3.Const(fresh_name("rk"), UU)
        links = z3.StringVal(LINKS_PATH)
        p = tp.get_term(k)
        return [
            ("links-live-two-levels-below-the-links-group", z3.ForAll([k], z3.Implies(tp.has(k), z3.And(PARENT_PATH(PARENT_PATH(p)) == links, PARENT_PATH(p) != links, p != links, N_CHILDREN(PARENT_PATH(p)) >= 1, N_CHILDREN(links) >= 1)))),
            ("group-sizes-non-negative", z3.ForAll([z3.String("anyp")], N_CHILDREN(z3.String("anyp")) >= 0)),
        ]

    def raises(self, cx, a):
        return {"KeyError": z3.Not(a.tp0.has(a.uuid.t))}

    def on_raise(self, cx, a, exc):
        return [("unknown-uuid-changes-nothing", z3.BoolVal(not cx.fx), "unregistering an unknown UUID changes nothing")]

    def ensures(self, cx, a, res):
        o = a.self
        tp = o.fields["_toc_path"]
        u = a.uuid.t
        P = a.tp0.get_term(u)
        SG = PARENT_PATH(P)
        links = z3.StringVal(LINKS_PATH)
        last_of_schema = N_CHILDREN(SG) == 1
        last_schema = N_CHILDREN(links) == 1
        fx = cx.fx
        kinds = [e[0] for e in fx]
        k = z3.Const(fresh_name("uk"), UU)
        shapes = (["raw-del"], ["raw-del", "raw-del", "schemas-unregister"], ["raw-del", "raw-del", "schemas-unregister", "raw-del"])
        out = [("protocol", z3.BoolVal(kinds in shapes), "delete the link; if the schema's link group became empty delete it and tell the schema bookkeeping; if the links group became empty delete it")]
        if kinds not in shapes:
            return out
        out.append(("link-deleted", fx[0][1] == P, "exactly the link of this UUID is deleted"))
        out.append(("uuid-freed", z3.ForAll([k], z3.And(tp.has(k) == z3.And(a.tp0.has(k), k != u), z3.Implies(k != u, tp.get_term(k) == a.tp0.get_term(k)))), "the UUID is free again; all other links untouched"))
        out.append(("schema-group-removed-iff-last-object", z3.BoolVal(len(kinds) >= 3) == last_of_schema, "the schema's link group is removed exactly when this was the last object of the schema (no empty bookkeeping group, no early clean-up)"))
        if len(kinds) >= 3:
            out.append(("schema-unregistered-for-that-group", z3.And(fx[1][1] == SG, fx[2][1].t == REF_FOR_EP(LAST_SEG(SG))), "the schema whose group it was is reported unused (its schema/package records can go)"))
        out.append(("links-group-removed-iff-no-metadata-left", z3.BoolVal(len(kinds) == 4) == z3.And(last_of_schema, last_schema), "the links group itself is removed exactly when no metadata is left in the container"))
        if len(kinds) == 4:
            out.append(("it-is-the-links-group", fx[3][1] == links, "what is removed is the links group"))
        return out


class LinksUpdate(FnSpec):
    file = "container/interface.py"
    qual = "TOCLinks.update"
    props = ("C06", "C09")

    def init(self):
        self.bindings["cast"] = lambda cx, t, v: v
        self.bindings["H5DatasetLike"] = "H5DatasetLike"

    def setup(self, cx):
        o = links_obj(cx)
        a = A(self=o, uuid=UuidV(z3.Const("uuid", UU)), new_target=SStr(z3.String("new_target")))
        a.tp0 = o.fields["_toc_path"].snapshot()
        return a

    def raises(self, cx, a):
        return {"KeyError": z3.Not(a.tp0.has(a.uuid.t))}

    def ensures(self, cx, a, res):
        P = a.tp0.get_term(a.uuid.t)
        fx = cx.fx
        ok = [e[0] for e in fx] == ["raw-del", "raw-set"]
        return [
            ("link-rewritten-in-place", z3.And(z3.BoolVal(ok), (fx[0][1] == P) if ok else False, (fx[1][1] == P) if ok else False, same_str(fx[1][2], a.new_target.t) if ok else False), "the existing link (same UUID, same place) now holds the new target — by deleting and re-creating the link node: a write INTO the node would be refused by the IH5 driver for a link committed in an older container, after the data was already moved"),
            ("link-table-unchanged", a.self.fields["_toc_path"].same(cx, a.tp0), "the UUID keeps resolving to the same link"),
        ]


# ---- TOCSchemas.__init__: the index rebuilt from the stored records (C06, C20) --------------------------------


class InitObj(SObj):
    """`self` inside __init__: empty containers assigned to the bookkeeping fields become typed symbolic containers"""

    TYPES = {"_schemas": ("set", RT), "_parents": ("map", RT, toc.LST), "_children": ("map", RT, TSetT(RT)), "_used": ("map", PD, TSetT(RT))}

    def py_setattr(self, cx, name, val):
        t = self.TYPES.get(name)
        if t is not None and isinstance(val, (set, dict)) and not val:
            val = SSet(t[1]) if t[0] == "set" else SMap(t[1], t[2], name=name.strip("_"))
        SObj.py_setattr(self, cx, name, val)


class RecName(SVal):
    def __init__(self, ref_t):
        self.ref_t = ref_t


class RecNode(SVal):
    """the record group <schemas>/<name__version> of a used schema"""

    def __init__(self, ref_t):
        self.ref_t = ref_t

    def py_isinstance(self, cx, c):
        return c == "H5GroupLike"

    def py_getitem(self, cx, k):
        if k != "compat":
            raise Unsupported("record member " + repr(k))
        return CompatDs(self.ref_t)


class CompatDs(SVal):
    def __init__(self, ref_t, stage="ds"):
        self.ref_t, self.stage = ref_t, stage

    def py_isinstance(self, cx, c):
        return c == "H5DatasetLike"

    def py_getitem(self, cx, idx):
        if idx != ():
            raise Unsupported("dataset read other than [()]")
        return CompatDs(self.ref_t, "bytes")

    def meth_decode(self, cx, enc="utf-8"):
        return CompatDs(self.ref_t, "text")


class JsonLoads(SVal):
    def meth_loads(self, cx, v):
        if not (isinstance(v, CompatDs) and v.stage == "text"):
            raise Unsupported("json.loads of something else than the decoded compat dataset")
        return CompatDs(v.ref_t, "reflist")


def map_parse_obj(cx, f, seq):
    if not (isinstance(seq, CompatDs) and seq.stage == "reflist" and getattr(f, "what", None) == "PluginRef.parse_obj"):
        raise Unsupported("map() other than PluginRef.parse_obj over the stored reference list")
    # what _register stored under compat is the parent path of the schema (its contract), JSON and pydantic round-trip it (T5/T9)
    return SSeq(RT, toc.PP(seq.ref_t))


class PluginRefCls(SVal):
    def py_getattr(self, cx, name):
        if name == "parse_obj":
            v = SVal()
            v.what = "PluginRef.parse_obj"
            return v
        raise Unsupported("PluginRef." + name)


class RecItems(SVal):
    def __init__(self, rec):
        self.rec = rec

    def py_iter_schema(self, cx):
        from pyvc.containers import SetIter

        return SetIter(RT, self.rec.dom, lambda kterm: (RecName(kterm), RecNode(kterm)))


class InitRaw(SVal):
    def __init__(self, rec):
        self.rec = rec

    def py_contains(self, cx, k):
        if k != SCHEMAS_PATH:
            raise Unsupported("membership of " + repr(k))
        return z3.Not(is_empty_set(self.rec))  # the schemas group exists iff there are records (no empty bookkeeping groups)

    def meth_require_group(self, cx, k):
        if k != SCHEMAS_PATH:
            raise Unsupported("group " + repr(k))
        return self

    def meth_items(self, cx):
        return RecItems(self.rec)


class SchemasInit(FnSpec):
    file = "container/interface.py"
    qual = "TOCSchemas.__init__"
    props = ("C06", "C20")

    def init(self):
        self.bindings["M"] = MStub()
        self.bindings["json"] = JsonLoads()
        self.bindings["map"] = map_parse_obj
        self.bindings["list"] = lambda cx, v: v
        self.bindings["PluginRef"] = PluginRefCls()
        self.bindings["H5GroupLike"] = SClass("H5GroupLike")
        self.bindings["H5DatasetLike"] = SClass("H5DatasetLike")
        self.bindings["_schema_ref_for"] = lambda cx, n: SRef("SchemaRef", n.ref_t)
        self.inline |= {"TOCPackages.keys"}

        def inv_used_init(cx, env, it):
            o = cx.ghost["si"].self
            U = o.fields["_used"]
            p = z3.Const(fresh_name("up"), PDs)
            s = z3.Const(fresh_name("us"), Ref)
            return [("use-sets-created-empty", z3.ForAll([p, s], z3.And(U.has(p) == z3.Select(it.processed, p), z3.Implies(U.has(p), z3.Not(z3.Select(U.get_term(p), s))))))]

        def inv_outer(cx, env, it):
            a = cx.ghost["si"]
            o = a.self
            S, U = o.fields["_schemas"], o.fields["_used"]
            P, I = a.pk.fields["_providers"], a.pk.fields["_pkginfos"]
            x = z3.Const(fresh_name("ox"), Ref)
            p = z3.Const(fresh_name("op"), PDs)
            a.outer_it = it
            out = [
                ("schemas-are-the-records-read-so-far", z3.ForAll([x], S.has(x) == z3.Select(it.processed, x))),
                ("use-sets-are-the-providers-of-the-records-read-so-far", z3.ForAll([p, x], z3.And(U.has(p) == I.has(p), z3.Implies(I.has(p), z3.Select(U.get_term(p), x) == z3.And(z3.Select(it.processed, x), member(P, x, p)))))),
            ]
            out += [("index:" + n, g) for n, g in toc.index_inv_post(lambda y: S.has(y), o.fields["_parents"], o.fields["_children"], "oi")]
            return out

        def inv_inner(cx, env, it):
            a = cx.ghost["si"]
            o = a.self
            S, U = o.fields["_schemas"], o.fields["_used"]
            P, I = a.pk.fields["_providers"], a.pk.fields["_pkginfos"]
            r = env["s_ref"].t
            proc = a.outer_it.processed
            x = z3.Const(fresh_name("ix"), Ref)
            p = z3.Const(fresh_name("ip"), PDs)
            out = [
                ("schemas-are-the-records-read-so-far-plus-this", z3.ForAll([x], S.has(x) == z3.Or(z3.Select(proc, x), x == r))),
                ("use-sets-updated-for-the-providers-handled", z3.ForAll([p, x], z3.And(U.has(p) == I.has(p), z3.Implies(I.has(p), z3.Select(U.get_term(p), x) == z3.Or(z3.And(z3.Select(proc, x), member(P, x, p)), z3.And(x == r, z3.Select(it.processed, p))))))),
            ]
            out += [("index:" + n, g) for n, g in toc.index_inv_post(lambda y: S.has(y), o.fields["_parents"], o.fields["_children"], "ii")]
            return out

        self.loops[0] = LoopSpec(inv_used_init, modifies=["pkg"], havoc_inplace=["self._used"])
        self.loops[1] = LoopSpec(inv_outer, modifies=["name", "node", "s_ref", "compat", "reflist", "parents", "pkg"], havoc_inplace=["self._schemas", "self._parents", "self._children", "self._used"])
        self.loops[2] = LoopSpec(inv_inner, modifies=["pkg"], havoc_inplace=["self._used"])

    def setup(self, cx):
        for ax in toc.path_axioms():
            cx.assume(ax)
        o = InitObj("TOCSchemas", name="self")
        rec = SSet.fresh(RT, "stored_schema_records")
        pk = pkgs_obj(cx, "toc_packages")
        a = A(self=o, raw_cont=InitRaw(rec), toc_packages=pk)
        a.rec, a.pk = rec, pk
        a.outer_it = None
        cx.ghost["si"] = a
        return a

    def requires(self, cx, a):
        P, I = a.pk.fields["_providers"], a.pk.fields["_pkginfos"]
        s = z3.Const(fresh_name("rs"), Ref)
        p = z3.Const(fresh_name("rp"), PDs)
        return [
            ("every-recorded-schema-has-a-stored-provider-entry", z3.ForAll([s], z3.Implies(a.rec.has(s), P.has(s)))),
            ("providers-name-stored-packages", z3.ForAll([s, p], z3.Implies(member(P, s, p), I.has(p)))),
        ]

    def ensures(self, cx, a, res):
        o = a.self
        S, U = o.fields.get("_schemas"), o.fields.get("_used")
        if not isinstance(S, SSet) or not isinstance(U, SMap):
            return [("bookkeeping-initialised", z3.BoolVal(False), "the tables exist")]
        P, I = a.pk.fields["_providers"], a.pk.fields["_pkginfos"]
        x = z3.Const(fresh_name("ex"), Ref)
        p = z3.Const(fresh_name("ep"), PDs)
        cl = "the in-memory index rebuilt from disk on open is the one determined by the stored records (and therefore equals the incrementally maintained one, which satisfies the same determining conditions)"
        out = [
            ("schemas-in-use-are-the-stored-records", z3.ForAll([x], S.has(x) == a.rec.has(x)), cl),
            ("use-sets-rebuilt-from-providers", z3.ForAll([p, x], z3.And(U.has(p) == I.has(p), z3.Implies(I.has(p), z3.Select(U.get_term(p), x) == z3.And(a.rec.has(x), member(P, x, p))))), "every stored package tracks exactly the recorded schemas it provides — ALL of them, not only the last one read"),
            ("fields-wired", z3.BoolVal(o.fields.get("_raw") is a.raw_cont and o.fields.get("_pkgs") is a.pk), "the raw container and the package table are the ones given"),
        ]
        for n, g in toc.index_inv_post(lambda y: S.has(y), o.fields["_parents"], o.fields["_children"], "ep"):
            out.append(("index:" + n, g, cl))
        return out


# ---- TOCPackages.__init__: the package table rebuilt from the stored records on open ---------------------------------------------
STORED_INFO = z3.Function("parsed_package_record", PDs, Info)  # PluginPkgMeta.parse_raw of the bytes stored under the record of that package (T5)


class PkgInitObj(SObj):
    def py_setattr(self, cx, name, val):
        if isinstance(val, dict) and not val and name in ("_pkginfos", "_providers"):
            val = SMap(PD, IT, name="pkginfos") if name == "_pkginfos" else SMap(RT, TSetT(PD), name="providers")
        SObj.py_setattr(self, cx, name, val)


class PkgRecName(SVal):
    def __init__(self, p):
        self.p = p


class PkgRecNode(SVal):
    def __init__(self, p):
        self.p = p

    def py_getitem(self, cx, idx):
        if idx != ():
            raise Unsupported("read of a package record other than [()]")
        return PkgRecBytes(self.p)


class PkgRecBytes(SVal):
    def __init__(self, p):
        self.p = p


class PkgRecItems(SVal):
    def __init__(self, rec):
        self.rec = rec

    def py_iter_schema(self, cx):
        from pyvc.containers import SetIter

        return SetIter(PD, self.rec.dom, lambda kterm: (PkgRecName(kterm), PkgRecNode(kterm)))


class PkgInitRaw(SVal):
    def __init__(self, rec):
        self.rec = rec

    def py_contains(self, cx, k):
        if k != PKGS_PATH:
            raise Unsupported("membership of " + repr(k))
        return z3.Not(is_empty_set(self.rec))  # the packages group exists iff there are records (no empty bookkeeping groups)

    def meth_require_group(self, cx, k):
        if k != PKGS_PATH:
            raise Unsupported("group " + repr(k))
        return self

    def meth_items(self, cx):
        return PkgRecItems(self.rec)


class PkgMetaCls(SVal):
    def meth_parse_raw(self, cx, b):
        if not isinstance(b, PkgRecBytes):
            raise Unsupported("parse_raw of something else than a stored package record")
        return SRef("PkgInfo", STORED_INFO(b.p))


class PackagesInit(FnSpec):
    file = "container/interface.py"
    qual = "TOCPackages.__init__"
    props = ("C06", "C20")

    def init(self):
        self.bindings["M"] = MStub()
        self.bindings["EPName"] = lambda cx, n: n
        self.bindings["from_ep_name"] = lambda cx, n: PD.wrap(n.p)  # the record name is to_ep_name(package name, version): decoded back (C16 round trip)
        self.bindings["PluginPkgMeta"] = PkgMetaCls()
        self.bindings["cast"] = lambda cx, t, v: v
        self.bindings["H5DatasetLike"] = SClass("H5DatasetLike")

        def inv(cx, env, it):
            a = cx.ghost["pi"]
            o = a.self
            I, P = o.fields["_pkginfos"], o.fields["_providers"]
            p = z3.Const(fresh_name("qp"), PDs)
            s = z3.Const(fresh_name("qs"), Ref)
            return [
                ("infos-are-the-records-read-so-far", z3.ForAll([p], z3.And(I.has(p) == z3.Select(it.processed, p), z3.Implies(I.has(p), I.get_term(p) == STORED_INFO(p))))),
                ("providers-are-the-inverse-of-the-infos-read-so-far", z3.ForAll([s, p], member(P, s, p) == z3.And(z3.Select(it.processed, p), z3.Select(PL(STORED_INFO(p)), s)))),
                ("no-schema-without-a-provider", z3.ForAll([s], z3.Implies(P.has(s), z3.Exists([p], member(P, s, p))))),
            ]

        self.loops[0] = LoopSpec(inv, modifies=["name", "node", "pkg", "info"], havoc_inplace=["self._pkginfos", "self._providers"])

    def setup(self, cx):
        o = PkgInitObj("TOCPackages", name="self")
        rec = SSet.fresh(PD, "stored_package_records")
        a = A(self=o, raw_container=PkgInitRaw(rec))
        a.rec = rec
        cx.ghost["pi"] = a
        return a

    def ensures(self, cx, a, res):
        o = a.self
        I, P = o.fields.get("_pkginfos"), o.fields.get("_providers")
        if not isinstance(I, SMap) or not isinstance(P, SMap):
            return [("tables-initialised", z3.BoolVal(False), "the tables exist")]
        p = z3.Const(fresh_name("ep"), PDs)
        s = z3.Const(fresh_name("es"), Ref)
        return [
            ("package-table-is-the-stored-records", z3.ForAll([p], z3.And(I.has(p) == a.rec.has(p), z3.Implies(I.has(p), I.get_term(p) == STORED_INFO(p)))), "a freshly opened container reports exactly the package records stored in it, each as parsed from its bytes"),
            ("providers-rebuilt-as-the-inverse", z3.ForAll([s, p], member(P, s, p) == z3.And(a.rec.has(p), z3.Select(PL(STORED_INFO(p)), s))), "the schema -> providing packages table is rebuilt as the inverse of ALL stored records' plugin lists (not only the last one read)"),
            ("raw-wired", z3.BoolVal(o.fields.get("_raw") is a.raw_container), "the raw container is the one given"),
        ]


# ---- TOCLinks.__init__: the uuid -> link path table rebuilt from all link nodes on open -----------------------------------------------
SGrp = z3.DeclareSort("SchemaLinkGroup")
IN_GROUP = z3.Function("link_of_uuid_sits_in_schema_group", SGrp, UU, z3.BoolSort())
LINK_NODE_PATH = z3.Function("path_of_the_link_node", SGrp, UU, S_)


class TSGrp:
    def sort(self):
        return SGrp

    def wrap(self, t):
        return SGrpV(t)

    def unwrap(self, cx, v):
        return v.t


class SGrpV(SVal):
    def __init__(self, t):
        self.t = t

    def py_isinstance(self, cx, c):
        return getattr(c, "name", c) in ("H5GroupLike", "object")

    def meth_items(self, cx):
        me = self

        class _It(SVal):
            def py_iter_schema(s, cx2):
                from pyvc.containers import SetIter

                u = z3.Const(fresh_name("gu"), UU)
                return SetIter(TUuid(), z3.Lambda([u], IN_GROUP(me.t, u)), lambda ut: (UuidText(ut), LinkNodeV(me.t, ut)))

        return _It()


class UuidText(SVal):
    """the name of a link node: str(uuid)"""

    def __init__(self, u):
        self.u = u


class LinkNodeV(SVal):
    def __init__(self, g, u):
        self.g, self.u = g, u

    def py_isinstance(self, cx, c):
        return getattr(c, "name", c) in ("H5DatasetLike", "object")

    def py_getattr(self, cx, n):
        if n == "name":
            return SStr(LINK_NODE_PATH(self.g, self.u))
        raise Unsupported("link node attribute " + n)


class LinksInitRaw(SVal):
    def __init__(self, groups):
        self.groups = groups

    def py_contains(self, cx, k):
        if k != "<METADOR_LINKS_PATH>":
            raise Unsupported("membership of " + repr(k))
        return z3.Not(is_empty_set(self.groups))

    def meth_require_group(self, cx, k):
        return self

    def py_isinstance(self, cx, c):
        return getattr(c, "name", c) in ("H5GroupLike", "object")

    def meth_values(self, cx):
        me = self

        class _It(SVal):
            def py_iter_schema(s, cx2):
                from pyvc.containers import SetIter

                return SetIter(TSGrp(), me.groups.dom, lambda gt: SGrpV(gt))

        return _It()


class LinksInitObj(SObj):
    def py_setattr(self, cx, name, val):
        if name == "_toc_path" and isinstance(val, dict) and not val:
            val = SMap(TUuid(), STR, name="toc_path")
        SObj.py_setattr(self, cx, name, val)


class LinksInit(FnSpec):
    file = "container/interface.py"
    qual = "TOCLinks.__init__"
    props = ("C06",)

    def init(self):
        self.bindings["M"] = MStub()
        self.bindings["H5GroupLike"] = SClass("H5GroupLike")
        self.bindings["H5DatasetLike"] = SClass("H5DatasetLike")
        self.bindings["UUID"] = lambda cx, t: UuidV(t.u) if isinstance(t, UuidText) else (_ for _ in ()).throw(Unsupported("UUID of another text"))  # UUID(str(u)) == u

        def inv_outer(cx, env, it):
            a = cx.ghost["li"]
            tp = a.self.fields["_toc_path"]
            u = z3.Const(fresh_name("ou"), UU)
            g = z3.Const(fresh_name("og"), SGrp)
            a.outer_it = it
            return [
                ("links-of-the-groups-read-so-far", z3.ForAll([g, u], z3.Implies(z3.And(z3.Select(it.processed, g), IN_GROUP(g, u)), z3.And(tp.has(u), tp.get_term(u) == LINK_NODE_PATH(g, u))))),
                ("nothing-else", z3.ForAll([u], z3.Implies(tp.has(u), z3.And(z3.Select(it.processed, a.grp_of(u)), IN_GROUP(a.grp_of(u), u))))),
            ]

        def inv_inner(cx, env, it):
            a = cx.ghost["li"]
            tp = a.self.fields["_toc_path"]
            cur = env["schema_link_grp"].t
            proc = a.outer_it.processed
            u = z3.Const(fresh_name("iu"), UU)
            g = z3.Const(fresh_name("ig"), SGrp)
            return [
                ("links-of-earlier-groups-and-of-this-one-so-far", z3.ForAll([g, u], z3.Implies(z3.And(IN_GROUP(g, u), z3.Or(z3.Select(proc, g), z3.And(g == cur, z3.Select(it.processed, u)))), z3.And(tp.has(u), tp.get_term(u) == LINK_NODE_PATH(g, u))))),
                ("nothing-else", z3.ForAll([u], z3.Implies(tp.has(u), z3.And(IN_GROUP(a.grp_of(u), u), z3.Or(z3.Select(proc, a.grp_of(u)), z3.And(a.grp_of(u) == cur, z3.Select(it.processed, u))))))),
            ]

        self.loops[0] = LoopSpec(inv_outer, modifies=["schema_link_grp", "uuid", "link_node"], havoc_inplace=["self._toc_path"])
        self.loops[1] = LoopSpec(inv_inner, modifies=["uuid", "link_node"], havoc_inplace=["self._toc_path"])

    def setup(self, cx):
        o = LinksInitObj("TOCLinks", name="self")
        groups = SSet.fresh(TSGrp(), "schema_link_groups")
        a = A(self=o, raw_cont=LinksInitRaw(groups), toc_schemas=SObj("TocSchemasStub", name="toc_schemas"))
        a.groups = groups
        a.grp_of = z3.Function("group_holding_the_link_of", UU, SGrp)
        g, g2 = z3.Consts("ug ug2", SGrp)
        u = z3.Const("uu", UU)
        # TocInv: a uuid has at most one link (uuids are unique in the container), so the group holding it is a function of the uuid
        cx.assume(z3.ForAll([g, u], z3.Implies(IN_GROUP(g, u), a.grp_of(u) == g)))
        a.outer_it = None
        cx.ghost["li"] = a
        return a

    def raises(self, cx, a):
        return {}

    def ensures(self, cx, a, res):
        tp = a.self.fields.get("_toc_path")
        if not isinstance(tp, SMap):
            return [("table-initialised", z3.BoolVal(False), "")]
        u = z3.Const(fresh_name("eu"), UU)
        g = z3.Const(fresh_name("eg"), SGrp)
        return [
            ("every-stored-link-is-in-the-table", z3.ForAll([g, u], z3.Implies(z3.And(a.groups.has(g), IN_GROUP(g, u)), z3.And(tp.has(u), tp.get_term(u) == LINK_NODE_PATH(g, u)))), "after (re)opening, EVERY link node of EVERY schema group is known under its uuid with the link node's path — not only those of the last group read"),
            ("and-nothing-else", z3.ForAll([u], z3.Implies(tp.has(u), z3.And(a.groups.has(a.grp_of(u)), IN_GROUP(a.grp_of(u), u)))), "the table holds no uuid without a stored link (empty when the container has no links group)"),
            ("fields-wired", z3.BoolVal(a.self.fields.get("_raw") is a.raw_cont and a.self.fields.get("_toc_schemas") is a.toc_schemas), "raw container and schema table are the ones given"),
        ]


# ---- TOCLinks.repair_missing: links of copied / moved metadata objects -----------------------------------------------------------------
MNode = z3.DeclareSort("MetadataObjectNode")
UUID_IN_NAME = z3.Function("uuid_encoded_in_the_node_name", MNode, UU)  # StoredMetadata.from_node(n).uuid (its own contract)
NODE_PATH = z3.Function("path_of_the_node", MNode, S_)
TO_PATH = z3.Function("canonical_object_path_with_uuid", MNode, UU, S_)  # StoredMetadata.to_path() after obj.uuid = u (its own contract)


class TMNode:
    def sort(self):
        return MNode

    def wrap(self, t):
        return MNodeV(t)

    def unwrap(self, cx, v):
        return v.t


class MNodeV(SVal):
    def __init__(self, t):
        self.t = t

    def py_getattr(self, cx, n):
        if n == "name":
            return SStr(NODE_PATH(self.t))
        raise Unsupported("node attribute " + n)


class StoredStub(SVal):
    """StoredMetadata.from_node(node): a mutable record (uuid and node are reassigned by repair_missing)"""

    def __init__(self, n_t):
        self.n_t = n_t
        self.uuid = UuidV(UUID_IN_NAME(n_t))
        self.node = MNodeV(n_t)

    def py_getattr(self, cx, n):
        if n == "uuid":
            return self.uuid
        if n == "node":
            return self.node
        raise Unsupported("stored metadata attribute " + n)

    def py_setattr(self, cx, n, v):
        if n == "uuid":
            self.uuid = v
        elif n == "node":
            self.node = v
        else:
            raise Unsupported("assignment to stored metadata attribute " + n)

    def meth_to_path(self, cx):
        return SStr(TO_PATH(self.n_t, self.uuid.t))


class MovedNode(SVal):
    def __init__(self, path_t):
        self.path_t = path_t


class RepairRaw(SVal):
    def __init__(self, a):
        self.a = a

    def meth_move(self, cx, src, dst):
        a = self.a
        n = a.cur_node(cx)
        cx.oblige("moves-the-node-being-repaired", "call-pre", src.t == NODE_PATH(n), clause="the node renamed is the one being repaired")
        a.moved.py_setitem(cx, MNodeV(n), dst)

    def py_getitem(self, cx, p):
        return MovedNode(p.t)


class RepairMissing(FnSpec):
    file = "container/interface.py"
    qual = "TOCLinks.repair_missing"
    props = ("C06",)

    def init(self):
        self.bindings["cast"] = lambda cx, t, v: v
        self.bindings["H5DatasetLike"] = SClass("H5DatasetLike")
        def from_node(s, cx, n):
            cx.ghost["rm_cur"] = n.t  # the object being handled in this iteration (the collaborators below are told about it)
            return StoredStub(n.t)

        self.bindings["StoredMetadata"] = type("SM", (SVal,), {"meth_from_node": from_node})()

        def inv(cx, env, it):
            a = cx.ghost["rm"]
            L, tp = a.missing, a.self.fields["_toc_path"]
            j = z3.Int(fresh_name("rj"))
            n = z3.Const(fresh_name("rn"), MNode)
            n2 = z3.Const(fresh_name("rn2"), MNode)
            u = z3.Const(fresh_name("ru"), UU)
            nj = L.at_term(j)
            upd_case = z3.And(a.upd_flag.t, a.tp0.has(UUID_IN_NAME(nj)))
            return [
                ("handled-so-far", z3.ForAll([j], z3.Implies(z3.And(0 <= j, j < it.i), z3.If(upd_case, z3.And(a.updated.has(nj), a.updated.get_term(nj) == NODE_PATH(nj), z3.Not(a.registered.has(nj)), z3.Not(a.moved.has(nj))), self.renamed(a, nj))))),
                ("only-listed-nodes-touched", z3.ForAll([n], z3.Implies(z3.Or(a.updated.has(n), a.registered.has(n), a.moved.has(n)), z3.Exists([j], z3.And(0 <= j, j < it.i, L.at_term(j) == n))))),
                ("known-uuids-stay-known-new-ones-are-fresh", z3.ForAll([u], z3.And(z3.Implies(a.tp0.has(u), tp.has(u)), z3.Implies(z3.And(tp.has(u), z3.Not(a.tp0.has(u))), a.fresh.has(u))))),
                ("fresh-uuids-are-nobodys-old-uuid", z3.ForAll([u, n], z3.Implies(a.fresh.has(u), z3.And(z3.Not(a.tp0.has(u)), UUID_IN_NAME(n) != u)))),
                ("list-not-edited", a.live_missing.ext_eq(L)),
                ("new-uuids-pairwise-distinct", z3.ForAll([n, n2], z3.Implies(z3.And(a.registered.has(n), a.registered.has(n2), n != n2), a.registered.get_term(n) != a.registered.get_term(n2)))),
                ("registered-uuids-are-fresh-ones", z3.ForAll([n], z3.Implies(a.registered.has(n), a.fresh.has(a.registered.get_term(n))))),
            ]

        self.loops[0] = LoopSpec(inv, modifies=["node", "obj", "new_path"], havoc_inplace=["self._toc_path", "self.updated_log", "self.registered_log", "self.moved_log", "self.fresh_log"])

    @staticmethod
    def renamed(a, n):
        u = a.registered.get_term(n)
        return z3.And(a.registered.has(n), a.fresh.has(u), a.moved.has(n), a.moved.get_term(n) == TO_PATH(n, u), z3.Not(a.updated.has(n)))

    def setup(self, cx):
        o = SObj("TOCLinksRepair", name="self")
        tp = SMap.fresh(TUuid(), STR, "toc_path")
        o.fields["_toc_path"] = tp
        a = A(self=o)
        a.missing = SSeq.fresh(TMNode(), "missing_nodes")
        a.live_missing = a.missing.snapshot() if hasattr(a.missing, "snapshot") else a.missing
        a["missing"] = a.live_missing
        a.upd_flag = SBool(z3.Bool("update_flag"))
        a["update"] = a.upd_flag
        a.tp0 = tp.snapshot()
        a.updated, a.moved = SMap(TMNode(), STR, name="updated"), SMap(TMNode(), STR, name="moved")
        a.registered = SMap(TMNode(), TUuid(), name="registered")
        a.fresh = SSet(TUuid())
        o.fields["updated_log"], o.fields["moved_log"], o.fields["registered_log"], o.fields["fresh_log"] = a.updated, a.moved, a.registered, a.fresh
        o.fields["_raw"] = RepairRaw(a)
        i, j = z3.Ints("di dj")
        cx.assume(z3.ForAll([i, j], z3.Implies(z3.And(0 <= i, i < j, j < a.missing.n), a.missing.at_term(i) != a.missing.at_term(j))))  # find_missing lists each node once
        a.cur_node = lambda cx2: self._node_of(cx2, a)

        def upd(cx2, uuid, target):
            n = self._node_of(cx2, a)
            cx2.oblige("updates-the-link-of-that-objects-uuid", "call-pre", uuid.t == UUID_IN_NAME(n), clause="the link updated is the one of the uuid in the node's name")
            a.updated.py_setitem(cx2, MNodeV(n), target)

        def fresh_uuid(cx2):
            u = z3.Const(fresh_name("fresh_uuid"), UU)
            nn = z3.Const(fresh_name("fn"), MNode)
            cx2.assume(z3.And(z3.Not(tp.has(u)), z3.Not(a.tp0.has(u)), z3.Not(a.fresh.has(u)), z3.ForAll([nn], UUID_IN_NAME(nn) != u)))  # fresh_uuid: not in use (its loop); T6: no node name carries it
            a.fresh.py_call_method(cx2, "add", [UuidV(u)], {})
            tp.py_setitem(cx2, UuidV(u), SStr(z3.String(fresh_name("reserved"))))
            return UuidV(u)

        def register(cx2, obj):
            n = self._node_of(cx2, a)
            cx2.oblige("registers-the-renamed-object", "call-pre", z3.And(z3.BoolVal(isinstance(obj, StoredStub) and obj.n_t is n and isinstance(obj.node, MovedNode)), obj.node.path_t == TO_PATH(n, obj.uuid.t) if isinstance(obj.node, MovedNode) else z3.BoolVal(False)), clause="what is registered is this object, with its new uuid, at its new path")
            a.registered.py_setitem(cx2, MNodeV(n), obj.uuid)

        o.fields["update"], o.fields["fresh_uuid"], o.fields["register"] = upd, fresh_uuid, register
        cx.ghost["rm"] = a
        return a

    @staticmethod
    def _node_of(cx, a):
        fr_node = cx.ghost.get("rm_cur")
        if fr_node is None:
            raise Unsupported("collaborator called outside the handling of a node")
        return fr_node

    def raises(self, cx, a):
        return {}

    def ensures(self, cx, a, res):
        L = a.missing
        j = z3.Int(fresh_name("ej"))
        n = z3.Const(fresh_name("en"), MNode)
        j2 = z3.Int(fresh_name("ek"))
        nj = L.at_term(j)
        upd_case = z3.And(a.upd_flag.t, a.tp0.has(UUID_IN_NAME(nj)))
        return [
            ("moved-objects-keep-their-uuid-and-get-their-link-retargeted", z3.ForAll([j], z3.Implies(z3.And(0 <= j, j < L.n, upd_case), z3.And(a.updated.has(nj), a.updated.get_term(nj) == NODE_PATH(nj), z3.Not(a.registered.has(nj)), z3.Not(a.moved.has(nj))))), "with update=True an object whose uuid the TOC knows keeps its name; its existing link is pointed at the object's current path (move)"),
            ("all-others-get-a-fresh-uuid-a-new-name-and-a-new-link", z3.ForAll([j], z3.Implies(z3.And(0 <= j, j < L.n, z3.Not(upd_case)), self.renamed(a, nj))), "every other listed object (copy, or unknown uuid) gets a uuid that was in use nowhere, is renamed to the canonical path for it, and is registered under it — the original's link is never touched"),
            ("fresh-uuids-pairwise-distinct", z3.ForAll([j, j2], z3.Implies(z3.And(0 <= j, j < j2, j2 < L.n, a.registered.has(L.at_term(j)), a.registered.has(L.at_term(j2))), a.registered.get_term(L.at_term(j)) != a.registered.get_term(L.at_term(j2)))), "no two objects end up with the same uuid"),
            ("nothing-else-touched", z3.ForAll([n], z3.Implies(z3.Or(a.updated.has(n), a.registered.has(n), a.moved.has(n)), z3.Exists([j], z3.And(0 <= j, j < L.n, L.at_term(j) == n)))), "only the listed objects are renamed, registered or retargeted"),
        ]


class FreshUuid(FnSpec):
    """fresh_uuid(): a uuid no link uses, reserved at once (termination is not claimed)"""

    file = "container/interface.py"
    qual = "TOCLinks.fresh_uuid"
    props = ("C06",)

    def init(self):
        from pyvc.containers import TOpt

        self.TOS = TOpt(STR)
        self.bindings["uuid1"] = lambda cx: UuidV(z3.Const(fresh_name("uuid1"), UU))

        def inv(cx, env, it):
            a = cx.ghost["fu"]
            tp = a.self.fields["_toc_path"]
            fresh = env["fresh"]
            ft = fresh.t if isinstance(fresh, SBool) else z3.BoolVal(bool(fresh))
            out = [("table-untouched-while-searching", tp.same(cx, a.tp0))]
            ret = env.lookup("ret") if hasattr(env, "lookup") else None
            if isinstance(ret, UuidV):
                out.append(("a-candidate-accepted-is-unused", z3.Implies(ft, z3.Not(tp.has(ret.t)))))
            else:
                out.append(("no-candidate-yet-means-not-accepted", z3.Not(ft)))
            return out

        self.loops[0] = LoopSpec(inv, modifies=["ret", "fresh"], bound_by_first_iteration={"ret": lambda cx: UuidV(z3.Const(fresh_name("candidate"), UU))})

    def setup(self, cx):
        o = SObj("TOCLinksFresh", name="self")
        tp = SMap.fresh(TUuid(), self.TOS, "toc_path")
        o.fields["_toc_path"] = tp
        a = A(self=o)
        a.tp0 = tp.snapshot()
        cx.ghost["fu"] = a
        return a

    def raises(self, cx, a):
        return {}

    def ensures(self, cx, a, res):
        tp = a.self.fields["_toc_path"]
        if not isinstance(res, UuidV):
            return [("a-uuid", z3.BoolVal(False), "")]
        k = z3.Const(fresh_name("fk"), UU)
        return [
            ("not-in-use-before", z3.Not(a.tp0.has(res.t)), "the uuid handed out is not the uuid of any link known to the container"),
            ("reserved-and-nothing-else-changed", z3.ForAll([k], z3.And(tp.has(k) == z3.Or(a.tp0.has(k), k == res.t), z3.Implies(a.tp0.has(k), tp.get_term(k) == a.tp0.get_term(k)))), "it is reserved in the table at once (a second call cannot hand it out again); all other entries are untouched"),
        ]


# ---- TOCLinks.find_missing: which metadata objects below a group the TOC does not know --------------------------------------------------
IS_META_PATH = z3.Function("path_has_a_metador_meta_segment", S_, z3.BoolSort())  # M.is_internal_path(path, METADOR_META_PREF)
IS_META_BASE = z3.Function("path_is_a_metadata_directory", S_, z3.BoolSort())  # M.is_meta_base_path (its own contract, specs/metapaths.py)
RESOLVED = z3.Function("path_the_link_of_uuid_points_to", UU, S_)  # TOCLinks.resolve


class FMNode(SVal):
    def __init__(self, t):
        self.t = t

    def py_getattr(self, cx, n):
        if n == "name":
            return SStr(NODE_PATH(self.t))
        raise Unsupported("node attribute " + n)


class FMStored(SVal):
    def __init__(self, n_t):
        self.n_t = n_t

    def py_getattr(self, cx, n):
        if n == "uuid":
            return UuidV(UUID_IN_NAME(self.n_t))
        raise Unsupported("stored metadata attribute " + n)


class FMCollected(SVal):
    def __init__(self):
        self.parts = []


class FMGroup(SVal):
    def __init__(self, start_path):
        self.start_path = start_path

    def meth_visititems(self, cx, cb):
        from pyvc.api import read_guarded_append_callback

        a = cx.ghost["fm"]
        target, pred = read_guarded_append_callback(cx.run.interp, cx, cb, cx.run.spec, lambda t: FMNode(t))
        if target is not a.collected:
            raise ContractStale("the visit callback appends to something else than the result list")
        a.collected.parts.append((self.start_path, pred))


class FindMissing(FnSpec):
    file = "container/interface.py"
    qual = "TOCLinks.find_missing"
    props = ("C06",)

    def init(self):
        class MNS(SVal):
            def py_getattr(s, cx, n):
                if n == "METADOR_META_PREF":
                    return "metador_meta_"
                if n == "is_internal_path":
                    return lambda cx2, p, pref: SBool(IS_META_PATH(p.t)) if pref == "metador_meta_" else (_ for _ in ()).throw(Unsupported("another prefix"))
                if n == "is_meta_base_path":
                    return lambda cx2, p: SBool(IS_META_BASE(p.t))
                raise Unsupported("M." + n)

        self.bindings["M"] = MNS()
        self.bindings["StoredMetadata"] = type("SM", (SVal,), {"meth_from_node": lambda s, cx, n: FMStored(n.t)})()

    def empty_container(self, cx, name, ann):
        return cx.ghost["fm"].collected if name == "missing" else None

    def setup(self, cx):
        o = SObj("TOCLinksFind", name="self")
        tp = SMap.fresh(TUuid(), STR, "toc_path")
        o.fields["_toc_path"] = tp
        o.fields["resolve"] = lambda cx2, u: SStr(RESOLVED(u.t))
        start = z3.String("start_group_path")

        class Raw(SVal):
            def meth_require_group(s, cx2, p):
                if not z3.eq(p.t, start):
                    raise Unsupported("require_group of another path")
                return FMGroup(start)

        o.fields["_raw"] = Raw()

        class PathObj(SVal):
            def py_getattr(s, cx2, n):
                if n == "name":
                    return SStr(start)
                raise Unsupported("group attribute " + n)

        a = A(self=o, path=PathObj())
        a.tp, a.start = tp, start
        a.collected = FMCollected()
        cx.ghost["fm"] = a
        return a

    def raises(self, cx, a):
        return {}

    def ensures(self, cx, a, res):
        if res is not a.collected or len(a.collected.parts) != 1:
            return [("the-collected-list", z3.BoolVal(False), "returns the list filled by one visit of the given group")]
        start, pred = a.collected.parts[0]
        n = z3.Const(fresh_name("fmn"), MNode)
        u = UUID_IN_NAME(n)
        want = z3.And(IS_META_PATH(NODE_PATH(n)), z3.Not(IS_META_BASE(NODE_PATH(n))), z3.Or(z3.Not(a.tp.has(u)), RESOLVED(u) != NODE_PATH(n)))
        return [
            ("visits-the-given-group", z3.BoolVal(z3.eq(start, a.start)), "the nodes considered are those below the given group"),
            ("exactly-the-metadata-objects-the-toc-does-not-point-at", z3.ForAll([n], pred(n) == want), "a visited node is reported exactly when it is a metadata object (inside a metador_meta_ directory, not the directory itself) whose uuid the TOC does not know — or knows as pointing somewhere else (a copy carrying the original's uuid)"),
        ]


# ---- TOCLinks.find_broken / resolve ----------------------------------------------------------------------------------------------------------------
TARGET_EXISTS = z3.Function("target_path_exists_in_the_container", S_, z3.BoolSort())


class UuidBag(SVal):
    """the list `broken`: only which uuids it holds matters (each key is visited once, so no duplicates)"""

    def __init__(self):
        self.s = SSet(TUuid())

    def meth_append(self, cx, u):
        self.s.py_call_method(cx, "add", [u], {})

    def py_iter_schema(self, cx):
        from pyvc.containers import SetIter

        return SetIter(TUuid(), self.s.dom, lambda t: UuidV(t))

    def havoc_inplace(self, cx, hint="broken"):
        self.s.havoc_inplace(cx, hint)


class FindBroken(FnSpec):
    file = "container/interface.py"
    qual = "TOCLinks.find_broken"
    props = ("C06",)

    def init(self):
        def inv_scan(cx, env, it):
            a = cx.ghost["fb"]
            u = z3.Const(fresh_name("bu"), UU)
            return [("broken-so-far", z3.ForAll([u], a.bag.s.has(u) == z3.And(z3.Select(it.processed, u), z3.Not(TARGET_EXISTS(RESOLVED(u))))))]

        def inv_repair(cx, env, it):
            a = cx.ghost["fb"]
            u = z3.Const(fresh_name("ru"), UU)
            return [("unregistered-so-far", z3.ForAll([u], a.unreg.has(u) == z3.Select(it.processed, u))), ("result-not-edited", a.bag.s.same(cx, a.bag_at_repair) if a.get("bag_at_repair") is not None else z3.BoolVal(True))]

        self.loops[("iter", "self._toc_path.keys()")] = LoopSpec(inv_scan, modifies=["uuid", "target"], havoc_inplace=["broken"])
        self.loops[("iter", "broken")] = LoopSpec(inv_repair, modifies=["uuid"], havoc_inplace=["self.unregistered_log"])

    def empty_container(self, cx, name, ann):
        return cx.ghost["fb"].bag if name == "broken" else None

    def setup(self, cx):
        o = SObj("TOCLinksFind", name="self")
        tp = SMap.fresh(TUuid(), STR, "toc_path")
        o.fields["_toc_path"] = tp
        o.fields["resolve"] = lambda cx2, u: SStr(RESOLVED(u.t))

        class Raw(SVal):
            def py_contains(s, cx2, p):
                return SBool(TARGET_EXISTS(p.t))

        o.fields["_raw"] = Raw()
        unreg = SSet(TUuid())
        o.fields["unregistered_log"] = unreg
        o.fields["unregister"] = lambda cx2, u: unreg.py_call_method(cx2, "add", [u], {})
        rep = SBool(z3.Bool("repair_flag"))
        a = A(self=o, repair=rep)
        a.tp, a.bag, a.unreg, a.rep = tp, UuidBag(), unreg, rep
        a.bag_at_repair = None
        cx.ghost["fb"] = a
        return a

    def raises(self, cx, a):
        return {}

    def ensures(self, cx, a, res):
        u = z3.Const(fresh_name("eu"), UU)
        want = z3.And(a.tp.has(u), z3.Not(TARGET_EXISTS(RESOLVED(u))))
        return [
            ("exactly-the-links-whose-target-is-gone", z3.And(z3.BoolVal(res is a.bag), z3.ForAll([u], a.bag.s.has(u) == want)), "reported are exactly the uuids of links pointing at a path that does not exist in the container"),
            ("repaired-only-when-asked-and-then-exactly-those", z3.ForAll([u], a.unreg.has(u) == z3.And(a.rep.t, want)), "with repair=True exactly these links are unregistered; without it nothing is touched"),
        ]


def add_tocreg(reg):
    reg.set_class_home("TOCPackages", "container/interface.py")
    reg.attr_bindings[("PkgInfo", "plugins")] = lambda cx, o: PluginsStub(o.t)
    reg.method_bindings[("TocSchemasStub", "_register")] = lambda cx, o, ref: cx.effect("schemas-register", ref)
    reg.method_bindings[("TocSchemasStub", "_unregister")] = lambda cx, o, ref: cx.effect("schemas-unregister", ref)
    reg.set_class_home("TOCLinks", "container/interface.py")
    reg.set_class_home("TOCLinksRepair", "container/interface.py", "TOCLinks")
    reg.set_class_home("TOCLinksFresh", "container/interface.py", "TOCLinks")
    reg.set_class_home("TOCLinksFind", "container/interface.py", "TOCLinks")
    reg.attr_bindings[("PkgInfo", "name")] = lambda cx, o: SStr(INFO_NAME(o.t))
    reg.attr_bindings[("PkgInfo", "version")] = lambda cx, o: VER.wrap(INFO_VER(o.t))
    reg.attr_bindings[("SchemaRef", "name")] = lambda cx, o: SStr(REF_NAME(o.t))
    reg.attr_bindings[("SchemaRef", "version")] = lambda cx, o: VER.wrap(REF_VER(o.t))
    specs = [AddProviders(), PkgRegister(), PkgUnregister(), SchemaRegister(), SchemaUnregister(), LinksRegister(), LinksUnregister(), LinksUpdate(), SchemasInit(), PackagesInit(), LinksInit(), RepairMissing(), FreshUuid(), FindMissing(), FindBroken()]
    for s in specs:
        reg.add(s)
    return specs


def add_links_only(reg):
    """TOCLinks.update alone (for checks that only depend on how a link is re-targeted, e.g. the driver relation C09)"""
    reg.set_class_home("TOCLinks", "container/interface.py")
    return [LinksUpdate()]
