"""IH5Group: the helpers around create_group / create_dataset that C01 and C09 rest on — _require_node, require_group,
require_dataset, __setitem__, __init__, visit, _create_virtual."""
from __future__ import annotations

import z3

from pyvc.api import A, FnSpec
from pyvc.containers import SObj
from pyvc.engine import SClass
from pyvc.values import SBool, SInt, SMaybe, SStr, SVal, Unsupported

S, B, I = z3.StringSort(), z3.BoolSort(), z3.IntSort()
FOUND = z3.Bool("get_finds_something")
IS_GROUP = z3.Bool("found_object_is_a_group")


class FoundNode(SVal):
    def py_isinstance(self, cx, c):
        if c == "IH5Group":
            return IS_GROUP
        if c == "IH5Dataset":
            return z3.Not(IS_GROUP)
        raise Unsupported("isinstance against " + str(c))

    def py_is_none(self, cx):
        return False


class RequireNode(FnSpec):
    file = "ih5/overlay.py"
    qual = "IH5Group._require_node"
    props = ("C01", "C09")

    def init(self):
        self.bindings["type"] = lambda cx, o: type("T", (SVal,), {"py_getattr": lambda s, cx2, n: "name-of-the-type"})()

    def setup(self, cx):
        me = SObj("IH5GroupObj", name="self")
        self.node = FoundNode()
        me.fields["get"] = lambda cx2, n: (cx2.effect("get", n), SMaybe(z3.Not(FOUND), self.node))[1]
        want_group = cx.choose(2) == 0
        a = A(self=me, name=SStr.fresh("name"), node_type=SClass("IH5Group" if want_group else "IH5Dataset"))
        a.want_group = want_group
        return a

    def fits(self, a):
        return IS_GROUP if a.want_group else z3.Not(IS_GROUP)

    def raises(self, cx, a):
        return {"TypeError": z3.And(FOUND, z3.Not(self.fits(a)))}

    def ensures(self, cx, a, res):
        gets = [e for e in cx.fx if e[0] == "get"]
        looked = len(gets) == 1 and gets[0][1] is a.name
        if isinstance(res, SMaybe):
            res = res.val if res.val is self.node else res
        return [
            ("looked-up-under-that-name", z3.BoolVal(looked), ""),
            ("the-existing-node-of-the-wanted-kind-or-nothing", z3.If(FOUND, z3.And(self.fits(a), z3.BoolVal(res is self.node)), z3.BoolVal(res is None)), "an existing node is handed back only if it is of the wanted kind; an object of the other kind is a TypeError (never silently replaced); nothing there gives None"),
        ]


class Require(FnSpec):
    """require_group / require_dataset"""

    file = "ih5/overlay.py"
    props = ("C01", "C09")

    def __init__(self, kind):
        self.kind = kind
        self.qual = "IH5Group.require_" + kind
        super().__init__()

    def init(self):
        self.bindings["IH5Group"] = SClass("IH5Group")
        self.bindings["IH5Dataset"] = SClass("IH5Dataset")

    def setup(self, cx):
        me = SObj("IH5GroupObj", name="self")
        self.node = FoundNode()

        def req(cx2, name, t):
            cx2.effect("require-node", name, t)
            return SMaybe(z3.Not(z3.Bool("a_fitting_node_exists")), self.node)

        me.fields["_require_node"] = req
        me.fields["create_group"] = lambda cx2, n: (cx2.effect("create", "group", (n,), {}), "created-group")[1]
        me.fields["create_dataset"] = lambda cx2, n, *a_, **kw: (cx2.effect("create", "dataset", (n,) + a_, kw), "created-dataset")[1]
        a = A(self=me, name=SStr.fresh("name"))
        if self.kind == "dataset":
            a["__varargs__"] = ["shape-arg"]
            a["__kwargs__"] = {"data": "data-arg"}
        return a

    def raises(self, cx, a):
        return {}

    def ensures(self, cx, a, res):
        rq = [e for e in cx.fx if e[0] == "require-node"]
        cr = [e for e in cx.fx if e[0] == "create"]
        cls = "IH5Group" if self.kind == "group" else "IH5Dataset"
        asked = len(rq) == 1 and rq[0][1] is a.name and isinstance(rq[0][2], SClass) and rq[0][2].name == cls
        exists = z3.Bool("a_fitting_node_exists")
        if cr:
            args_ok = cr[0][1] == self.kind and cr[0][2][0] is a.name and (self.kind == "group" or (cr[0][2][1:] == ("shape-arg",) and cr[0][3] == {"data": "data-arg"}))
            body = z3.And(z3.Not(exists), z3.BoolVal(len(cr) == 1 and bool(args_ok) and res == "created-" + self.kind))
        else:
            r = res.val if isinstance(res, SMaybe) else res
            body = z3.And(exists, z3.BoolVal(r is self.node))
        return [("asks-for-the-right-kind", z3.BoolVal(bool(asked)), ""), ("existing-node-or-a-newly-created-one", body, "an existing node of that kind is handed back untouched; only if there is nothing, one is created through create_%s with the caller's arguments" % self.kind)]


class GroupSetitem(FnSpec):
    file = "ih5/overlay.py"
    qual = "IH5Group.__setitem__"
    props = ("C01", "C09", "C17")

    def setup(self, cx):
        me = SObj("IH5GroupObj", name="self")
        me.fields["create_dataset"] = lambda cx2, p, **kw: (cx2.effect("create-dataset", p, kw), "created")[1]
        return A(self=me, path=SStr.fresh("path"), value="the-value")

    def raises(self, cx, a):
        return {}

    def ensures(self, cx, a, res):
        c = [e for e in cx.fx]
        ok = len(c) == 1 and c[0][0] == "create-dataset" and c[0][1] is a.path and c[0][2] == {"data": "the-value"} and res == "created"
        return [("group-item-assignment-is-create-dataset-with-that-data", z3.BoolVal(bool(ok)), "group[path] = value stores the value through create_dataset(path, data=value) — all its guards apply, the value is passed unmodified")]


class GroupInit(FnSpec):
    file = "ih5/overlay.py"
    qual = "IH5Group.__init__"
    props = ("C01",)

    def setup(self, cx):
        me = SObj("IH5GroupObj", name="self")
        root = cx.choose(2) == 1
        given = cx.choose(2) == 1
        a = A(self=me, record="the-record", gpath="/" if root else SStr(z3.String("gpath")), creation_idx=SInt(z3.Int("creation_idx")) if given else None)
        a.root, a.given = root, given
        if not root:
            cx.assume(a.gpath.t != z3.StringVal("/"))
        return a

    def raises(self, cx, a):
        return {"ValueError": z3.BoolVal(not a.root and not a.given)}

    def on_raise(self, cx, a, exc):
        return [("nothing-initialised", z3.BoolVal(not cx.fx), "")]

    def ensures(self, cx, a, res):
        c = [e[:-1] for e in cx.fx]
        ok = len(c) == 1 and c[0][0] == "node-init" and c[0][1] == "the-record" and c[0][2] is a.gpath and c[0][4] is False
        idx = c[0][3] if ok else None
        idx_ok = (idx == 0) if a.root else (idx is a.creation_idx)
        return [("the-root-group-always-starts-at-the-base-container", z3.BoolVal(bool(ok and idx_ok)), "the root group looks through ALL containers (creation index 0, whatever was passed); any other group keeps the index it was found at; it is a group node, not an attribute set")]


class Visit(FnSpec):
    file = "ih5/overlay.py"
    qual = "IH5Group.visit"
    props = ("C01", "C09")

    def setup(self, cx):
        from pyvc.engine import Closure

        me = SObj("IH5GroupObj", name="self")
        me.fields["visititems"] = lambda cx2, f: (cx2.effect("visititems", f), "visit-result")[1]
        a = A(self=me, func=lambda cx2, x: (cx2.effect("user", x), "user-result")[1])
        a.Closure = Closure
        return a

    def raises(self, cx, a):
        return {}

    def ensures(self, cx, a, res):
        v = [e for e in cx.fx if e[0] == "visititems"]
        ok = len(v) == 1 and isinstance(v[0][1], a.Closure) and res == "visit-result"
        if not ok:
            return [("through-visititems", z3.BoolVal(False), "")]
        # the callback handed to visititems: called with (name, node) it calls the user's function with the name alone
        before = len(cx.fx)
        r = cx.run.interp.call_closure(cx, v[0][1], ["a-name", "a-node"], {})
        calls = [e for e in cx.fx[before:] if e[0] == "user"]
        return [("through-visititems-with-the-name-only", z3.BoolVal(len(calls) == 1 and calls[0][1] == "a-name" and r == "user-result"), "visit(f) is visititems with a callback that passes the visited name (alone) to f and hands its result back")]


# ---- _create_virtual ------------------------------------------------------------------------------------------------------------------------------------------
LAST_PATH = z3.String("gpath_of_the_deepest_existing_node")
LAST_CIDX = z3.Int("container_index_of_the_deepest_existing_node")
LAST_IS_DEL = z3.Bool("deepest_existing_node_is_a_deletion_marker")
NFILES = z3.Int("number_of_open_containers")
ABSP = z3.Function("abs_path_of", S, S)
RELP = z3.Function("path_relative_to_the_deepest_existing_node", S, S)


class LastNode(SVal):
    def py_getattr(self, cx, n):
        if n == "_gpath":
            return SStr(LAST_PATH)
        if n == "_cidx":
            return SInt(LAST_CIDX)
        if n == "_rel_path":
            return lambda cx2, p: SStr(RELP(p.t))
        raise Unsupported("node attribute " + n)


class NodeSeqTok(SVal):
    def py_getitem(self, cx, i):
        if i != -1:
            raise Unsupported("another element of the node sequence than the last")
        return LastNode()


class NewestTok(SVal):
    def meth_create_group(self, cx, p):
        cx.effect("raw-create-group", p)


class FilesTok(SVal):
    def py_getitem(self, cx, i):
        if i != -1:
            raise Unsupported("another container than the newest")
        return NewestTok()


class CreateVirtual(FnSpec):
    file = "ih5/overlay.py"
    qual = "IH5Group._create_virtual"
    props = ("C01", "C09")

    def init(self):
        self.bindings["_node_is_del_mark"] = lambda cx, n: SBool(LAST_IS_DEL) if isinstance(n, LastNode) else (_ for _ in ()).throw(Unsupported("marker test of something else"))

    def setup(self, cx):
        me = SObj("IH5GroupObj", name="self")
        me.fields["_node_seq"] = lambda cx2, p: (cx2.effect("node-seq", p), NodeSeqTok())[1]
        me.fields["_abs_path"] = lambda cx2, p: SStr(ABSP(p.t))
        me.fields["_last_idx"] = SInt(NFILES - 1)
        me.fields["_files"] = FilesTok()
        me.fields["create_group"] = lambda cx2, p: cx2.effect("create-group", p)
        return A(self=me, path=SStr(z3.String("path")))

    def raises(self, cx, a):
        return {}

    def ensures(self, cx, a, res):
        p = ABSP(a.path.t)
        there = z3.And(LAST_PATH == p, z3.Not(LAST_IS_DEL))
        in_newest = z3.And(there, LAST_CIDX == NFILES - 1)
        missing = z3.Or(LAST_PATH != p, LAST_IS_DEL)
        cg = [e for e in cx.fx if e[0] == "create-group"]
        rg = [e for e in cx.fx if e[0] == "raw-create-group"]
        rt = z3.BoolVal(res) if isinstance(res, bool) else res.t if isinstance(res, SBool) else None
        if rt is None:
            return [("a-truth-value", z3.BoolVal(False), "")]
        rel = RELP(p)
        first = z3.If(z3.Contains(rel, z3.StringVal("/")), z3.SubString(rel, 0, z3.IndexOf(rel, z3.StringVal("/"), 0)), rel)
        out = [
            ("false-iff-a-live-node-sits-there-in-the-newest-container", rt == z3.Not(in_newest), "nothing is done (False) exactly when a live node already exists at the path in the newest container"),
            ("creates-only-when-nothing-live-is-there", z3.BoolVal(bool(cg)) == missing, "an overwriting group is created exactly when the path shows nothing (absent, or a deletion marker)"),
        ]
        if cg:
            ok = len(cg) == 1 and isinstance(cg[0][1], SStr)
            out.append(("overwriting-group-right-below-the-deepest-existing-node", z3.BoolVal(False) if not ok else cg[0][1].t == z3.Concat(LAST_PATH, z3.StringVal("/"), first), "the first missing segment is created through create_group (so it REPLACES whatever older containers show there)"))
            out.append(("deeper-carriers-plain-in-the-newest-container", z3.BoolVal(len(rg) <= 1) if not rg else z3.And(z3.Contains(rel, z3.StringVal("/")), rg[0][1].t == p if isinstance(rg[0][1], SStr) else z3.BoolVal(False)), "segments below it are plain carrier groups made directly in the newest container, up to the path itself"))
            if not rg:
                out.append(("no-deeper-carriers-for-a-single-segment", z3.Not(z3.Contains(rel, z3.StringVal("/"))), ""))
        else:
            out.append(("nothing-else-written", z3.BoolVal(not rg), ""))
        return out


def add_ovlgroup(reg):
    reg.set_class_home("IH5GroupObj", "ih5/overlay.py", "IH5Group")

    def node_init(cx, obj, record, gpath, cidx, attrs=False):
        cx.effect("node-init", record, gpath, cidx, attrs)

    reg.method_bindings[("IH5Group", "super.__init__")] = node_init
    return [RequireNode(), Require("group"), Require("dataset"), GroupSetitem(), GroupInit(), Visit(), CreateVirtual(), VisitItems()]  # bodies verified on their own


# ---- visititems: pre-order walk of the overlay view with an explicit stack ----------------------------------------------------------------------------------
from pyvc.api import LoopSpec  # noqa: E402
from pyvc.values import fresh_name  # noqa: E402

ONode = z3.DeclareSort("OverlayNodeV")
NS = z3.SeqSort(ONode)
KIDS = z3.Function("children_in_listing_order", ONode, NS)  # node._get_children() (alphabetical: kernel contract)
REV = z3.Function("reversed_list", NS, NS)
IS_GRP = z3.Function("node_is_a_group", ONode, B)
GPATH = z3.Function("gpath_of", ONode, S)
RELPATH = z3.Function("path_relative_to_the_visited_group", S, S)  # self._rel_path (its own contract)
STOP = z3.Function("callback_returns_a_value_for", ONode, B)
PRE = z3.Function("preorder_of", ONode, NS)  # definition: [n] ++ (walk of the reversed children if n is a group)
F = z3.Function("walk_of_stack", NS, NS)  # definition: the nodes visited when working off a stack (top = last element)
SELF_N = z3.Const("visited_group", ONode)
EMPTY_NS = z3.Empty(NS)
NOSTOP = z3.Function("callback_answered_for_none_of", NS, B)  # definition: NOSTOP([]) ; NOSTOP(s ++ [n]) = NOSTOP(s) and not STOP(n)

T_VISIT = [
    "definition: walk_of_stack([]) = [], walk_of_stack([n]) = preorder_of(n), walk_of_stack(a ++ b) = walk_of_stack(b) ++ walk_of_stack(a) (the top of the stack is its last element); preorder_of(n) = [n] ++ walk_of_stack(reversed(children(n))) for a group, [n] otherwise — unfolded per instance",
    "definition: callback_answered_for_none_of([]) holds; for s ++ [n] it holds iff it holds for s and the callback returns None for n — unfolded per instance",
    "T4 list(reversed(xs)) is xs backwards; stack.pop() takes the last element; stack += ys appends",
]


class NodeV(SVal):
    def __init__(self, t):
        self.t = t

    def py_getattr(self, cx, n):
        if n == "_gpath":
            return SStr(GPATH(self.t))
        if n == "_get_children":
            return lambda cx2: KidsTok(self.t)
        raise Unsupported("overlay node attribute " + n)

    def py_isinstance(self, cx, c):
        if c == "IH5Group":
            return IS_GRP(self.t)
        raise Unsupported("isinstance against " + str(c))


class KidsTok(SVal):
    def __init__(self, n):
        self.n = n


class RevTok(SVal):
    def __init__(self, t):
        self.t = t


class StackV(SVal):
    pytype = "list"

    def __init__(self, t):
        self.t = t

    def py_truth(self, cx):
        return z3.Length(self.t) > 0

    def meth_pop(self, cx):
        n = z3.Length(self.t)
        cx.decide_or_fail(n > 0, "IndexError", "pop from empty list")
        top = self.t[n - 1]
        self.t = z3.Extract(self.t, 0, n - 1)
        return NodeV(top)

    def py_add(self, cx, o):
        if isinstance(o, RevTok):
            return StackV(z3.Concat(self.t, o.t))
        if isinstance(o, KidsTok):
            return StackV(z3.Concat(self.t, KIDS(o.n)))
        raise Unsupported("stack + something else")

    def havoc_inplace(self, cx, hint="s"):
        self.t = z3.Const(fresh_name(hint), NS)

    def fresh_like(self, cx, hint="s"):
        return StackV(z3.Const(fresh_name(hint), NS))


class SeqHolder(SVal):
    def __init__(self):
        self.t = EMPTY_NS

    def havoc_inplace(self, cx, hint="v"):
        self.t = z3.Const(fresh_name(hint), NS)


def total():
    return F(REV(KIDS(SELF_N)))


class VisitItems(FnSpec):
    file = "ih5/overlay.py"
    qual = "IH5Group.visititems"
    props = ("C01", "C09", "C06")

    def init(self):
        self.bindings["IH5Group"] = SClass("IH5Group")
        self.bindings["reversed"] = lambda cx, x: RevTok(REV(KIDS(x.n))) if isinstance(x, KidsTok) else (_ for _ in ()).throw(Unsupported("reversed() of something else"))
        self.bindings["list"] = lambda cx, x: StackV(x.t) if isinstance(x, RevTok) else StackV(KIDS(x.n)) if isinstance(x, KidsTok) else (_ for _ in ()).throw(Unsupported("list() of something else"))

        def inv(cx, env, it):
            a = cx.ghost["vi"]
            st = env["stack"]
            if not isinstance(st, StackV):
                return [("a-stack-of-nodes", z3.BoolVal(False))]
            vis = a.vis.t
            i = z3.Int(fresh_name("vi_i"))
            # definitional unfoldings for the element on top (used by the preservation proof)
            n = z3.Length(st.t)
            top, rest = st.t[n - 1], z3.Extract(st.t, 0, n - 1)
            kids = REV(KIDS(top))
            cx.assume(z3.Implies(n > 0, z3.And(F(st.t) == z3.Concat(PRE(top), F(rest)), PRE(top) == z3.If(IS_GRP(top), z3.Concat(z3.Unit(top), F(kids)), z3.Unit(top)), F(z3.Concat(rest, kids)) == z3.Concat(F(kids), F(rest)))))
            cx.assume(z3.And(F(EMPTY_NS) == EMPTY_NS, NOSTOP(EMPTY_NS)))
            return [
                ("visited-then-what-the-stack-still-yields-is-the-whole-walk", z3.Concat(vis, F(st.t)) == total()),
                ("no-earlier-node-stopped-the-walk", NOSTOP(vis)),
            ]

        self.loops[0] = LoopSpec(inv, modifies=["stack", "curr", "val"], havoc_inplace=["self.visited_log"])

    def setup(self, cx):
        me = SObj("IH5GroupObj", name="self")
        vis = SeqHolder()
        me.fields["visited_log"] = vis
        me.fields["_guard_open"] = lambda cx2: cx2.py_raise("KeyError", "Record is not open or accessible!") if cx2.decide(z3.Not(z3.Bool("node_is_usable"))) else None
        me.fields["_get_children"] = lambda cx2: KidsTok(SELF_N)
        me.fields["_rel_path"] = lambda cx2, p: SStr(RELPATH(p.t))

        def func(cx2, name, node):
            ok = isinstance(name, SStr) and isinstance(node, NodeV)
            cx2.oblige("callback-gets-the-relative-path-of-the-node-it-gets", "call-pre", z3.BoolVal(False) if not ok else name.t == RELPATH(GPATH(node.t)), clause="every visited node is handed over under its path relative to the visited group")
            if ok:
                a.prev = vis.t
                vis.t = z3.Concat(vis.t, z3.Unit(node.t))
                cx2.assume(NOSTOP(vis.t) == z3.And(NOSTOP(a.prev), z3.Not(STOP(node.t))))  # definition of NOSTOP, this instance
                return SMaybe(z3.Not(STOP(node.t)), ("value-for", node.t))
            return None

        a = A(self=me, func=func)
        a.vis, a.prev = vis, None
        cx.ghost["vi"] = a
        return a

    def raises(self, cx, a):
        return {"KeyError": z3.Not(z3.Bool("node_is_usable"))}

    def on_raise(self, cx, a, exc):
        return [("a-closed-record-visits-nothing", a.vis.t == EMPTY_NS, "")]

    def ensures(self, cx, a, res):
        vis = a.vis.t
        i = z3.Int(fresh_name("ve_i"))
        n = z3.Length(vis)
        if res is None:
            return [
                ("every-node-of-the-view-below-the-group-visited-once-in-pre-order", vis == total(), "without a stop the callback has seen exactly the pre-order walk of the overlay view below the group: each child in listing order, each group followed by its own walk — deleted entries never (they are not among the children), nothing twice"),
                ("nobody-stopped", NOSTOP(vis), ""),
            ]
        val = res.val if isinstance(res, SMaybe) else res
        ok = isinstance(val, tuple) and val[0] == "value-for"
        return [
            ("stops-at-the-first-node-the-callback-answers-for-and-returns-that-answer", z3.BoolVal(False) if not ok or getattr(a, "prev", None) is None else z3.And(vis == z3.Concat(a.prev, z3.Unit(val[1])), STOP(val[1]), NOSTOP(a.prev), z3.PrefixOf(vis, total())), "the walk stops at the first node for which the callback returns something, returns exactly that, and has visited exactly the pre-order walk up to that node"),
        ]


def lemma_listing_order():
    """The walk promised by visititems, walk_of_stack(reversed(children)), is the pre-order walk in LISTING order: for a single child it is that
    child's pre-order, and it distributes over concatenation of child lists in the same order (so by induction on the number of children it is
    preorder_of(k1) ++ preorder_of(k2) ++ ...)."""
    a, b = z3.Consts("ll_a ll_b", NS)
    n = z3.Const("ll_n", ONode)
    yield "single-child", [REV(z3.Unit(n)) == z3.Unit(n), F(z3.Unit(n)) == PRE(n)], F(REV(z3.Unit(n))) == PRE(n)
    yield "children-in-listing-order", [REV(z3.Concat(a, b)) == z3.Concat(REV(b), REV(a)), F(z3.Concat(REV(b), REV(a))) == z3.Concat(F(REV(a)), F(REV(b)))], F(REV(z3.Concat(a, b))) == z3.Concat(F(REV(a)), F(REV(b)))
