"""C07 — metadata comes back as stored and queries are exact (P-tier: attach/detach guards)."""
from . import contops, epnames, interface, metaread, overlay, pgschema, query, toc, tocread, wrappers


def build(reg):
    specs = interface.add_interface(reg) + interface.add_interface_get(reg) + interface.add_interface_raw(reg) + overlay.add_writers(reg) + wrappers.add_destroy(reg) + toc.add_toc(reg) + query.add_query(reg) + epnames.add_stored(reg) + [x for x in tocread.add_tocread(reg) if 'C07' in x.props] + [x for x in metaread.add_metaread(reg) if 'C07' in x.props]  # the children map behind 'requested by any ancestor schema'; what happens to the metadata below a deleted or meta-less-copied group; IH5 driver: delete/create of nodes and attributes (what 'until it is deleted' rests on)
    specs += [x for x in pgschema.add_pgschema(reg) if 'C07' in x.props]  # where the children map of the plugin system comes from
    from . import oneliners

    specs = specs + oneliners.add_oneliners(reg, props=("C07",))  # one- and two-line delegations, verified against what other contracts bind them to
    return {"verify": specs, "lemmas": [], "trusted": oneliners.T_ONE + pgschema.T_PGS + query.T_QUERY + epnames.T_STORED + tocread.T_TOCREAD + ["_get_raw / _require_schema / _parse_obj / plugin_args appear as callee contracts in __setitem__ / get; each of them is verified on its own in this check; ValidationError for invalid input is pydantic's (T5)"], "assumptions": ["MetadorMeta._set_raw/_del_raw/_get_raw/get are verified against call-logging stubs of the raw container, TOCLinks and the plugin system (what they are called with and in which order is proved; what those do is under contract in the C06 specs or checked bounded)", "the collaborators _get_raw/_require_schema/_parse_obj/_set_raw/_del_raw are call-logging stubs with the stated conditions; their own behaviour is checked bounded"]}
