"""C07 — metadata comes back as stored and queries are exact (P-tier: attach/detach guards)."""
from . import contops, interface, overlay, query, toc, wrappers


def build(reg):
    specs = interface.add_interface(reg) + interface.add_interface_get(reg) + interface.add_interface_raw(reg) + overlay.add_writers(reg) + wrappers.add_destroy(reg) + toc.add_toc(reg) + query.add_query(reg)  # the children map behind 'requested by any ancestor schema'; what happens to the metadata below a deleted or meta-less-copied group; IH5 driver: delete/create of nodes and attributes (what 'until it is deleted' rests on)
    return {"verify": specs, "lemmas": [], "trusted": query.T_QUERY + ["plugin_args normalises a schema key to (name, version or None); _get_raw(name) without version finds the object of that schema name if any; _require_schema/_parse_obj raise KeyError/TypeError/ValidationError for unknown/auxiliary/invalid input"], "assumptions": ["MetadorMeta._set_raw/_del_raw/_get_raw/get are verified against call-logging stubs of the raw container, TOCLinks and the plugin system (what they are called with and in which order is proved; what those do is under contract in the C06 specs or checked bounded)", "the collaborators _get_raw/_require_schema/_parse_obj/_set_raw/_del_raw are call-logging stubs with the stated conditions; their own behaviour is checked bounded"]}
