"""C08 — reserved metador_* namespace (P-tier: path predicate, guard order of every wrapped path method)."""
from . import attrsacl, contops, interface, listing, metapaths, wrappers


def build(reg):
    specs = wrappers.add_wrappers(reg)
    keep = [s for s in specs if "C08" in s.props]
    keep += contops.add_contops(reg)  # delete / move / copy: reserved paths refused BEFORE anything happens (also for group destinations with name=)
    keep += [s for s in interface.add_interface_raw(reg) if "C08" in s.props]  # bookkeeping directories appear and disappear with the objects
    keep += listing.add_listing(reg)  # what the listings show
    keep += [s for s in attrsacl.add_group_contains(reg) + attrsacl.add_attrsacl(reg) if "C08" in s.props]  # `in`, item assignment and attribute fall-through of a group wrapper never reach the raw group
    keep += metapaths.add_metapaths(reg)  # node path <-> reserved metadata directory
    from . import oneliners

    keep = keep + oneliners.add_oneliners(reg, props=("C08",))  # one- and two-line delegations, verified against what other contracts bind them to
    return {"verify": keep, "lemmas": [], "trusted": oneliners.T_ONE + ["T7 wrapt.ObjectProxy: _self_* attributes are local to the wrapper; __wrapped__ is the raw object", "raw object: every method call on __wrapped__ is recorded as a RAW effect"] + metapaths.T_PATHS + listing.T_LIST + attrsacl.T_ATTRS + attrsacl.T_CONTAINS, "assumptions": contops.T_OPS}
