"""C15 — node restrictions cannot be escaped by navigation (P-tier: flag inheritance, guards, restrict monotone)."""
from . import packerpg, tocinit, attrsacl, contops, interface, listing, metaread, query, wrappers


def build(reg):
    specs = wrappers.add_wrappers(reg)
    keep = [s for s in specs if "C15" in s.props]
    keep += wrappers.add_upwards(reg)
    keep += contops.add_contops(reg)  # a refused delete / move / copy leaves the container unchanged (guards come first)
    keep += query.add_query(reg)  # a container query starts from the given node or from the root wrapper obtained by that call (current restrictions), results come from its visit
    keep += [x for x in metaread.add_metaread(reg) if 'C15' in x.props]  # values()/items() of a skel_only node
    keep += [x for x in listing.add_listing(reg) if 'C15' in x.props]  # what a listing hands out is wrapped
    keep += attrsacl.add_group_contains(reg)
    keep += attrsacl.add_attrsacl(reg)  # attribute managers of restricted nodes, attribute fall-through to the raw object
    keep += [x for x in tocinit.add_tocinit(reg) if 'C15' in x.props]  # opening never writes through a read-only container
    keep += [x for x in packerpg.add_packerpg(reg) if 'C15' in x.props]  # packers only ever get a skel_only, unclosable container
    keep += interface.add_interface(reg)  # attach / detach through a read_only node: refused without effect
    from . import oneliners

    keep = keep + oneliners.add_oneliners(reg, props=("C15",))  # one- and two-line delegations, verified against what other contracts bind them to
    return {"verify": keep, "lemmas": [], "trusted": oneliners.T_ONE + ["T7 wrapt.ObjectProxy: _self_* attributes are local to the wrapper; __wrapped__ is the raw object"] + packerpg.T_PACKER + tocinit.T_TOCINIT + attrsacl.T_ATTRS + attrsacl.T_CONTAINS + contops.T_OPS + query.T_QUERY + metaread.T_READ + listing.T_LIST, "assumptions": ["navigation chains of any length: every step creates its result through _wrap_if_node/_child_node_kwargs (proved flag-monotone), so flags are monotone along every chain; the list of navigation primitives that do so is checked bounded"]}
