"""C15 — node restrictions cannot be escaped by navigation (P-tier: flag inheritance, guards, restrict monotone)."""
from . import wrappers


def build(reg):
    specs = wrappers.add_wrappers(reg)
    keep = [s for s in specs if "C15" in s.props]
    return {"verify": keep, "lemmas": [], "trusted": ["T7 wrapt.ObjectProxy: _self_* attributes are local to the wrapper; __wrapped__ is the raw object"], "assumptions": ["navigation chains of any length: every step creates its result through _wrap_if_node/_child_node_kwargs (proved flag-monotone), so flags are monotone along every chain; the list of navigation primitives that do so is checked bounded"]}
