"""container/utils.py: node path <-> metadata directory path (C06/C08: every node's metadata lives in exactly one reserved directory, and back)."""
from __future__ import annotations

import z3

from pyvc.api import A, FnSpec
from pyvc.values import SBool, SStr, SVal, Unsupported

S, B = z3.StringSort(), z3.BoolSort()
SL = z3.StringVal("/")
PREF = z3.StringVal("metador_meta_")

T_PATHS = [
    "node paths are absolute and normalised ('/' or '/seg/seg...' with non-empty segments that contain no '/'); METADOR_META_PREF is the constant 'metador_meta_' (read from the module)",
]


def no_slash(x):
    return z3.Not(z3.Contains(x, SL))


class ToMetaBase(FnSpec):
    file = "container/utils.py"
    qual = "to_meta_base_path"
    props = ("C06", "C08")
    pure = True

    def setup(self, cx):
        d, x = z3.String("parent_part"), z3.String("last_segment")  # node_path == d ++ x, d ends with '/', x has none
        cx.assume(z3.And(z3.SuffixOf(SL, d), no_slash(x)))
        ds = cx.choose(2) == 1
        a = A(node_path=SStr(z3.Concat(d, x)), is_dataset=ds)
        a.d, a.x, a.ds = d, x, ds
        return a

    def raises(self, cx, a):
        return {}

    def native_plan(self, m, o):
        ds = "dataset:" in o.get("name", "")
        return {"fn": "to_meta_base_path", "args": [_path_of(m), ds]}

    def ensures(self, cx, a, res):
        t = res.t if isinstance(res, SStr) else (z3.StringVal(res) if isinstance(res, str) else None)
        if t is None:
            return [("a-path", z3.BoolVal(False), "")]
        d, x = a.d, a.x
        if a.ds:
            return [("dataset:prefix-on-the-last-segment", t == z3.Concat(d, PREF, x), "the metadata directory of a dataset sits next to it: <parent>/metador_meta_<name>")]
        root = z3.And(d == SL, x == z3.StringVal(""))
        return [("group:reserved-child-named-by-the-bare-prefix", t == z3.If(root, z3.Concat(SL, PREF), z3.Concat(d, x, SL, PREF)), "the metadata directory of a group is its child 'metador_meta_' (for the root group: '/metador_meta_', not '//metador_meta_')")]


def _path_of(m):
    d, x = m.get("parent_part"), m.get("last_segment")
    return (d if isinstance(d, str) else "") + (x if isinstance(x, str) else "")


class ToDataNode(FnSpec):
    file = "container/utils.py"
    qual = "to_data_node_path"
    props = ("C06", "C08")
    pure = True

    def init(self):
        self.bindings["len"] = self._len

    @staticmethod
    def _len(cx, v):
        from pyvc.values import SplitVal

        if isinstance(v, str):
            return len(v)
        if isinstance(v, SplitVal):
            return v.py_len(cx)
        raise Unsupported("len of something else")

    def setup(self, cx):
        # the two forms ToMetaBase produces: <d>metador_meta_<x> (dataset x, x != "") and <g>/metador_meta_ (group g; g == "" for the root)
        d, x = z3.String("parent_part"), z3.String("last_segment")
        form = cx.choose(2)
        if form == 0:
            cx.assume(z3.And(z3.SuffixOf(SL, d), z3.PrefixOf(SL, d), no_slash(x), z3.Length(x) > 0))
            m = z3.Concat(d, PREF, x)
            want = z3.Concat(d, x)
        else:
            g = z3.String("group_path_or_empty_for_root")
            cx.assume(z3.Or(g == z3.StringVal(""), z3.And(z3.PrefixOf(SL, g), z3.Not(z3.SuffixOf(SL, g)))))
            m = z3.Concat(g, SL, PREF)
            want = z3.If(g == z3.StringVal(""), SL, g)
        a = A(meta_dir_path=SStr(m))
        a.want = want
        return a

    def raises(self, cx, a):
        return {}

    def native_plan(self, m, o):
        d, x, g = m.get("parent_part"), m.get("last_segment"), m.get("group_path_or_empty_for_root")
        if isinstance(g, str):
            return {"fn": "to_data_node_path", "args": [g + "/metador_meta_"], "expect": g if g else "/"}
        if isinstance(d, str) and isinstance(x, str):
            return {"fn": "to_data_node_path", "args": [d + "metador_meta_" + x], "expect": d + x}
        return None

    def ensures(self, cx, a, res):
        t = res.t if isinstance(res, SStr) else (z3.StringVal(res) if isinstance(res, str) else None)
        return [("the-node-the-directory-belongs-to", z3.BoolVal(False) if t is None else t == a.want, "to_data_node_path(to_meta_base_path(p, is_dataset)) == p for every node path p — the dataset next to the directory, the group above it, '/' for the root")]


class IsMetaBase(FnSpec):
    file = "container/utils.py"
    qual = "is_meta_base_path"
    props = ("C06", "C08")
    pure = True

    def setup(self, cx):
        d, x = z3.String("parent_part"), z3.String("last_segment")
        cx.assume(z3.And(z3.Or(d == z3.StringVal(""), z3.SuffixOf(SL, d)), no_slash(x)))
        a = A(path=SStr(z3.Concat(d, x)))
        a.x = x
        return a

    def raises(self, cx, a):
        return {}

    def native_plan(self, m, o):
        return {"fn": "is_meta_base_path", "args": [_path_of(m)]}

    def ensures(self, cx, a, res):
        from .c16 import is_bool_eq

        return [("judged-by-the-last-segment-only", is_bool_eq(res, z3.PrefixOf(PREF, a.x)), "a path is a metadata directory iff its LAST segment starts with 'metador_meta_' (inner paths of such a directory are not)")]


def add_metapaths(reg):
    specs = [ToMetaBase(), ToDataNode(), IsMetaBase()]
    for s in specs:
        reg.add(s)
    return specs
