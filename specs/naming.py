"""File names of a record's containers: IH5Record._infer_name / _next_patch_filepath (C03: a patch written after a reopen is found again by name)."""
from __future__ import annotations

import z3

from pyvc.api import A, FnSpec
from pyvc.containers import SObj
from pyvc.engine import SClass
from pyvc.values import SInt, SStr, SVal, Unsupported

S, I, B = z3.StringSort(), z3.IntSort(), z3.BoolSort()
P_NAME = z3.Function("pathlib_name", S, S)
P_PARENT = z3.Function("pathlib_parent_text", S, S)

T_NAMES = [
    "T2 pathlib: Path(d + '/' + f).name == f and str(Path(d + '/' + f).parent) == d for a normalised directory text d and a file name f without '/'; str(Path(s)) == s for the texts built here",
    "str(k) of a non-negative int k is a non-empty string of decimal digits (SMT-LIB str.from_int; neither solver derives membership in [0-9]+ from it)",
    "record names are valid names: [A-Za-z0-9-]+ (IH5Record._is_valid_record_name, enforced by _create and find_files)",
]


class NPath(SVal):
    def __init__(self, t):
        self.t = t

    def py_truth(self, cx):
        return True

    def py_getattr(self, cx, name):
        if name == "name":
            return SStr(P_NAME(self.t))
        if name == "parent":
            return NPath(P_PARENT(self.t))
        raise Unsupported("Path attribute " + name)

    def py_str(self, cx):
        return SStr(self.t)


def path_ctor(cx, x):
    if isinstance(x, NPath):
        return x
    if isinstance(x, SStr):
        return NPath(x.t)
    if isinstance(x, str):
        return NPath(z3.StringVal(x))
    raise Unsupported("Path() of a non-text")


def no_sub(s, sub):
    return z3.Not(z3.Contains(s, z3.StringVal(sub)))


def digits(s):
    return z3.And(z3.Length(s) >= 1, z3.InRe(s, z3.Plus(z3.Range("0", "9"))))


def record_name_ok(n):
    """_is_valid_record_name: one or more of [A-Za-z0-9-] (checked by _create and find_files before any file is named)"""
    return z3.InRe(n, z3.Plus(z3.Union(z3.Range("A", "Z"), z3.Range("a", "z"), z3.Range("0", "9"), z3.Re("-"))))


class InferName(FnSpec):
    """_infer_name(<name>.ih5) == <name> == _infer_name(<name>.p<k>.ih5)"""

    file = "ih5/record.py"
    qual = "IH5Record._infer_name"
    props = ("C03",)
    pure = True

    def init(self):
        self.bindings["Path"] = path_ctor

    def setup(self, cx):
        n, k, p = z3.String("record_name"), z3.String("patch_digits"), z3.String("container_path")
        cx.assume(record_name_ok(n))
        which = cx.choose(2)
        if which == 0:
            cx.assume(P_NAME(p) == z3.Concat(n, z3.StringVal(".ih5")))
        else:
            cx.assume(z3.And(digits(k), P_NAME(p) == z3.Concat(n, z3.StringVal(".p"), k, z3.StringVal(".ih5"))))
        a = A(cls=SClass("IH5Record"), record_path=NPath(p))
        a.n = n
        return a

    def raises(self, cx, a):
        return {}

    def ensures(self, cx, a, res):
        t = res.t if isinstance(res, SStr) else (z3.StringVal(res) if isinstance(res, str) else None)
        return [("record-name-of-a-container-file", z3.BoolVal(False) if t is None else t == a.n, "the record name is recovered exactly from the base container's and from every patch container's file name — whatever the name looks like (digits, a trailing 'p<digits>', dashes, dots that do not start '.p' or '.ih5')")]

    def native_plan(self, m, o):
        n, k = m.get("record_name"), m.get("patch_digits")
        if not isinstance(n, str):
            return None
        fname = n + (".p" + k if isinstance(k, str) and k else "") + ".ih5"
        return {"fn": "_infer_name", "args": ["/some/dir/" + fname], "expect": n}

    # callee side: the name as a function of the path (characterised above for the library's own file names)
    def result(self, cx, a):
        return SStr(INFER(a.record_path.t))


INFER = z3.Function("inferred_record_name", S, S)


class FileStub(SVal):
    def __init__(self, fn):
        self.fn = fn

    def py_getattr(self, cx, name):
        if name == "filename":
            return SStr(self.fn)
        raise Unsupported("file attribute " + name)


class UbStub(SVal):
    def __init__(self, idx):
        self.idx = idx

    def py_getattr(self, cx, name):
        if name == "patch_index":
            return SInt(self.idx)
        raise Unsupported("user block attribute " + name)


class NextPatchPathBody(FnSpec):
    file = "ih5/record.py"
    qual = "IH5Record._next_patch_filepath"
    props = ("C03",)

    def init(self):
        self.bindings["Path"] = path_ctor

    def setup(self, cx):
        me = SObj("IH5Record", name="self")
        first, idx = z3.String("first_container_path"), z3.Int("newest_patch_index")
        cx.assume(idx >= 0)
        me.fields["__files__"] = [FileStub(first)]
        me.fields["_ublock"] = lambda cx2, i: UbStub(idx) if i == -1 else (_ for _ in ()).throw(Unsupported("_ublock of another container"))  # the newest container's user block
        a = A(self=me)
        a.first, a.idx = first, idx
        return a

    def raises(self, cx, a):
        return {}

    def ensures(self, cx, a, res):
        if not isinstance(res, NPath):
            return [("result-shape", z3.BoolVal(False), "returns a path")]
        want = z3.Concat(P_PARENT(a.first), z3.StringVal("/"), INFER(a.first), z3.StringVal(".p"), z3.IntToStr(a.idx + 1), z3.StringVal(".ih5"))
        return [("next-to-the-first-container-under-the-record-name", res.t == want, "the next patch file is <directory of the first container>/<record name>.p<newest index + 1>.ih5")]


def lemma_next_patch_is_found():
    """the file name built by _next_patch_filepath is one find_files(<dir>/<name>) accepts: <name> followed by a character outside [A-Za-z0-9-], ending in .ih5"""
    n, d = z3.String("ln_name"), z3.String("ln_dir")
    idx = z3.Int("ln_idx")
    fname = z3.Concat(n, z3.StringVal(".p"), z3.IntToStr(idx + 1), z3.StringVal(".ih5"))
    nxt = z3.SubString(fname, z3.Length(n), 1)
    alnumdash = z3.Union(z3.Range("A", "Z"), z3.Range("a", "z"), z3.Range("0", "9"), z3.Re("-"))
    yield "starts-with-the-record-name-then-a-separator", [record_name_ok(n), idx >= 0], z3.And(z3.PrefixOf(n, fname), z3.Not(z3.InRe(nxt, alnumdash)), z3.SuffixOf(z3.StringVal(".ih5"), fname))
    # _infer_name of that very file gives the name back: InferName's second case with k = str(idx + 1), a digit string (T_NAMES) — so the patch after it is named alike


def add_naming(reg, register=True):
    """register=False: the two bodies are verified on their own; callers in that registry keep seeing the callee contracts they had"""
    reg.set_class_home("IH5Record", "ih5/record.py")
    a, b = InferName(), NextPatchPathBody()
    if register:
        reg.add(a)
        reg.add(b)
    return [a, b]
